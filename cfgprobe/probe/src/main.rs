//! Feature-configuration probe (C20, and the no-alloc part of C06).
//!
//! The same source is built six times with minicbor / minicbor-serde in the configurations
//! {none, alloc, std} x {half, no half}. Every build runs the same deterministic corpus and
//! operation script and writes a transcript `(op, input index) -> (class, position, digest)`.
//!
//!   probe transcript <quick|thorough> <outfile>
//!   probe skipcheck  <quick|thorough>

extern crate alloc;

use minicbor::data::Type;
#[allow(unused_imports)]
use minicbor::decode::{self, Decode, Decoder};
use minicbor::{CborLen, Encode};
use refmodel::corpus::*;
use refmodel::*;
use std::io::Write;

// ---- digests --------------------------------------------------------------------------------

#[derive(Clone, Copy)]
struct H(u64);

impl H {
    fn new() -> H {
        H(0xcbf29ce484222325)
    }
    fn bytes(&mut self, b: &[u8]) {
        for x in b {
            self.0 ^= *x as u64;
            self.0 = self.0.wrapping_mul(0x100000001b3);
        }
    }
    fn u64(&mut self, x: u64) {
        self.bytes(&x.to_le_bytes())
    }
    fn tag(&mut self, t: u8) {
        self.bytes(&[0xfe, t])
    }
}

trait Dig {
    fn dig(&self, h: &mut H);
}

macro_rules! dig_int { ($($t:ty)*) => { $( impl Dig for $t { fn dig(&self, h: &mut H) { h.u64(*self as i128 as u64); h.u64((*self as i128 >> 64) as u64) } } )* } }
dig_int!(u8 u16 u32 u64 i8 i16 i32 i64 usize isize);

impl Dig for bool {
    fn dig(&self, h: &mut H) {
        h.bytes(&[*self as u8])
    }
}
impl Dig for char {
    fn dig(&self, h: &mut H) {
        h.u64(*self as u64)
    }
}
impl Dig for f32 {
    fn dig(&self, h: &mut H) {
        // NaN payloads are not compared across configurations
        if self.is_nan() {
            h.tag(9)
        } else {
            h.u64(self.to_bits() as u64)
        }
    }
}
impl Dig for f64 {
    fn dig(&self, h: &mut H) {
        if self.is_nan() {
            h.tag(9)
        } else {
            h.u64(self.to_bits())
        }
    }
}
impl Dig for () {
    fn dig(&self, h: &mut H) {
        h.tag(1)
    }
}
impl Dig for str {
    fn dig(&self, h: &mut H) {
        h.tag(2);
        h.bytes(self.as_bytes())
    }
}
impl Dig for [u8] {
    fn dig(&self, h: &mut H) {
        h.tag(3);
        h.bytes(self)
    }
}
impl<T: Dig + ?Sized> Dig for &T {
    fn dig(&self, h: &mut H) {
        (**self).dig(h)
    }
}
impl<T: Dig> Dig for Option<T> {
    fn dig(&self, h: &mut H) {
        match self {
            None => h.tag(4),
            Some(x) => {
                h.tag(5);
                x.dig(h)
            }
        }
    }
}
impl<A: Dig, B: Dig> Dig for (A, B) {
    fn dig(&self, h: &mut H) {
        self.0.dig(h);
        self.1.dig(h)
    }
}
impl<A: Dig, B: Dig> Dig for Result<A, B> {
    fn dig(&self, h: &mut H) {
        match self {
            Ok(x) => {
                h.tag(6);
                x.dig(h)
            }
            Err(x) => {
                h.tag(7);
                x.dig(h)
            }
        }
    }
}
impl<T: Dig, const N: usize> Dig for [T; N] {
    fn dig(&self, h: &mut H) {
        for x in self {
            x.dig(h)
        }
    }
}
impl Dig for minicbor::data::Int {
    fn dig(&self, h: &mut H) {
        let v = i128::from(*self);
        h.u64(v as u64);
        h.u64((v >> 64) as u64)
    }
}
impl Dig for Type {
    fn dig(&self, h: &mut H) {
        let n: u8 = match self {
            Type::Bool => 0, Type::Null => 1, Type::Undefined => 2, Type::U8 => 3, Type::U16 => 4, Type::U32 => 5, Type::U64 => 6, Type::I8 => 7, Type::I16 => 8,
            Type::I32 => 9, Type::I64 => 10, Type::Int => 11, Type::F16 => 12, Type::F32 => 13, Type::F64 => 14, Type::Simple => 15, Type::Bytes => 16, Type::BytesIndef => 17,
            Type::String => 18, Type::StringIndef => 19, Type::Array => 20, Type::ArrayIndef => 21, Type::Map => 22, Type::MapIndef => 23, Type::Tag => 24, Type::Break => 25,
            Type::Unknown(x) => {
                h.bytes(&[*x]);
                26
            }
        };
        h.bytes(&[n])
    }
}
#[cfg(feature = "alloc")]
impl<T: Dig> Dig for Vec<T> {
    fn dig(&self, h: &mut H) {
        h.u64(self.len() as u64);
        for x in self {
            x.dig(h)
        }
    }
}
#[cfg(feature = "alloc")]
impl Dig for String {
    fn dig(&self, h: &mut H) {
        self.as_str().dig(h)
    }
}

// ---- records --------------------------------------------------------------------------------

#[derive(Clone, Copy)]
struct Rec {
    class: u8,
    pos: u32,
    digest: u64,
}

fn class_of(e: &decode::Error) -> u8 {
    if e.is_end_of_input() {
        1
    } else if e.is_type_mismatch() {
        2
    } else if e.is_tag_mismatch() {
        3
    } else if e.is_message() {
        4
    } else if is_custom(e) {
        5
    } else if e.is_unknown_variant() {
        6
    } else if e.is_missing_value() {
        7
    } else {
        8
    }
}

#[cfg(feature = "alloc")]
fn is_custom(e: &decode::Error) -> bool {
    e.is_custom()
}
#[cfg(not(feature = "alloc"))]
fn is_custom(_: &decode::Error) -> bool {
    false
}

fn rec<T: Dig>(d: &Decoder, r: Result<T, decode::Error>) -> Rec {
    match r {
        Ok(v) => {
            let mut h = H::new();
            v.dig(&mut h);
            Rec { class: 0, pos: d.position() as u32, digest: h.0 }
        }
        // for errors the digest is the position the error itself reports (0 = none)
        Err(e) => Rec { class: class_of(&e), pos: d.position() as u32, digest: e.position().map(|p| (p as u64).wrapping_add(1)).unwrap_or(0) },
    }
}

type OpFn = fn(&[u8]) -> Rec;

struct Op {
    name: &'static str,
    run: OpFn,
}

macro_rules! acc {
    ($name:expr, |$d:ident| $e:expr) => {
        Op { name: $name, run: |b: &[u8]| { let mut $d = Decoder::new(b); let r = $e; rec(&$d, r) } }
    };
}

macro_rules! typed {
    ($name:expr, $t:ty) => {
        Op { name: $name, run: |b: &[u8]| { let mut d = Decoder::new(b); let r = d.decode::<$t>().map(Digested::of); rec(&d, r) } }
    };
}

/// wrapper so that typed results can be digested through one path
struct Digested(u64);
impl Dig for Digested {
    fn dig(&self, h: &mut H) {
        h.u64(self.0)
    }
}
impl Digested {
    fn of<T: Dig>(v: T) -> Self {
        let mut h = H::new();
        v.dig(&mut h);
        Digested(h.0)
    }
}

// derived probe types
#[derive(minicbor::Encode, minicbor::Decode, minicbor::CborLen)]
struct DStruct {
    #[n(0)]
    a: u8,
    #[n(2)]
    b: Option<u8>,
}
impl Dig for DStruct {
    fn dig(&self, h: &mut H) {
        self.a.dig(h);
        self.b.dig(h)
    }
}
#[derive(minicbor::Encode, minicbor::Decode, minicbor::CborLen)]
#[cbor(map)]
struct DMap<'a> {
    #[n(0)]
    a: Option<&'a str>,
    #[n(2)]
    b: Option<u8>,
}
impl Dig for DMap<'_> {
    fn dig(&self, h: &mut H) {
        self.a.dig(h);
        self.b.dig(h)
    }
}
/// tags on the type and on fields (the generated tag-mismatch error differs per configuration)
#[derive(minicbor::Encode, minicbor::Decode, minicbor::CborLen)]
#[cbor(tag(5))]
struct DTag {
    #[n(0)]
    #[cbor(tag(6))]
    a: u8,
    #[n(1)]
    #[cbor(tag(300))]
    b: Option<u8>,
}
impl Dig for DTag {
    fn dig(&self, h: &mut H) {
        self.a.dig(h);
        self.b.dig(h)
    }
}
#[derive(minicbor::Encode, minicbor::Decode, minicbor::CborLen)]
#[cbor(map, tag(1))]
struct DTagMap {
    #[n(0)]
    #[cbor(tag(1))]
    a: Option<u8>,
}
impl Dig for DTagMap {
    fn dig(&self, h: &mut H) {
        self.a.dig(h)
    }
}
#[derive(minicbor::Encode, minicbor::Decode, minicbor::CborLen)]
enum DTagEnum {
    #[n(0)]
    #[cbor(tag(1))]
    A,
    #[n(1)]
    #[cbor(tag(1))]
    B(#[n(0)] #[cbor(tag(1))] u8),
}
impl Dig for DTagEnum {
    fn dig(&self, h: &mut H) {
        match self {
            DTagEnum::A => h.tag(20),
            DTagEnum::B(x) => {
                h.tag(21);
                x.dig(h)
            }
        }
    }
}
#[derive(minicbor::Encode, minicbor::Decode, minicbor::CborLen)]
#[cbor(index_only)]
enum DIdx {
    #[n(0)]
    A,
    #[n(3)]
    B,
}
impl Dig for DIdx {
    fn dig(&self, h: &mut H) {
        match self {
            DIdx::A => h.tag(22),
            DIdx::B => h.tag(23),
        }
    }
}
#[derive(minicbor::Encode, minicbor::Decode, minicbor::CborLen)]
#[cbor(transparent)]
struct DTrans(#[n(0)] DStruct);
impl Dig for DTrans {
    fn dig(&self, h: &mut H) {
        self.0.dig(h)
    }
}
#[derive(minicbor::Encode, minicbor::Decode, minicbor::CborLen)]
struct DNest<'a>(#[n(0)] Option<DIdx>, #[b(1)] Option<DMap<'a>>, #[n(2)] Option<DTag>);
impl Dig for DNest<'_> {
    fn dig(&self, h: &mut H) {
        self.0.dig(h);
        self.1.dig(h);
        self.2.dig(h)
    }
}
/// borrowing Cow fields (the generated code names std:: or alloc:: depending on the configuration)
#[cfg(feature = "alloc")]
#[derive(minicbor::Encode, minicbor::Decode, minicbor::CborLen)]
struct DCow<'a> {
    #[b(0)]
    s: Option<alloc_or_std::Cow<'a, str>>,
    #[b(1)]
    #[cbor(with = "minicbor::bytes")]
    c: Option<alloc_or_std::Cow<'a, [u8]>>,
    #[n(2)]
    o: Option<alloc_or_std::Cow<'a, str>>,
}
#[cfg(feature = "alloc")]
mod alloc_or_std {
    pub use std::borrow::Cow;
}
#[cfg(feature = "alloc")]
impl Dig for DCow<'_> {
    fn dig(&self, h: &mut H) {
        use alloc_or_std::Cow;
        for (i, b) in [self.s.as_ref().map(|c| (matches!(c, Cow::Borrowed(_)), c.as_bytes())), self.c.as_ref().map(|c| (matches!(c, Cow::Borrowed(_)), &c[..])), self.o.as_ref().map(|c| (matches!(c, Cow::Borrowed(_)), c.as_bytes()))].iter().enumerate() {
            h.tag(40 + i as u8);
            match b {
                None => h.tag(0),
                Some((borrowed, bytes)) => {
                    h.tag(1 + *borrowed as u8);
                    bytes.dig(h)
                }
            }
        }
    }
}
#[cfg(feature = "alloc")]
#[derive(minicbor::Encode, minicbor::Decode, minicbor::CborLen)]
#[cbor(transparent)]
struct DCowT<'a>(#[b(0)] alloc_or_std::Cow<'a, str>);
#[cfg(feature = "alloc")]
impl Dig for DCowT<'_> {
    fn dig(&self, h: &mut H) {
        h.tag(1 + matches!(self.0, alloc_or_std::Cow::Borrowed(_)) as u8);
        self.0.as_bytes().dig(h)
    }
}

#[derive(minicbor::Encode, minicbor::Decode, minicbor::CborLen)]
enum DEnum {
    #[n(0)]
    A,
    #[n(1)]
    B(#[n(0)] u8),
    #[n(2)]
    #[cbor(map)]
    C {
        #[n(0)]
        x: Option<u8>,
    },
}
impl Dig for DEnum {
    fn dig(&self, h: &mut H) {
        match self {
            DEnum::A => h.tag(10),
            DEnum::B(x) => {
                h.tag(11);
                x.dig(h)
            }
            DEnum::C { x } => {
                h.tag(12);
                x.dig(h)
            }
        }
    }
}
impl<A: Dig> Dig for (A,) {
    fn dig(&self, h: &mut H) {
        self.0.dig(h)
    }
}
impl<A: Dig, B: Dig, C: Dig> Dig for (A, B, C) {
    fn dig(&self, h: &mut H) {
        self.0.dig(h);
        self.1.dig(h);
        self.2.dig(h)
    }
}
impl<T: Dig> Dig for core::ops::RangeInclusive<T> {
    fn dig(&self, h: &mut H) {
        self.start().dig(h);
        self.end().dig(h)
    }
}
impl<T: Dig> Dig for core::num::Wrapping<T> {
    fn dig(&self, h: &mut H) {
        self.0.dig(h)
    }
}
impl Dig for core::num::NonZeroU8 {
    fn dig(&self, h: &mut H) {
        self.get().dig(h)
    }
}
impl<T: Dig + Copy> Dig for core::cell::Cell<T> {
    fn dig(&self, h: &mut H) {
        self.get().dig(h)
    }
}
impl Dig for core::ffi::CStr {
    fn dig(&self, h: &mut H) {
        self.to_bytes_with_nul().dig(h)
    }
}
impl Dig for core::time::Duration {
    fn dig(&self, h: &mut H) {
        h.u64(self.as_secs());
        h.u64(self.subsec_nanos() as u64)
    }
}
impl<T: Dig> Dig for core::ops::Range<T> {
    fn dig(&self, h: &mut H) {
        self.start.dig(h);
        self.end.dig(h)
    }
}
impl<T: Dig> Dig for core::ops::Bound<T> {
    fn dig(&self, h: &mut H) {
        match self {
            core::ops::Bound::Included(x) => {
                h.tag(20);
                x.dig(h)
            }
            core::ops::Bound::Excluded(x) => {
                h.tag(21);
                x.dig(h)
            }
            core::ops::Bound::Unbounded => h.tag(22),
        }
    }
}
impl<const N: u64, T: Dig> Dig for minicbor::data::Tagged<N, T> {
    fn dig(&self, h: &mut H) {
        self.value().dig(h)
    }
}
impl<const N: usize> Dig for minicbor::bytes::ByteArray<N> {
    fn dig(&self, h: &mut H) {
        self[..].dig(h)
    }
}
impl Dig for minicbor::bytes::ByteSlice {
    fn dig(&self, h: &mut H) {
        self[..].dig(h)
    }
}
impl<T> Dig for core::marker::PhantomData<T> {
    fn dig(&self, h: &mut H) {
        h.tag(1)
    }
}

fn decode_ops() -> Vec<Op> {
    let mut v = vec![
        acc!("bool()", |d| d.bool()),
        acc!("u8()", |d| d.u8()),
        acc!("u16()", |d| d.u16()),
        acc!("u32()", |d| d.u32()),
        acc!("u64()", |d| d.u64()),
        acc!("i8()", |d| d.i8()),
        acc!("i16()", |d| d.i16()),
        acc!("i32()", |d| d.i32()),
        acc!("i64()", |d| d.i64()),
        acc!("int()", |d| d.int()),
        acc!("f32()", |d| d.f32()),
        acc!("f64()", |d| d.f64()),
        acc!("char()", |d| d.char()),
        acc!("bytes()", |d| d.bytes()),
        acc!("str()", |d| d.str()),
        acc!("null()", |d| d.null()),
        acc!("undefined()", |d| d.undefined()),
        acc!("simple()", |d| d.simple()),
        acc!("array()", |d| d.array()),
        acc!("map()", |d| d.map()),
        acc!("tag()", |d| d.tag().map(|t| t.as_u64())),
        acc!("datatype()", |d| d.datatype()),
        acc!("skip()", |d| d.skip()),
        acc!("bytes_iter()", |d| (|| {
            let mut h = H::new();
            let mut n = 0u64;
            for c in d.bytes_iter()? {
                c?.dig(&mut h);
                n += 1;
                if n > 100000 {
                    break;
                }
            }
            Ok((n, h.0))
        })()),
        acc!("str_iter()", |d| (|| {
            let mut h = H::new();
            let mut n = 0u64;
            for c in d.str_iter()? {
                c?.dig(&mut h);
                n += 1;
                if n > 100000 {
                    break;
                }
            }
            Ok((n, h.0))
        })()),
        acc!("array_iter<u8>", |d| (|| {
            let mut h = H::new();
            let mut n = 0u64;
            for c in d.array_iter::<u8>()? {
                c?.dig(&mut h);
                n += 1;
                if n > 100000 {
                    break;
                }
            }
            Ok((n, h.0))
        })()),
        acc!("map_iter<u8,u8>", |d| (|| {
            let mut h = H::new();
            let mut n = 0u64;
            for c in d.map_iter::<u8, u8>()? {
                c?.dig(&mut h);
                n += 1;
                if n > 100000 {
                    break;
                }
            }
            Ok((n, h.0))
        })()),
        typed!("decode<u8>", u8),
        typed!("decode<i64>", i64),
        typed!("decode<bool>", bool),
        typed!("decode<char>", char),
        typed!("decode<f32>", f32),
        typed!("decode<f64>", f64),
        typed!("decode<usize>", usize),
        typed!("decode<&str>", &str),
        typed!("decode<Option<u8>>", Option<u8>),
        typed!("decode<(u8,i8)>", (u8, i8)),
        typed!("decode<[u8;3]>", [u8; 3]),
        typed!("decode<Range<u8>>", core::ops::Range<u8>),
        typed!("decode<Duration>", core::time::Duration),
        typed!("decode<Result<u8,i8>>", Result<u8, i8>),
        typed!("decode<Bound<u8>>", core::ops::Bound<u8>),
        typed!("decode<Tagged<1,u8>>", minicbor::data::Tagged<1, u8>),
        typed!("decode<Int>", minicbor::data::Int),
        typed!("decode<ByteArray<4>>", minicbor::bytes::ByteArray<4>),
        typed!("decode<&ByteSlice>", &minicbor::bytes::ByteSlice),
        typed!("decode<()>", ()),
        typed!("decode<PhantomData>", core::marker::PhantomData<u8>),
        typed!("decode<DStruct>", DStruct),
        typed!("decode<DMap>", DMap),
        typed!("decode<DEnum>", DEnum),
        typed!("decode<Option<DEnum>>", Option<DEnum>),
        typed!("decode<DTag>", DTag),
        typed!("decode<DTagMap>", DTagMap),
        typed!("decode<DTagEnum>", DTagEnum),
        typed!("decode<DIdx>", DIdx),
        typed!("decode<DTrans>", DTrans),
        typed!("decode<DNest>", DNest),
        typed!("decode<[u8;0]>", [u8; 0]),
        typed!("decode<[u8;1]>", [u8; 1]),
        typed!("decode<[Option<u8>;2]>", [Option<u8>; 2]),
        typed!("decode<(u8,)>", (u8,)),
        typed!("decode<(u8,u8,u8)>", (u8, u8, u8)),
        typed!("decode<Option<Option<u8>>>", Option<Option<u8>>),
        typed!("decode<RangeInclusive<u8>>", core::ops::RangeInclusive<u8>),
        typed!("decode<Wrapping<i8>>", core::num::Wrapping<i8>),
        typed!("decode<NonZeroU8>", core::num::NonZeroU8),
        typed!("decode<Cell<u8>>", core::cell::Cell<u8>),
        typed!("decode<u16>", u16),
        typed!("decode<i8>", i8),
        typed!("decode<isize>", isize),
        typed!("decode<&CStr>", &core::ffi::CStr),
    ];
    #[cfg(feature = "half")]
    {
        v.push(acc!("f16()", |d| d.f16()));
        v.push(acc!("tokens()", |d| (|| {
            let mut n = 0u64;
            let mut h = H::new();
            for t in d.tokens() {
                let t = t?;
                // digest of the token through its own encoding
                let mut buf = [0u8; 16];
                let mut s: &mut [u8] = &mut buf[..];
                match t {
                    minicbor::data::Token::Bytes(b) => b.dig(&mut h),
                    minicbor::data::Token::String(x) => x.dig(&mut h),
                    other => {
                        if minicbor::encode(&other, &mut s).is_ok() {
                            let used = 16 - s.len();
                            h.bytes(&buf[..used])
                        }
                    }
                }
                n += 1;
                if n > 100000 {
                    break;
                }
            }
            Ok((n, h.0))
        })()));
    }
    #[cfg(all(feature = "half", feature = "alloc"))]
    v.push(Op {
        name: "display",
        run: |b: &[u8]| {
            let s = format!("{}", minicbor::display(b));
            // error messages are not part of the transcript: cut at the first inline marker
            let cut = s.find(" !!!").unwrap_or(s.len());
            let mut h = H::new();
            h.bytes(s[..cut].as_bytes());
            Rec { class: if cut == s.len() { 0 } else { 4 }, pos: 0, digest: h.0 }
        },
    });
    #[cfg(feature = "alloc")]
    {
        v.push(typed!("decode<String>", String));
        v.push(typed!("decode<Vec<u8>>", Vec<u8>));
        v.push(typed!("decode<Vec<Option<i8>>>", Vec<Option<i8>>));
        v.push(typed!("decode<ByteVec>", ByteVecD));
        v.push(typed!("decode<Box<u8>>", BoxD));
        v.push(typed!("decode<DCow>", DCow));
        v.push(typed!("decode<DCowT>", DCowT));
    }
    // serde bridge
    v.push(Op { name: "serde<u8>", run: |b| serde_rec::<u8>(b) });
    v.push(Op { name: "serde<i64>", run: |b| serde_rec::<i64>(b) });
    v.push(Op { name: "serde<bool>", run: |b| serde_rec::<bool>(b) });
    v.push(Op { name: "serde<f32>", run: |b| serde_rec::<f32>(b) });
    v.push(Op { name: "serde<char>", run: |b| serde_rec::<char>(b) });
    v.push(Op { name: "serde<&str>", run: |b| serde_rec::<&str>(b) });
    v.push(Op { name: "serde<()>", run: |b| serde_rec::<()>(b) });
    v.push(Op { name: "serde<Option<u8>>", run: |b| serde_rec::<Option<u8>>(b) });
    v.push(Op { name: "serde<(u8,u16)>", run: |b| serde_rec::<(u8, u16)>(b) });
    v.push(Op { name: "serde<SStruct>", run: |b| serde_rec::<SStruct>(b) });
    v.push(Op { name: "serde<SEnum>", run: |b| serde_rec::<SEnum>(b) });
    v.push(Op { name: "serde<AnyProbe>", run: |b| serde_rec::<AnyProbe>(b) });
    v.push(Op { name: "serde<IgnoredAny>", run: |b| serde_rec::<Ignored>(b) });
    #[cfg(feature = "alloc")]
    {
        v.push(Op { name: "serde<String>", run: |b| serde_rec::<String>(b) });
        v.push(Op { name: "serde<Vec<u8>>", run: |b| serde_rec::<Vec<u8>>(b) });
    }
    v
}

#[cfg(feature = "alloc")]
struct ByteVecD(minicbor::bytes::ByteVec);
#[cfg(feature = "alloc")]
impl<'b, C> Decode<'b, C> for ByteVecD {
    fn decode(d: &mut Decoder<'b>, c: &mut C) -> Result<Self, decode::Error> {
        minicbor::bytes::ByteVec::decode(d, c).map(ByteVecD)
    }
}
#[cfg(feature = "alloc")]
impl Dig for ByteVecD {
    fn dig(&self, h: &mut H) {
        self.0[..].dig(h)
    }
}
#[cfg(feature = "alloc")]
struct BoxD(Box<u8>);
#[cfg(feature = "alloc")]
impl<'b, C> Decode<'b, C> for BoxD {
    fn decode(d: &mut Decoder<'b>, c: &mut C) -> Result<Self, decode::Error> {
        Box::<u8>::decode(d, c).map(BoxD)
    }
}
#[cfg(feature = "alloc")]
impl Dig for BoxD {
    fn dig(&self, h: &mut H) {
        (*self.0).dig(h)
    }
}

// ---- serde side -----------------------------------------------------------------------------

#[derive(serde::Serialize, serde::Deserialize)]
struct SStruct<'a> {
    #[serde(borrow)]
    a: &'a str,
    b: u8,
}
impl Dig for SStruct<'_> {
    fn dig(&self, h: &mut H) {
        self.a.dig(h);
        self.b.dig(h)
    }
}
#[derive(serde::Serialize, serde::Deserialize)]
enum SEnum {
    Unit,
    New(u8),
    Tup(u8, bool),
    Str { a: u8 },
}
impl Dig for SEnum {
    fn dig(&self, h: &mut H) {
        match self {
            SEnum::Unit => h.tag(30),
            SEnum::New(x) => {
                h.tag(31);
                x.dig(h)
            }
            SEnum::Tup(x, y) => {
                h.tag(32);
                x.dig(h);
                y.dig(h)
            }
            SEnum::Str { a } => {
                h.tag(33);
                a.dig(h)
            }
        }
    }
}

/// Drives `deserialize_any` and digests what the visitor is given.
struct AnyProbe(u64);
impl Dig for AnyProbe {
    fn dig(&self, h: &mut H) {
        h.u64(self.0)
    }
}
impl<'de> serde::Deserialize<'de> for AnyProbe {
    fn deserialize<D: serde::Deserializer<'de>>(d: D) -> Result<Self, D::Error> {
        struct V;
        macro_rules! visit { ($($f:ident $t:ty, $tag:expr;)*) => { $( fn $f<E: serde::de::Error>(self, v: $t) -> Result<AnyProbe, E> { let mut h = H::new(); h.tag($tag); v.dig(&mut h); Ok(AnyProbe(h.0)) } )* } }
        impl<'de> serde::de::Visitor<'de> for V {
            type Value = AnyProbe;
            fn expecting(&self, f: &mut core::fmt::Formatter) -> core::fmt::Result {
                f.write_str("anything")
            }
            visit! { visit_bool bool, 40; visit_u8 u8, 41; visit_u16 u16, 41; visit_u32 u32, 41; visit_u64 u64, 41; visit_i8 i8, 41; visit_i16 i16, 41; visit_i32 i32, 41; visit_i64 i64, 41; visit_f32 f32, 42; visit_f64 f64, 43; visit_char char, 44; }
            // borrowed / transient / owned strings denote the same value
            fn visit_str<E: serde::de::Error>(self, v: &str) -> Result<AnyProbe, E> {
                let mut h = H::new();
                h.tag(45);
                v.dig(&mut h);
                Ok(AnyProbe(h.0))
            }
            fn visit_bytes<E: serde::de::Error>(self, v: &[u8]) -> Result<AnyProbe, E> {
                let mut h = H::new();
                h.tag(46);
                v.dig(&mut h);
                Ok(AnyProbe(h.0))
            }
            fn visit_none<E: serde::de::Error>(self) -> Result<AnyProbe, E> {
                Ok(AnyProbe(47))
            }
            fn visit_unit<E: serde::de::Error>(self) -> Result<AnyProbe, E> {
                Ok(AnyProbe(48))
            }
            fn visit_seq<A: serde::de::SeqAccess<'de>>(self, mut a: A) -> Result<AnyProbe, A::Error> {
                let mut h = H::new();
                h.tag(49);
                let mut n = 0;
                while let Some(x) = a.next_element::<AnyProbe>()? {
                    h.u64(x.0);
                    n += 1;
                    if n > 100000 {
                        break;
                    }
                }
                Ok(AnyProbe(h.0))
            }
            fn visit_map<A: serde::de::MapAccess<'de>>(self, mut a: A) -> Result<AnyProbe, A::Error> {
                let mut h = H::new();
                h.tag(50);
                let mut n = 0;
                while let Some((k, x)) = a.next_entry::<AnyProbe, AnyProbe>()? {
                    h.u64(k.0);
                    h.u64(x.0);
                    n += 1;
                    if n > 100000 {
                        break;
                    }
                }
                Ok(AnyProbe(h.0))
            }
        }
        d.deserialize_any(V)
    }
}

struct Ignored;
impl Dig for Ignored {
    fn dig(&self, h: &mut H) {
        h.tag(51)
    }
}
impl<'de> serde::Deserialize<'de> for Ignored {
    fn deserialize<D: serde::Deserializer<'de>>(d: D) -> Result<Self, D::Error> {
        serde::de::IgnoredAny::deserialize(d).map(|_| Ignored)
    }
}

/// Error class from the Debug rendering `.. err: <Variant>..` of a wrapped decode::Error; 100 if it cannot be read.
fn class_from_debug(d: &str) -> u8 {
    let Some(i) = d.find("err: ") else { return 100 };
    let name: String = d[i + 5..].chars().take_while(|c| c.is_ascii_alphanumeric()).collect();
    match name.as_str() {
        "EndOfInput" => 1,
        "TypeMismatch" => 2,
        "TagMismatch" => 3,
        "Message" => 4,
        "Custom" => 5,
        "UnknownVariant" => 6,
        "MissingValue" => 7,
        "InvalidChar" | "Utf8" | "Overflow" => 8,
        _ => 100,
    }
}

/// Error::position() of the wrapped decode::Error from its Debug rendering (`pos: Some(N)` -> N + 1, `pos: None` or
/// unreadable -> 0), in the same convention as the native records.
fn pos_from_debug(d: &str) -> u64 {
    let Some(i) = d.find("pos: Some(") else { return 0 };
    let digits: String = d[i + 10..].chars().take_while(|c| c.is_ascii_digit()).collect();
    digits.parse::<u64>().map(|n| n + 1).unwrap_or(0)
}

fn serde_rec<'a, T: serde::Deserialize<'a> + Dig>(b: &'a [u8]) -> Rec {
    let mut de = minicbor_serde::Deserializer::new(b);
    let r = T::deserialize(&mut de);
    let pos = de.decoder().position() as u32;
    match r {
        Ok(v) => {
            let mut h = H::new();
            v.dig(&mut h);
            Rec { class: 0, pos, digest: h.0 }
        }
        // the bridge's error type wraps minicbor's decode::Error without exposing its class predicates;
        // the class is observable through Debug (the wrapped error's variant name)
        Err(e) => {
            let dbg = format!("{:?}", e);
            Rec { class: class_from_debug(&dbg), pos, digest: pos_from_debug(&dbg) }
        }
    }
}

// ---- value-driven operations (encode / len / serialize) ---------------------------------------

struct VOp {
    name: &'static str,
    run: fn() -> Vec<Rec>,
}

fn enc_rec<T: Encode<()> + CborLen<()>>(v: &T) -> Rec {
    let mut buf = [0u8; 96];
    let l = minicbor::len(v);
    let mut s: &mut [u8] = &mut buf[..];
    match minicbor::encode(v, &mut s) {
        Ok(()) => {
            let used = 96 - s.len();
            let mut h = H::new();
            h.bytes(&buf[..used]);
            h.u64(l as u64);
            Rec { class: 0, pos: used as u32, digest: h.0 }
        }
        Err(e) => Rec { class: if e.is_write() { 1 } else if e.is_message() { 2 } else { 3 }, pos: 0, digest: l as u64 },
    }
}

fn ser_rec<T: serde::Serialize>(v: &T) -> Rec {
    let mut buf = [0u8; 96];
    let used = {
        let mut ser = minicbor_serde::Serializer::new(&mut buf[..]);
        match v.serialize(&mut ser) {
            Ok(()) => Some(96 - ser.encoder().writer().len()),
            Err(_) => None,
        }
    };
    match used {
        Some(u) => {
            let mut h = H::new();
            h.bytes(&buf[..u]);
            Rec { class: 0, pos: u as u32, digest: h.0 }
        }
        None => Rec { class: 100, pos: 0, digest: 0 },
    }
}

struct CollectStr;
impl serde::Serialize for CollectStr {
    fn serialize<S: serde::Serializer>(&self, s: S) -> Result<S::Ok, S::Error> {
        s.collect_str(&12345u32)
    }
}

/// The public error algebra: every constructor, then `at` / `with_message` on top, observed through the class
/// predicates and `position()`. These functions exist twice (with and without `alloc`).
fn decode_error_api() -> Vec<Rec> {
    let ctors: [fn() -> decode::Error; 6] = [
        || decode::Error::end_of_input(),
        || decode::Error::type_mismatch(minicbor::data::Type::Bool),
        || decode::Error::tag_mismatch(minicbor::data::Tag::new(5)),
        || decode::Error::message("m"),
        || decode::Error::unknown_variant(3),
        || decode::Error::missing_value(2),
    ];
    let mut out = Vec::new();
    for c in ctors {
        let variants: [decode::Error; 9] = [c(), c().at(7), c().with_message("ctx"), c().at(7).with_message("ctx"), c().with_message("ctx").at(9), c().at(7).at(0), c().at(u32::MAX as usize), c().at((1usize << 32) + 5), c().at(usize::MAX)];
        for e in variants {
            out.push(Rec { class: class_of(&e), pos: 0, digest: e.position().map(|p| (p as u64).wrapping_add(1)).unwrap_or(0) });
        }
    }
    out
}

fn enc_err_class<E>(e: &minicbor::encode::Error<E>) -> u8 {
    (if e.is_write() { 1 } else { 0 }) | (if e.is_message() { 2 } else { 0 })
}

/// A value whose `Encode` impl annotates whatever error its field produced.
struct Annot(u32);
impl<C> Encode<C> for Annot {
    fn encode<W: minicbor::encode::Write>(&self, e: &mut minicbor::Encoder<W>, _: &mut C) -> Result<(), minicbor::encode::Error<W::Error>> {
        e.array(1).map_err(|x| x.with_message("annot-head"))?;
        e.u32(self.0).map_err(|x| x.with_message("annot-field"))?;
        Ok(())
    }
}

fn encode_error_api() -> Vec<Rec> {
    type E = minicbor::encode::Error<u8>;
    let mut out = Vec::new();
    let ctors: [fn() -> E; 2] = [|| E::write(3u8), || E::message("m")];
    for c in ctors {
        for e in [c(), c().with_message("ctx"), c().with_message("ctx").with_message("ctx2")] {
            out.push(Rec { class: enc_err_class(&e), pos: 0, digest: 0 });
        }
    }
    // write errors of a too-small slice, plain and annotated by an `Encode` impl
    for cap in 0..6usize {
        let mut buf = [0u8; 8];
        let r = minicbor::encode(&Annot(70000), &mut buf[..cap]);
        out.push(match r {
            Ok(()) => Rec { class: 0, pos: cap as u32, digest: 1 },
            Err(e) => Rec { class: 10 + enc_err_class(&e), pos: cap as u32, digest: 0 },
        });
        let mut buf = [0u8; 8];
        let r = minicbor::encode(&[70000u32], &mut buf[..cap]);
        out.push(match r {
            Ok(()) => Rec { class: 0, pos: cap as u32, digest: 1 },
            Err(e) => Rec { class: 10 + enc_err_class(&e), pos: cap as u32, digest: 0 },
        });
    }
    out
}

fn value_ops() -> Vec<VOp> {
    vec![
        VOp { name: "decode-error-api", run: decode_error_api },
        VOp { name: "encode-error-api", run: encode_error_api },
        VOp { name: "encode+len<u64>", run: || refmodel::enumerate::lattice64().iter().map(|x| enc_rec(x)).collect() },
        VOp { name: "encode+len<i64>", run: || refmodel::enumerate::lattice_int().iter().filter(|v| **v >= i64::MIN as i128 && **v <= i64::MAX as i128).map(|x| enc_rec(&(*x as i64))).collect() },
        VOp { name: "encode+len<f32/f64/char/bool>", run: || vec![enc_rec(&1.5f32), enc_rec(&f32::NAN), enc_rec(&-0.0f64), enc_rec(&'\u{10ffff}'), enc_rec(&true), enc_rec(&()), enc_rec(&Some(7u8)), enc_rec(&None::<u8>)] },
        VOp { name: "encode+len<str/bytes>", run: || ["", "a", "xxxxxxxxxxxxxxxxxxxxxxxx"].iter().map(|s| enc_rec(s)).chain([&[][..], &[1u8, 2][..]].iter().map(|b| { let bs: &minicbor::bytes::ByteSlice = (*b).into(); enc_rec(&bs) })).collect() },
        VOp { name: "encode+len<composites>", run: || vec![enc_rec(&(1u8, -1i8)), enc_rec(&[1u8, 24, 255]), enc_rec(&(0u8..24)), enc_rec(&core::time::Duration::new(5, 999_999_999)), enc_rec(&Ok::<u8, i8>(1)), enc_rec(&core::ops::Bound::<u8>::Unbounded), enc_rec(&minicbor::data::Tagged::<24, u8>::new(1))] },
        VOp { name: "encode+len<derived>", run: || vec![enc_rec(&DStruct { a: 1, b: None }), enc_rec(&DStruct { a: 24, b: Some(255) }), enc_rec(&DMap { a: None, b: Some(1) }), enc_rec(&DMap { a: Some("k"), b: None }), enc_rec(&DEnum::A), enc_rec(&DEnum::B(7)), enc_rec(&DEnum::C { x: None }), enc_rec(&DEnum::C { x: Some(9) })] },
        VOp { name: "serialize<primitives>", run: || vec![ser_rec(&0u8), ser_rec(&u64::MAX), ser_rec(&i64::MIN), ser_rec(&1.5f32), ser_rec(&'x'), ser_rec(&true), ser_rec(&()), ser_rec(&Some(1u8)), ser_rec(&None::<u8>), ser_rec(&"str"), ser_rec(&(1u8, 300u16))] },
        VOp { name: "serialize<derived>", run: || vec![ser_rec(&SStruct { a: "k", b: 2 }), ser_rec(&SEnum::Unit), ser_rec(&SEnum::New(1)), ser_rec(&SEnum::Tup(1, true)), ser_rec(&SEnum::Str { a: 3 })] },
        VOp { name: "serialize<collect_str>", run: || vec![ser_rec(&CollectStr)] },
    ]
}

// ---- main -----------------------------------------------------------------------------------

fn config_name() -> String {
    let base = if cfg!(feature = "std") { "std" } else if cfg!(feature = "alloc") { "alloc" } else { "none" };
    format!("{}{}", base, if cfg!(feature = "half") { "+half" } else { "" })
}

fn write_rec(out: &mut Vec<u8>, r: &Rec) {
    out.push(r.class);
    out.extend_from_slice(&r.pos.to_le_bytes());
    out.extend_from_slice(&r.digest.to_le_bytes());
}

fn transcript(thorough: bool, path: &str) {
    let inputs = cfg_inputs(thorough);
    let ops = decode_ops();
    let vops = value_ops();
    let mut out: Vec<u8> = Vec::new();
    out.extend_from_slice(&((ops.len() + vops.len()) as u32).to_le_bytes());
    let quiet = std::panic::take_hook();
    std::panic::set_hook(Box::new(|_| {}));
    for op in &ops {
        out.extend_from_slice(&(op.name.len() as u16).to_le_bytes());
        out.extend_from_slice(op.name.as_bytes());
        out.extend_from_slice(&(inputs.len() as u32).to_le_bytes());
        for i in &inputs {
            let r = std::panic::catch_unwind(|| (op.run)(i)).unwrap_or(Rec { class: 200, pos: 0, digest: 0 });
            write_rec(&mut out, &r);
        }
    }
    for op in &vops {
        // a panic of the subject inside a value operation is recorded as one PANIC record
        let recs = std::panic::catch_unwind(|| (op.run)()).unwrap_or_else(|_| vec![Rec { class: 200, pos: 0, digest: 0 }]);
        out.extend_from_slice(&(op.name.len() as u16).to_le_bytes());
        out.extend_from_slice(op.name.as_bytes());
        out.extend_from_slice(&(recs.len() as u32).to_le_bytes());
        for r in &recs {
            write_rec(&mut out, r);
        }
    }
    std::panic::set_hook(quiet);
    std::fs::File::create(path).unwrap().write_all(&out).unwrap();
    println!("config={} inputs={} ops={} value_ops={} bytes={}", config_name(), inputs.len(), ops.len(), vops.len(), out.len());
}

/// C06 in this configuration: skip() over the structural tree corpus.
/// `skip()` on a fresh decoder over `b`; a panic of the subject is a result like any other (Err(None)).
fn guarded_skip(b: &[u8]) -> (Result<(), Option<decode::Error>>, usize) {
    match std::panic::catch_unwind(|| {
        let mut d = Decoder::new(b);
        let r = d.skip();
        (r, d.position())
    }) {
        Ok((r, p)) => (r.map_err(Some), p),
        Err(_) => (Err(None), 0),
    }
}

fn show_skip(r: &Result<(), Option<decode::Error>>) -> String {
    match r {
        Ok(()) => "Ok".to_string(),
        Err(Some(e)) => format!("Err({})", e),
        Err(None) => "PANICKED".to_string(),
    }
}

fn skipcheck(thorough: bool) {
    std::panic::set_hook(Box::new(|_| {}));
    let trees = skip_trees(thorough);
    let alloc = cfg!(feature = "alloc");
    let suffixes: [&[u8]; 6] = [&[], &[0x00], &[0xff], &[0xff, 0xff], &[0x9f], &[0x82]];
    let mut evals = 0u64;
    let mut ok_pos = 0u64;
    let mut refused = 0u64;
    let mut violations = 0u64;
    for t in &trees {
        let enc = t.to_bytes();
        let nested = t.has_indef_in_def();
        for suf in suffixes {
            let mut b = enc.clone();
            b.extend_from_slice(suf);
            let (r, pos) = guarded_skip(&b);
            evals += 1;
            match r {
                Ok(()) if pos == enc.len() => ok_pos += 1,
                Err(Some(ref e)) if !alloc && e.is_message() && nested => refused += 1,
                other => {
                    violations += 1;
                    if violations <= 20 {
                        println!("SKIP-VIOLATION item={} input_hex={} result={} position={} item_len={} nested_indefinite_in_definite={}", t.diag(), hex(&b), show_skip(&other), pos, enc.len(), nested);
                    }
                }
            }
        }
        for k in 0..enc.len() {
            evals += 1;
            let (r, _) = guarded_skip(&enc[..k]);
            if !matches!(r, Err(Some(_))) {
                violations += 1;
                if violations <= 20 {
                    println!("SKIP-VIOLATION item={} input_hex={} result={} on a strict prefix", t.diag(), hex(&enc[..k]), show_skip(&r));
                }
            }
        }
    }
    // deep nesting beyond the range of 8- and 16-bit counters: d openers, one leaf, the closers. Containers of one
    // kind only, and indefinite ones around definite ones - never an indefinite container inside a definite one,
    // so the build without alloc has to skip them too
    for depth in [255usize, 256, 257, 65535, 65536, 65537] {
        let shapes: [(&[&[u8]], &str); 7] = [(&[&[0x9f]], "[_"), (&[&[0xbf, 0x00]], "{_"), (&[&[0x9f], &[0xbf, 0x00]], "[_ {_"), (&[&[0x81]], "["), (&[&[0xa1, 0x00]], "{"), (&[&[0xc1]], "tag"), (&[&[0x81], &[0xc1], &[0xa1, 0x00]], "[ tag {")];
        for (openers, name) in shapes {
            let mut b: Vec<u8> = Vec::new();
            let mut closers = 0usize;
            for i in 0..depth {
                let o = openers[i % openers.len()];
                b.extend_from_slice(o);
                if o[0] == 0x9f || o[0] == 0xbf {
                    closers += 1;
                }
            }
            b.push(0x00);
            b.extend(std::iter::repeat(0xff).take(closers));
            let item_len = b.len();
            for suf in [&[][..], &[0xff][..]] {
                let mut x = b.clone();
                x.extend_from_slice(suf);
                let (r, pos) = guarded_skip(&x);
                evals += 1;
                if matches!(r, Ok(())) && pos == item_len {
                    ok_pos += 1;
                } else {
                    violations += 1;
                    if violations <= 20 {
                        println!("SKIP-VIOLATION item={}x{} input_len={} result={} position={} item_len={}", name, depth, x.len(), show_skip(&r), pos, item_len);
                    }
                }
            }
            if closers > 0 {
                // one break short: the input ends inside the item
                evals += 1;
                let (r, _) = guarded_skip(&b[..item_len - 1]);
                if !matches!(r, Err(Some(_))) {
                    violations += 1;
                    if violations <= 20 {
                        println!("SKIP-VIOLATION item={}x{} result={} on the item without its last break", name, depth, show_skip(&r));
                    }
                }
            }
        }
    }
    // hostile heads, judged by the reference parser
    for h in refmodel::enumerate::hostile_heads() {
        let (r, pos) = guarded_skip(&h);
        evals += 1;
        if matches!(r, Err(None)) {
            violations += 1;
            if violations <= 20 {
                println!("SKIP-VIOLATION input_hex={} result=PANICKED", hex(&h));
            }
            continue;
        }
        match parse(&h) {
            Ok((item, _)) if !item.utf8_ok() => {}
            Ok((item, used)) => match r {
                Ok(()) if pos == used => ok_pos += 1,
                Err(Some(ref e)) if !alloc && e.is_message() && item.has_indef_in_def() => refused += 1,
                other => {
                    violations += 1;
                    if violations <= 20 {
                        println!("SKIP-VIOLATION item={} input_hex={} result={} position={} item_len={}", item.diag(), hex(&h), show_skip(&other), pos, used);
                    }
                }
            },
            Err(ParseErr::EndOfInput) => {
                if r.is_ok() {
                    violations += 1;
                    if violations <= 20 {
                        println!("SKIP-VIOLATION input_hex={} result=Ok (position {}) although the input ends inside the item", hex(&h), pos);
                    }
                }
            }
            Err(ParseErr::IllFormed) => {}
        }
    }
    println!("SKIP-SUMMARY config={} trees={} evaluations={} exact_position={} refused_as_documented={} violations={}", config_name(), trees.len(), evals, ok_pos, refused, violations);
}

fn main() {
    let args: Vec<String> = std::env::args().collect();
    let thorough = args.get(2).map(|s| s == "thorough").unwrap_or(false);
    match args.get(1).map(|s| s.as_str()) {
        Some("transcript") => {
            // the script holds recursive drivers (a serde visitor that descends into whatever arrives, derived
            // recursive types); the corpus has inputs nested 65536 deep: give them room
            let path = args[3].clone();
            std::thread::Builder::new().stack_size(2 << 30).spawn(move || transcript(thorough, &path)).unwrap().join().unwrap()
        }
        Some("skipcheck") => skipcheck(thorough),
        Some("config") => println!("{}", config_name()),
        _ => {
            eprintln!("usage: probe transcript|skipcheck quick|thorough [outfile]");
            std::process::exit(2)
        }
    }
}
