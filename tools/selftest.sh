#!/bin/bash
# Regression matrix: applies every seeded change to the repository copy the harness is linked
# against, runs the checks named in its meta.json (quick tier) and expects each to exit 1 with a
# VIOLATION line (a change whose meta.json says "tier": "thorough" is run in that tier; changes recorded as
# not judged / not caught have an empty caught_by list); afterwards confirms that the unchanged tree passes them again.
# Meant for a scratch copy: VERIF=<copy of /verif> whose `subject` link points at a scratch worktree.
set -u
VERIF="${VERIF:-/verif}"
REPO="$(readlink -f "$VERIF/subject")"
cd "$REPO" || exit 2
if ! git diff --quiet; then echo "refusing: $REPO has uncommitted changes" >&2; exit 2; fi
pass=0; fail=0
for d in "$VERIF"/seeded/*/; do
  id=$(basename "$d")
  [ -f "$d/meta.json" ] || continue
  checks=$(python3 -c "import json,sys; print(' '.join(json.load(open('$d/meta.json'))['caught_by']))")
  if ! git apply "$d/patch.diff" 2>/dev/null; then echo "$id: patch does not apply"; fail=$((fail+1)); continue; fi
  tier=$(python3 -c "import json; print(json.load(open('$d/meta.json')).get('tier','quick'))")
  for c in $checks; do
    out=$(cd "$VERIF" && ./check "$c" --tier "$tier" 2>&1); code=$?
    if [ "$code" = 1 ] && echo "$out" | grep -q "^VIOLATION property=$c"; then
      echo "$id: $c reports the violation"; pass=$((pass+1))
    else
      echo "$id: $c MISSED (exit $code)"; fail=$((fail+1))
    fi
  done
  git checkout -q -- .
done
echo "selftest: $pass detections, $fail misses"
[ "$fail" = 0 ]
