#!/bin/bash
# tools/try_patch.sh <patch-file> <ID> [<ID>...]: apply a patch to /repo, run the named quick checks, restore /repo.
set -u
P="$1"; shift
cd /repo || exit 2
if ! git diff --quiet; then echo "refusing: /repo has uncommitted changes" >&2; exit 2; fi
git apply --check "$P" 2>/dev/null || { echo "patch does not apply: $P" >&2; exit 2; }
git apply "$P"
trap 'git -C /repo checkout -- . >/dev/null 2>&1' EXIT
for id in "$@"; do
  start=$(date +%s)
  out=$(cd /verif && ./check "$id" --tier "${TIER:-quick}" 2>&1); code=$?
  end=$(date +%s)
  echo "check $id: exit=$code violations=$(echo "$out" | grep -c '^VIOLATION') time=$((end-start))s"
  if [ "$code" = 1 ]; then echo "$out" | grep -m2 "violation\[" | cut -c1-500; fi
  if [ "$code" != 0 ] && [ "$code" != 1 ]; then echo "$out" | tail -5; fi
done
