#!/usr/bin/env python3
"""Regenerates /verif/MANIFEST.json from the table below (kept in one place so that the
manifest stays valid while checks are added)."""
import json, os, sys

HERE = os.path.dirname(os.path.dirname(os.path.abspath(__file__)))

# id -> (built?, technique, level text, level note, design ref)
CHECKS = {
 "C20": (True, "differential exhaustive exploration across six separately built feature configurations; transcripts compared record by record",
         "The probe is built six times ({none, alloc, std} x {half, no half} for minicbor and minicbor-serde) and runs the same corpus (all byte strings up to the bound, hostile heads, all small trees and their deviations) through ~85 decoding, encoding, length and serde operations; every (operation, input) record (value digest, error class, position) must equal the std+half record except for exactly the documented differences, which are evaluated on the parsed item (indefinite-in-definite nesting without alloc, indefinite strings / collect_str in the bridge without alloc, half items without half). The script includes the public error algebra (every constructor x at / with_message) and an Encode impl that annotates errors, over too-small slices. Scale points: corpus inputs nested 256 and 65536 deep and containers / strings of 256 and 65536 elements; error positions beyond 2^32.",
         "trusted: refmodel parser for the rewrite predicates; only x86_64 is installed (32-bit branches not built)", "5/C20"),
 "C17": (True, "exhaustive enumeration of a serde type family (13 wrapper shapes x ~50 leaf types incl. second-level wrappers and zero-copy leaves, compiled) x small value domains against an independent reference Serializer",
         "Every Wrapper<Leaf> instantiation spanning every Serializer/Deserializer method and all four serde enum representations plus flatten is serialised with the bridge: the bytes must be one well-formed item equal to the preferred serialisation produced by an independent reference Serializer of the documented representation; deserialising (as produced, with a trailing byte, with each head widened, with indefinite top-level containers and unknown extra struct fields) must return an equal value, consume exactly the item and re-serialise identically. Every value also goes through a stream [5, v, 6, v] in which the Serializer / Deserializer is built from a native Encoder / Decoder in mid-stream and turned back into one. Scale points: 128 .. 256 tuples / fixed arrays in one document, values nested 129 and 257 deep (hundreds of nodes: every k-th single deviation, at most ~200).",
         "trusted: serde_family::refser (reference Serializer), serde itself; char / unit under internally tagged, untagged and flatten recorded as known findings", "5/C17"),
 "C18": (True, "exhaustive enumeration of shared-data-model types x values x re-framings, differential between the native codec and the serde bridge",
         "For 31 types of the shared data model and every small-domain value: native Encode and the bridge produce identical bytes; every re-framing with up to two wider heads must decode to the same value on both sides; for every indefinite-container / chunked-string re-framing each side returns that value or an error, never another value. The two sides also take turns on one stream (native then bridge, bridge then native, Deserializer::from(decoder) / into_decoder() in mid-stream) and must consume the same number of bytes for every re-framing. Scale points: 128 .. 256 tuples / fixed arrays in one document, sequences nested 129 and 257 deep.",
         "trusted: equality of Rust values (PartialEq); NaN excluded from the float domains", "5/C18"),
 "C08": (True, "exhaustive enumeration of a compiled schema grammar (programs) x values against an interpreter of the documented wire format",
         "About 1000 (quick) type definitions covering index sets with gaps and permutations, array/map at type, enum and variant level, tags at every level, every field type (borrowed, bytes, nested, generic, custom nil-aware codecs, indefinite-array types), transparent, skip, index_only and 23/24/25 fields are compiled with the real derive macros; for every presence combination and boundary value the bytes must equal the preferred serialisation of the documented format computed by a schema interpreter that never sees names, declaration order or n/b. Scale points: 12-field tuple structs / variants (with a skipped field), 257-field map and array definitions, indices to u32::MAX (map encoding), tags to u64::MAX.",
         "trusted: refmodel::schema::schema_encode (written from minicbor-derive's 'CBOR encoding' documentation); the generator and the interpreter share one schema value", "5/C08"),
 "C09": (True, "exhaustive enumeration of compiled schemas x values x re-framings (<= 2 deviations) and single-point damage, against a reference decoder of the documented rules",
         "Every value of every compiled schema is decoded back as produced, with a trailing byte and in every re-framing with up to two deviations (indefinite containers, wider heads): equal value, exact consumption, borrowed fields inside the input. Every single-point damage (tag bumped/removed, array shortened, map entry removed/re-keyed, enum index replaced) is judged by the reference decoder: rejected inputs must be rejected, still-decodable ones must give the reference value. Scale points: as C08; index gaps of 255 positions in array encoding.",
         "trusted: refmodel::schema::schema_decode; inputs the documentation makes no promise for (indefinite enum pair, chunked strings, duplicate keys) are not judged", "5/C09"),
 "C10": (True, "exhaustive enumeration of (old, new) schema pairs produced by documented-compatible edits x writer values x both directions, against the reference decoder of the reader",
         "For every pair of compiled schemas related by one or two documented-compatible edits (10-type menu of optional fields at gap / new-highest indices, dropped fields, variants added behind optional fields for regular and index_only enums, unit -> tuple/struct variants), both encodings and both directions, every writer value is decoded by the reader: shared fields equal, unknown optional fields None, unknown fields ignored whatever their content (10-item menu incl. nested indefinite containers), unknown variants None without disturbing siblings; incompatible pairs must fail.",
         "trusted: refmodel::schema::schema_decode as the projection oracle", "5/C10"),
 "C07": (True, "exhaustive value/schema enumeration comparing CborLen with the real encoder (and exact-fit / one-short buffers)",
         "Every small-domain value of every built-in CborLen instantiation, the integer width tables (exhaustive to 16 bits, 2^32 in the thorough tier), every Token variant with boundary payloads and every value of every generated derive schema: len(v) must equal the number of bytes written, a buffer of exactly that size must suffice and one byte less must fail with a write error. Scale points: field and variant indices over the whole u32 range, tags to u64::MAX, 12- and 257-field definitions, ByteArray<65536>.",
         "trusted: the real encoder is the oracle for the length (C03/C08 check the encoder itself)", "5/C07"),
 "C11": (True, "exhaustive enumeration of well-formed item sequences and of token sequences over a boundary alphabet; tokenise / re-encode compared with a reference head list",
         "All item trees up to the node bound (all head widths for small ones), all ordered pairs of small items, all 65536 half items except signalling NaNs and all simple values are tokenised and re-encoded: tokens must equal the reference pre-order head list and the bytes must be reproduced (shortest heads for non-preferred input); every token sequence up to length 3/4 over an 85-token alphabet must survive encode + tokenise value-equal; tokenizers started mid-stream through every constructor yield exactly the tokens of the rest; on all byte strings up to the bound tokenisation ends after at most one item per byte.",
         "trusted: refmodel parser/encoder and the reference head list in harness/checks/src/c11.rs", "5/C11"),
 "C13": (True, "exhaustive (value, capacity, sink) enumeration + closed state-space search over write_all sequences on small cursors, against a Vec-with-capacity model",
         "Every small-domain value with an encoding <= 40 bytes is encoded into every sink kind at every capacity 0..=len+1: success iff it fits, identical bytes in all sinks, write error otherwise with an untouched tail, intact guard regions and a prefix of the encoding left behind; all sequences of <= 3/4 raw write_all calls of every length on cursors of capacity 0..=4 are compared step by step with the model (position, all-or-nothing). Scale points: values of 65537 .. 300017 elements into every sink at capacities around the encoding length, io sinks accepting 1 .. 131072 bytes per call.",
         "trusted: Vec-with-capacity model; guard regions only observe writes through safe code paths", "5/C13"),
 "C19": (True, "exhaustive input/tree enumeration against a length-limited fmt sink and a reference renderer of the documented notation",
         "display() is run on all byte strings up to the bound, the hostile heads and all one-point deviations of small trees into a sink that refuses more than 16*len+512 bytes and under the input-access counter; for all well-formed trees up to the node bound in every head-width assignment, for boundary leaf values of every kind (all 65536 half items, integer lattice at all widths, strings with special characters) and for tokenizers started mid-stream the output must equal the reference rendering of the documented diagnostic notation. Every byte string of the totality sub-space is also judged by a reference display over arbitrary bytes (the notation before the first decoding problem, then the inline report), and 5 caller format specs must not change the notation. Scale points: byte strings of up to 65537 bytes, chains of 127 .. 300 nested tags / arrays / maps and chunk sequences.",
         "trusted: refmodel::render (floats through Rust's {:e}), size constant 16*len+512", "5/C19"),
 "C02": (True, "exhaustive input enumeration (all byte strings <= 2/3/4 bytes, hostile heads, all one-point deviations of valid encodings) x state closure over Decoder positions, with unwind / allocation / work / drop monitors",
         "Every decoding entry point (~210: typed decode of every table type, accessors, iterators driven to completion and abandoned, skip, tokens, probe, Size, display, drop-tracking element types) is run from every position of {0..=len+1, usize::MAX} on every byte string up to the bound, on ~6000 hostile heads and on every single-byte substitution / truncation / argument replacement of valid encodings. A call must return, stay in bounds, allocate at most a type constant plus a constant per input byte, perform at most 8*len+64 input accesses (hook H2) and drop decoded values exactly once; all ordered pairs of 26 calls on one decoder must behave like the second call on a fresh decoder at the position the first one left (no hidden state); fatal signals raised by the subject are verdicts. Scale points: all pairs of 15 x 12 extreme values in two-field arrays (both signs, definite and indefinite) and containers / chunk sequences / tag chains of 255 .. 65537 elements through every entry point.",
         "trusted: counting allocator, H2 counter, watchdog; inputs longer than the bound are reached only as deviations of valid encodings (<= 40 bytes)", "5/C02"),
 "C04": (True, "exhaustive tree enumeration x all head-width assignments x ~150 decoding operations, judged by a three-valued reference relation",
         "All well-formed item trees up to the node bound in every admissible head-width assignment (plus single deviations for the next size) are decoded through every typed accessor, iterator and ~125 target types; an independent relation (must-ok / must-err / may) derived from the RFC data model decides each result, including exact end position and borrowed-slice provenance; type-directed re-framings (<= 2 deviations) of every small-domain value and every strict prefix are included. Every operation also runs on a decoder moved behind a leading item and on probe() of that decoder (same result, position shifted by the lead, parent left in place). Scale points: arrays, maps, strings and chunk sequences of 255 .. 65537 elements through every operation; [u8;65536] and ByteArray<65536> in the type table.",
         "trusted: refmodel::shape::decode_ref (three-valued so that API-documented restrictions are never demanded), refmodel parser/encoder", "5/C04"),
 "C06": (True, "exhaustive tree enumeration x suffixes x prefixes + periodic deep-nesting families, against reference item boundaries and a decoder built from the public accessors",
         "All item trees up to 6 nodes over a structural alphabet (definite/indefinite arrays and maps, chunked strings, tags) x 6 suffixes, all width assignments for <= 3 nodes, every strict prefix, every head form of every leaf kind (all argument widths, one- and two-byte simple values, the extremes of the integer range) in trees <= 4 nodes, and all 155 nesting patterns of period <= 3 at depth 10^4: skip() must end exactly at the item boundary, agree with full decoding, and fail on every strict prefix. skip() also runs from the middle of the input and through probe(); a panic of the subject inside the no-alloc probe builds is a verdict. Scale points: nesting 255 .. 65537 deep (155 patterns at 256 / 10000 / 65537, 30 at the exact 8- and 16-bit boundaries), in the alloc build and inside the no-alloc probes.",
         "trusted: refmodel encoder (item length by construction); no-alloc build covered by the C20 probe builds", "5/C06"),
 "C01": (True, "exhaustive value-space enumeration (all values of small types, boundary lattice, product domains) through the real encoder and decoder",
         "Every value of the small exhaustive domain of each of ~140 concrete instantiations of the built-in Encode/Decode impls (incl. the minicbor::bytes codec family and every Token variant) is encoded through every public entry point (to_vec, to_vec_with, encode, encode_with, Encoder::encode[_with]) and decoded back through every public entry point (alone and followed by 00/ff), compared through an independent mapping to the data model; scalars are swept exhaustively (16-bit types and char always, all 2^32 u32/i32/f32 in the thorough tier).",
         "trusted: ToModel mapping in harness/checks/src/types.rs, refmodel::shape::canon; 64-bit scalars are covered on the 2^k +- 3 lattice, not exhaustively", "5/C01"),
 "C03": (True, "exhaustive argument enumeration of Encoder methods + explicit-state DFS over balanced Encoder call sequences against an independent RFC 8949 parser/encoder",
         "All arguments of every Encoder method (exhaustive up to 16 bits, 2^32 in the thorough tier, lattice for 64 bits), all small-domain values of the built-in Encode impls and every balanced call sequence up to depth 5/6 are executed on the real encoder; output must parse as exactly the expected items with the independent parser and be byte-identical to the reference preferred serialisation. Scale points: strings of 2^32 - 1, 2^32 and 2^32 + 5 bytes (lazily zeroed) through Encoder::bytes / str and the Encode impls into a counting sink.",
         "trusted: refmodel parser/encoder (RFC 8949 App. C transcription, self-checked by parse(encode(i)) == i); Encoder::simple(20..=31) recorded as known findings", "5/C03"),
 "C05": (True, "exhaustive product enumeration of (sign, head width, argument) x 24 integer targets with i128 oracle",
         "Every integer item (both signs, every head width able to hold the argument; all arguments < 2^16 and the 64-bit lattice, all 2^32 at widths 4/8 in the thorough tier) is decoded through every integer accessor/type, Int, char and the NonZero types; result must be Ok(n) iff n is representable; datatype() must name an accepting accessor; Int conversions checked on the lattice.",
         "trusted: i128 arithmetic; 64-bit arguments on the lattice only", "5/C05"),
 "C12": (True, "exhaustive enumeration of float bit patterns against bit-level IEEE 754 reference conversions",
         "All 65536 half patterns, a 2^24-ish lattice (thorough: all 2^32) of single patterns and a sign/exponent x boundary-mantissa lattice of double patterns are decoded through f16/f32/f64 and re-encoded; explicit half encoding is compared with a reference round-to-nearest-even conversion. Every single pattern of the tier also goes through the Encode impl, Token::F32 / Token::F16 and the serde bridge.",
         "trusted: refmodel::float (independent of the half crate, cross-checked against std widening); f64 space is a lattice", "5/C12"),
 "C14": (True, "deviation-bounded stateless exploration of a scripted std::io::Read / Write (all read compositions x Interrupted placements x truncation points)",
         "Every schedule in which a scripted blocking source fragments the stream (all compositions of every read), injects up to N Interrupted errors and ends the stream at every byte offset is executed against the real Reader and compared with a list-of-values model; the Writer is explored the same way over all short-write splits. Both are built with every constructor (new, with_buffer over three kinds of recycled buffer), set_max_len is re-applied between calls, and frames whose payload length crosses a byte of the prefix (255..65537 bytes) or sits at the default maximum (512 KiB, 512 KiB + 1) are included under a deviation-bounded transfer-size menu. Exhaustive within the stated stream-length and deviation bounds. The limit is also lowered / raised after a frame on a used reader / writer, and a recycled buffer with more capacity than the default maximum must not raise the limit. Scale points: frames of 512 KiB and 512 KiB + 1 under a limit of 600000, limits 2^31 - 1 .. u32::MAX; thorough tier: declared length 2^31 under u32::MAX (2 GiB buffer).",
         "trusted: the list-of-values model in harness/checks/src/io_common.rs, the explorer (mcx::explore), rustc; streams longer than the bound and more Interrupted errors than the budget are not explored", "5/C14"),
 "C15": (True, "deviation-bounded stateless exploration of poll/drop schedules over a scripted AsyncRead, hand-driven futures",
         "All interleavings of source outcomes {deliver k, Pending, transient error, end of stream} with caller decisions {poll again, drop the future and re-issue read} are enumerated up to a deviation budget and executed on the real AsyncReader; the value sequence must equal the written list, each injected error surfaces exactly once, a torn frame never yields a value. Every constructor kind, set_max_len at quiescent points with a frame in flight, and frames of 255..65537 bytes and at the default maximum are included. The limit is also changed after a frame on a used reader, a recycled 640 KiB buffer must not raise the default limit, and the injected transient error is a layered io::Error that must be reported as such. Scale points: frames of 512 KiB and 512 KiB + 1 under a limit of 600000, limits 2^31 - 1 .. u32::MAX; thorough tier: declared length 2^31 under u32::MAX (2 GiB buffer, deviation budget 1).",
         "trusted: list-of-values model, explorer, no-op waker driver; bounds on stream length, consecutive Pending, errors and drops are reported in the evidence", "5/C15"),
 "C16": (True, "deviation-bounded stateless exploration of write/sync schedules over a scripted AsyncWrite",
         "All interleavings of sink outcomes {accept k of n, Pending, transient error, accept 0} with caller decisions {poll again, drop write/sync future then sync} are enumerated up to a deviation budget on the real AsyncWriter; sink bytes must equal the concatenation of complete frames at every idle point and be a prefix-extension while a frame is in flight. Every constructor kind, set_max_len while a frame is in flight, and values of 255..65537 bytes and at the default maximum are included. The limit is also changed after a value on a used writer, flush() is called while a frame is in flight, and the injected transient error is a layered io::Error that must be reported as such. Scale points: values of 512 KiB and 512 KiB + 1 under a limit of 600000, limits 2^31 - 1 .. u32::MAX.",
         "trusted: concatenation-of-frames model, explorer; write is never re-issued after a cancellation without a completed sync (documented precondition)", "5/C16"),
}

ALL = ["C%02d" % i for i in range(1, 21)]

def main():
    checks = []
    na = []
    for pid in ALL:
        c = CHECKS.get(pid)
        if c and c[0]:
            checks.append({
                "property_id": pid,
                "quick_cmd": "./check %s --tier quick" % pid,
                "thorough_cmd": "./check %s --tier thorough" % pid,
                "evidence_file": "/verif/evidence/%s.json" % pid,
                "replay_cmd_template": "./check %s --replay {path}" % pid,
                "engine": "mcx",
                "level_claimed": {"category": "model_checking", "text": c[2], "design_ref": "DESIGN.md section " + c[4]},
                "level_note": c[3],
                "technique": c[1],
            })
        else:
            na.append({"property_id": pid, "reason": "check not built yet in this round (model-checking design in DESIGN.md section 5); will be claimed once its enumerator exists"})
    m = {
        "version": 1,
        "setup_cmd": "cd /verif && ./setup",
        "hooks": {
            "guard": "cfg(minicbor_verif)",
            "enable": "RUSTFLAGS='--cfg minicbor_verif' (set by ./check for every harness build)",
            "baseline_off_cmd": "cd /repo && cargo test --workspace --no-fail-fast --offline",
            "source_commits": ["db7c2f7", "6c8963c"],
            "add_only": True,
        },
        "engines": [
            {"name": "mcx", "path": "/verif/harness/mcx", "serves_properties": [c["property_id"] for c in checks],
             "kind_free_text": "own stateless explorer: replay-prefix + default-choice DFS with deviation bounding, sharded over 16 workers; exhaustive enumerators over inputs / trees / schedules with a reference model (harness/refmodel) as oracle"},
        ],
        "checks": checks,
        "not_applicable": na,
        "notes": "All checks run the real minicbor code from /repo's working tree (path dependency through /verif/subject -> /repo), rebuilt by ./check before every run.",
    }
    with open(os.path.join(HERE, "MANIFEST.json"), "w") as f:
        json.dump(m, f, indent=1)
        f.write("\n")

if __name__ == "__main__":
    main()
