#!/usr/bin/env python3
"""Regenerates /verif/MANIFEST.json from the table below (kept in one place so that the
manifest stays valid while checks are added)."""
import json, os, sys

HERE = os.path.dirname(os.path.dirname(os.path.abspath(__file__)))

# id -> (built?, technique, level text, level note, design ref)
CHECKS = {
 "C01": (True, "exhaustive value-space enumeration (all values of small types, boundary lattice, product domains) through the real encoder and decoder",
         "Every value of the small exhaustive domain of each of ~120 concrete instantiations of the built-in Encode/Decode impls is encoded and decoded back (alone and followed by 00/ff) and compared through an independent mapping to the data model; scalars are swept exhaustively (16-bit types and char always, all 2^32 u32/i32/f32 in the thorough tier).",
         "trusted: ToModel mapping in harness/checks/src/types.rs, refmodel::shape::canon; 64-bit scalars are covered on the 2^k +- 3 lattice, not exhaustively", "5/C01"),
 "C03": (True, "exhaustive argument enumeration of Encoder methods + explicit-state DFS over balanced Encoder call sequences against an independent RFC 8949 parser/encoder",
         "All arguments of every Encoder method (exhaustive up to 16 bits, 2^32 in the thorough tier, lattice for 64 bits), all small-domain values of the built-in Encode impls and every balanced call sequence up to depth 5/6 are executed on the real encoder; output must parse as exactly the expected items with the independent parser and be byte-identical to the reference preferred serialisation.",
         "trusted: refmodel parser/encoder (RFC 8949 App. C transcription, self-checked by parse(encode(i)) == i); Encoder::simple(20..=31) recorded as known findings", "5/C03"),
 "C05": (True, "exhaustive product enumeration of (sign, head width, argument) x 24 integer targets with i128 oracle",
         "Every integer item (both signs, every head width able to hold the argument; all arguments < 2^16 and the 64-bit lattice, all 2^32 at widths 4/8 in the thorough tier) is decoded through every integer accessor/type, Int, char and the NonZero types; result must be Ok(n) iff n is representable; datatype() must name an accepting accessor; Int conversions checked on the lattice.",
         "trusted: i128 arithmetic; 64-bit arguments on the lattice only", "5/C05"),
 "C12": (True, "exhaustive enumeration of float bit patterns against bit-level IEEE 754 reference conversions",
         "All 65536 half patterns, a 2^24-ish lattice (thorough: all 2^32) of single patterns and a sign/exponent x boundary-mantissa lattice of double patterns are decoded through f16/f32/f64 and re-encoded; explicit half encoding is compared with a reference round-to-nearest-even conversion.",
         "trusted: refmodel::float (independent of the half crate, cross-checked against std widening); f64 space is a lattice", "5/C12"),
 "C14": (True, "deviation-bounded stateless exploration of a scripted std::io::Read / Write (all read compositions x Interrupted placements x truncation points)",
         "Every schedule in which a scripted blocking source fragments the stream (all compositions of every read), injects up to N Interrupted errors and ends the stream at every byte offset is executed against the real Reader and compared with a list-of-values model; the Writer is explored the same way over all short-write splits. Exhaustive within the stated stream-length and deviation bounds.",
         "trusted: the list-of-values model in harness/checks/src/io_common.rs, the explorer (mcx::explore), rustc; streams longer than the bound and more Interrupted errors than the budget are not explored", "5/C14"),
 "C15": (True, "deviation-bounded stateless exploration of poll/drop schedules over a scripted AsyncRead, hand-driven futures",
         "All interleavings of source outcomes {deliver k, Pending, transient error, end of stream} with caller decisions {poll again, drop the future and re-issue read} are enumerated up to a deviation budget and executed on the real AsyncReader; the value sequence must equal the written list, each injected error surfaces exactly once, a torn frame never yields a value.",
         "trusted: list-of-values model, explorer, no-op waker driver; bounds on stream length, consecutive Pending, errors and drops are reported in the evidence", "5/C15"),
 "C16": (True, "deviation-bounded stateless exploration of write/sync schedules over a scripted AsyncWrite",
         "All interleavings of sink outcomes {accept k of n, Pending, transient error, accept 0} with caller decisions {poll again, drop write/sync future then sync} are enumerated up to a deviation budget on the real AsyncWriter; sink bytes must equal the concatenation of complete frames at every idle point and be a prefix-extension while a frame is in flight.",
         "trusted: concatenation-of-frames model, explorer; write is never re-issued after a cancellation without a completed sync (documented precondition)", "5/C16"),
}

ALL = ["C%02d" % i for i in range(1, 21)]

def main():
    checks = []
    na = []
    for pid in ALL:
        c = CHECKS.get(pid)
        if c and c[0]:
            checks.append({
                "property_id": pid,
                "quick_cmd": "./check %s --tier quick" % pid,
                "thorough_cmd": "./check %s --tier thorough" % pid,
                "evidence_file": "/verif/evidence/%s.json" % pid,
                "replay_cmd_template": "./check %s --replay {path}" % pid,
                "engine": "mcx",
                "level_claimed": {"category": "model_checking", "text": c[2], "design_ref": "DESIGN.md section " + c[4]},
                "level_note": c[3],
                "technique": c[1],
            })
        else:
            na.append({"property_id": pid, "reason": "check not built yet in this round (model-checking design in DESIGN.md section 5); will be claimed once its enumerator exists"})
    m = {
        "version": 1,
        "setup_cmd": "cd /verif/harness && CARGO_NET_OFFLINE=true RUSTFLAGS='--cfg minicbor_verif' CARGO_TARGET_DIR=/verif/target/harness cargo build --release --offline -p checks",
        "hooks": {
            "guard": "cfg(minicbor_verif)",
            "enable": "RUSTFLAGS='--cfg minicbor_verif' (set by ./check for every harness build)",
            "baseline_off_cmd": "cd /repo && cargo test --workspace --no-fail-fast --offline",
            "source_commits": ["db7c2f7", "6c8963c"],
            "add_only": True,
        },
        "engines": [
            {"name": "mcx", "path": "/verif/harness/mcx", "serves_properties": [c["property_id"] for c in checks],
             "kind_free_text": "own stateless explorer: replay-prefix + default-choice DFS with deviation bounding, sharded over 16 workers; exhaustive enumerators over inputs / trees / schedules with a reference model (harness/refmodel) as oracle"},
        ],
        "checks": checks,
        "not_applicable": na,
        "notes": "All checks run the real minicbor code from /repo's working tree (path dependency through /verif/subject -> /repo), rebuilt by ./check before every run.",
    }
    with open(os.path.join(HERE, "MANIFEST.json"), "w") as f:
        json.dump(m, f, indent=1)
        f.write("\n")

if __name__ == "__main__":
    main()
