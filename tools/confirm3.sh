#!/bin/bash
# tools/confirm3.sh <patch> <demo.rs> <crate-dir (e.g. minicbor-tests)> <features or ->: confirms one seeded change in a scratch
# worktree: the demo passes at HEAD and fails with the patch; the repository's own suite passes with the patch.
set -u
P="$1"; DEMO="$2"; CR="$3"; FEAT="$4"
WT=/tmp/wt_confirm3
if [ ! -d "$WT" ]; then git -C /repo worktree add -q --detach "$WT" HEAD || exit 2; fi
cd "$WT" && git checkout -q -- . && git clean -fdq -e target
FA=""; [ "$FEAT" != "-" ] && FA="--features $FEAT"
PKG=$(grep -m1 '^name' "$CR/Cargo.toml" | sed 's/.*"\(.*\)".*/\1/')
mkdir -p "$WT/$CR/tests"; cp "$DEMO" "$WT/$CR/tests/seed_demo.rs"
cargo test --offline -p "$PKG" $FA --test seed_demo >/tmp/c3_head.log 2>&1; h=$?
git apply "$P" || { echo "patch does not apply"; exit 2; }
cargo test --offline -p "$PKG" $FA --test seed_demo >/tmp/c3_patched.log 2>&1; p=$?
rm -f "$WT/$CR/tests/seed_demo.rs"
cargo test --workspace --no-fail-fast --offline >/tmp/c3_suite.log 2>&1; s=$?
nfail=$(grep -E "^test result" /tmp/c3_suite.log | awk '{f+=$6} END {print f+0}')
npass=$(grep -E "^test result" /tmp/c3_suite.log | awk '{f+=$4} END {print f+0}')
git checkout -q -- . && git clean -fdq -e target
echo "$(basename $(dirname $(dirname $P)))/$(basename $P): demo@HEAD rc=$h (want 0) demo@patched rc=$p (want !=0) suite@patched rc=$s passed=$npass failed=$nfail (want rc 0)"
