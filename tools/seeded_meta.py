#!/usr/bin/env python3
"""Writes seeded/<id>/meta.json from the table below (results of tools/run_seeded.sh, confirmed by hand)."""
import json, os
T = {
 "C01-1": ("C01", "Decoder::i64 0x1a arm reads i32::from_be_bytes (sign-extends a 4-byte head)", "a value in 2^31..=2^32-1 decoded through i64 / isize / NonZeroI64 / AtomicI64 ...", ["C01"], "typed-values + scalar lattice: i64 4294967295 decoded as -1"),
 "C01-2": ("C01", "Bound::Unbounded decode no longer skips its payload", "Bound::Unbounded followed by anything; position check", ["C01"], "typed-values: decoder consumed 2 bytes, the encoder produced 3"),
 "C02-1": ("C02", "Duration decode fast path uses nanos <= 1e9 before the checked carry", "exactly secs = u64::MAX and nanos = 1_000_000_000", ["C02"], "c-mutated-valid-encodings: panicked: overflow in Duration::new on 82 1b ff*8 1a 3b9aca00"),
 "C02-2": ("C02", "MapIterWithCtx gets size_hint from the declared length and HashMap decode try_reserves it (two cooperating sites)", "a definite map header declaring far more entries than the input holds, decoded as HashMap", ["C02"], "allocation cap: request of 283 GB for bb 00 00 00 01 00 00 00 00 ff ff (emergency VIOLATION path), also the per-call bound"),
 "C04-1": ("C04", "ByteArray<N> decode accepts byte strings longer than N (copy of the first N bytes)", "a definite byte string longer than N decoded as ByteArray<N> / Ipv4Addr / ...", ["C04"], "A-trees-all-ops (ByteArray<0> on h'01') and C-near-miss-shapes (one byte longer)"),
 "C04-2": ("C04", "ArrayIterWithCtx turns end of input into end of iteration for indefinite arrays (.ok()?)", "indefinite array truncated exactly on an element boundary, decoded through Vec / [T;N] / array_iter_with", ["C04"], "strict-prefixes: 9f decoded as Ok([])"),
 "C06-1": ("C06", "skip(): only one of several open indefinite containers is pushed when switching to the stack", ">= 2 open indefinite containers around a definite array of >= 3 elements holding another indefinite container in a non-tail position", ["C06"], "trees: 9f 9f 83 9f ff 80 9f ff ff ff skipped to position 9 of 10"),
 "C06-2": ("C06", "BytesIter::next turns end of input into end of iteration (.ok()?)", "indefinite byte string cut after 5f or after a complete chunk, as last leaf inside definite containers", ["C06"], "trees: skip() on a strict prefix returned Ok"),
 "C09-1": ("C09", "derived decoder, map encoding, indefinite branch: break checked after the first key", "a #[cbor(map)] struct/variant whose encoding is the empty map re-framed as bf ff", ["C09"], "round-trip: bf ff failed with TypeMismatch"),
 "C09-2": ("C09", "tag of a unit enum variant is no longer checked by the derived decoder", "unit variant with #[cbor(tag(N))] and an input with a different or missing tag", ["C09"], "negative-cases: [0, 3({})] returned Enum(0) although the tag is wrong"),
 "C10-1": ("C10", "derived encoder: empty body of a unit variant follows the enum's encoding instead of the variant's override", "unit variant with a variant-level #[cbor(map)]/#[cbor(array)] differing from the enum; later turned into a struct/tuple variant with optional fields", ["C08", "C10"], "C08 wire-format (wrote [0, 2([])] for a map-encoded unit variant); C10 version-pairs after the override-unit-variant pairs were added to the compatibility family (missed before)"),
 "C10-2": ("C10", "derived decoder, definite array: loop bounded by min(len, highest known index + 1), surplus elements stay unconsumed", "array encoding, writer has non-nil optional fields above the reader's highest index", ["C10", "C09"], "version-pairs: decoded the right value but consumed fewer bytes than the item"),
 "C03-1": ("C03", "Encoder::i64: negatives that fit i32 go through self.i32, everything else gets the 8-byte head", "i64 in -2^32 ..= -2^31-1", ["C03"], "encoder-methods (lattice): wrote 3b.. instead of 3a.."),
 "C03-2": ("C03", "MapIter: exact = up.is_some() instead of Some(low) == up", "iterator with a bounded but inexact size_hint (filter over a slice)", ["C03"], "builtin-encode-impls: MapIter(inexact) wrote a definite header with the lower bound and no break"),
 "C05-1": ("C05", "type_of 0x3b arm: peek < 0x80 became <= 0x80", "8-byte negative whose first argument byte is exactly 0x80 (i64::MIN - 1 ...)", ["C05", "C11"], "sign-width-argument: datatype() reports I64 but i64() rejects 3b 80 00.."),
 "C05-2": ("C05", "Decoder::i32 0x3a arm: hand-written bound check off by one followed by a wrapping cast", "argument 0x8000_0000 at the 4-byte negative width (-2147483649)", ["C05"], "sign-width-argument: i32() returned 2147483647 for -2147483649"),
 "C07-1": ("C07", "CborLen for i64 uses unsigned_abs() instead of -1 - x", "i64 values -24, -256, -65536, -2^32", ["C07"], "builtin-types / integer-width-tables: len() = 2 but 1 byte written"),
 "C07-2": ("C07", "derived CborLen, array encoding, enum-variant code path: the pending tag bytes of nil fields are never added", "enum variant in array encoding with a tagged None field below a present field", ["C07"], "derived-types after the G-twin family (every tagged layout replicated as tuple struct and as named / tuple enum variant) was added; missed before: tags on fields existed only in named structs"),
 "C08-1": ("C08", "derived encoder: unit variant body follows the enum's encoding instead of the variant override", "unit variant with a variant-level #[cbor(map)]/#[cbor(array)] differing from the enum's", ["C08", "C10"], "wire-format: wrote [0, 2([])] where the format is [0, 2({})]"),
 "C08-2": ("C08", "attrs.rs: merging decode_with into a stored encode_with drops an already attached is_nil", "attribute order encode_with, is_nil, ..., decode_with on a non-Option field whose custom is_nil is true", ["C08", "C07"], "wire-format after the attribute-order variants of the custom codec (NilU8FnsB/C/D) were added; missed before: only one attribute order was generated"),
 "C11-1": ("C11", "type_of 0x3b arm: first argument byte 0x80 classified as I64", "Int just below i64::MIN (3b 80 ..)", ["C11", "C05"], "token-sequences: tokenising the encoded tokens failed"),
 "C11-2": ("C11", "Encoder::type_len: 4-byte range ends at 0x7fff_ffff", "array/map/tag/bytes/string head with an argument in 2^31 ..= 2^32-1", ["C03", "C11"], "C03 encoder-methods (lattice) caught it at once; C11 only after boundary arguments 0x7fffffff / 0x80000000 / 0xffffffff were added to the token alphabet and lattice tag items to the item sequences"),
 "C12-1": ("C12", "Encoder::f16 early-out to zero below half::MIN_POSITIVE (smallest normal)", "0 < |x| < 2^-14 (all half subnormals)", ["C12"], "half-items: a half-representable value was written as f9 0000"),
 "C12-2": ("C12", "Decoder::f16 fast path treats the largest subnormal as a normal", "exactly f9 03 ff and f9 83 ff", ["C12"], "half-items: f16()/f32()/f64() differ from the value the pattern denotes"),
 "C13-1": ("C13", "Cursor<[u8; N]>::write_all advances the position before the bounds check", "a rejected write on the fixed-array cursor", ["C13"], "values-capacities-sinks and write_all-sequences: position 1 after a rejected write into capacity 0"),
 "C13-2": ("C13", "Writer<W: io::Write>::write_all calls write() once and ignores short writes", "an io::Write that accepts fewer bytes than offered", ["C13"], "values-capacities-sinks: success reported into a sink of capacity 0"),
 "C14-1": ("C14", "blocking Reader: Interrupted in the prefix loop restarts read_with (partial prefix in locals is discarded)", "short read delivering 1-3 prefix bytes followed immediately by ErrorKind::Interrupted", ["C14"], "reader-fragmentation: wrong result after a short prefix read + Interrupted"),
 "C14-2": ("C14", "blocking Writer: buffer reset moved to the success path (with_buffer reserves the prefix, truncate(4) after write_all)", "a write that returns an error followed by another write on the same Writer", ["C14"], "writer-short-writes: the write after a rejected one fails with InvalidLen / carries stale bytes"),
 "C16-1": ("C16", "AsyncWriter::sync keeps the offset in a local across awaits", "sink accepts 0 < k < frame_len bytes, then Pending + drop (or a transient error), then sync", ["C16"], "write-sync-schedules: sink holds the frame prefix twice"),
 "C16-2": ("C16", "AsyncWriter::write_with arms State::WriteFrom(0) before encoding and the max_len check", "a rejected write (InvalidLen or encode error) followed by an explicit sync()", ["C16"], "write-sync-schedules: sync on an idle writer called poll_write after a rejected value"),
 "C17-1": ("C17", "deserialize_any: Type::U64 dispatches to deserialize_i64", "u64 above i64::MAX inside an untagged / internally tagged enum or a flattened struct", ["C17"], "wrapper-x-leaf: enum-internal<u64> u64::MAX fails to deserialise"),
 "C17-2": ("C17", "MapAccess::next_key_seed no longer consumes the break byte of an indefinite map", "indefinite-length map (flatten, or re-framed input) followed by a position check or a sibling", ["C17"], "wrapper-x-leaf: struct re-framed as bf..ff consumed 4 of 5 bytes"),
 "C18-1": ("C18", "serde bridge deserialize_tuple: indefinite arrays no longer rejected, their break byte stays unread", "an indefinite tuple / fixed array nested directly inside an indefinite sequence or map", ["C18", "C17"], "shared-types after re-framings with up to three indefinite containers (and everything indefinite) and tuples nested in sequences were added; missed before: only single-container re-framings were generated. C17 catches it too since the lenient indefinite inputs were added."),
 "C18-2": ("C18", "native Encode for 12-tuples writes component 10 twice (macro index table K(10) L(10))", "a tuple of exactly arity 12 whose last two components differ", ["C01", "C03", "C18"], "C01 / C03 typed-values (tuple12) caught it at once; C18 only after tuples of arity 5..12 were added to the shared types"),
 "C19-1": ("C19", "display: empty indefinite text string leaves its break unconsumed", "a well-formed item containing 7f ff", ["C19"], "exact-rendering: displayed 1(1(\"\"_))] "),
 "C19-2": ("C19", "display: premature end of input no longer stops the stack machine", "definite array/map head declaring far more elements than the truncated input holds", ["C19", "C02"], "totality-and-size: output exceeds 16*len+512"),
 "C20-1": ("C20", "no-alloc skip, MAP arm: nrounds < 2 became <= 2", "minicbor built without alloc; indefinite map inside a definite container with exactly one more item pending", ["C20", "C06"], "C20 transcripts (serde IgnoredAny / skip positions differ from std+half) and C06 no-alloc probe (82 bf ff 00 skipped to 3 of 4)"),
 "C20-2": ("C20", "no-alloc twin of the Tagged<N,T> wrong-tag error uses Error::message instead of tag_mismatch", "minicbor built without alloc; decoding Tagged<N,T> from an item with another tag and inspecting the error class", ["C20"], "transcripts: decode<Tagged<1,u8>> is Err(message) in `none`, Err(tag mismatch) in std+half"),
 "C15-1": ("C15", "AsyncReader: length-prefix progress kept in locals across awaits", "prefix delivered in >= 2 pieces with a Pending + drop or a transient error in between", ["C15"], "poll-drop-schedules: result #0 InvalidLen / UnexpectedEof instead of the value"),
 "C15-2": ("C15", "AsyncReader: EOF at payload offset 0 reported as a clean end", "stream ends exactly after a complete prefix announcing a non-empty payload", ["C15"], "poll-drop-schedules: CleanEnd where the model expects UnexpectedEof"),
}
base = "/verif/seeded"
for k, (prop, change, needs, caught, how) in T.items():
    d = os.path.join(base, k)
    if not os.path.isdir(d):
        continue
    meta = {
        "id": k, "breaks_property": prop, "change": change, "needs_to_manifest": needs,
        "author": "independent sub-agent given only the property text and a scratch worktree of /repo",
        "confirmed": {
            "patch_applies_to_repo_head": True,
            "repository_suite_with_change": "cargo test --workspace --no-fail-fast --offline: 0 failures (RUN_SUITE=1 tools/run_seeded.sh)",
            "demonstration": "fails with the change, passes without (run by the sub-agent; see notes.md)",
            "ran": "tools/run_seeded.sh seeded/%s %s" % (k, " ".join(caught)),
        },
        "caught_by": caught, "how": how,
    }
    json.dump(meta, open(os.path.join(d, "meta.json"), "w"), indent=1)
rows = []
for k in sorted(T):
    prop, change, needs, caught, how = T[k]
    if os.path.isdir(os.path.join(base, k)):
        rows.append("| %s | %s | %s | %s | %s |" % (k, prop, change, needs, ", ".join(caught) + ": " + how))
open(os.path.join(base, "SUMMARY.md"), "w").write("| seeded change | property | change | needs to manifest | caught by |\n|---|---|---|---|---|\n" + "\n".join(rows) + "\n")
print("ok", len(rows))
