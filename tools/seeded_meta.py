#!/usr/bin/env python3
"""Writes seeded/<id>/meta.json from the table below (results of tools/run_seeded.sh, confirmed by hand)."""
import json, os
T = {
 "C01-1": ("C01", "Decoder::i64 0x1a arm reads i32::from_be_bytes (sign-extends a 4-byte head)", "a value in 2^31..=2^32-1 decoded through i64 / isize / NonZeroI64 / AtomicI64 ...", ["C01"], "typed-values + scalar lattice: i64 4294967295 decoded as -1"),
 "C01-2": ("C01", "Bound::Unbounded decode no longer skips its payload", "Bound::Unbounded followed by anything; position check", ["C01"], "typed-values: decoder consumed 2 bytes, the encoder produced 3"),
 "C02-1": ("C02", "Duration decode fast path uses nanos <= 1e9 before the checked carry", "exactly secs = u64::MAX and nanos = 1_000_000_000", ["C02"], "c-mutated-valid-encodings: panicked: overflow in Duration::new on 82 1b ff*8 1a 3b9aca00"),
 "C02-2": ("C02", "MapIterWithCtx gets size_hint from the declared length and HashMap decode try_reserves it (two cooperating sites)", "a definite map header declaring far more entries than the input holds, decoded as HashMap", ["C02"], "allocation cap: request of 283 GB for bb 00 00 00 01 00 00 00 00 ff ff (emergency VIOLATION path), also the per-call bound"),
 "C04-1": ("C04", "ByteArray<N> decode accepts byte strings longer than N (copy of the first N bytes)", "a definite byte string longer than N decoded as ByteArray<N> / Ipv4Addr / ...", ["C04"], "A-trees-all-ops (ByteArray<0> on h'01') and C-near-miss-shapes (one byte longer)"),
 "C04-2": ("C04", "ArrayIterWithCtx turns end of input into end of iteration for indefinite arrays (.ok()?)", "indefinite array truncated exactly on an element boundary, decoded through Vec / [T;N] / array_iter_with", ["C04"], "strict-prefixes: 9f decoded as Ok([])"),
 "C06-1": ("C06", "skip(): only one of several open indefinite containers is pushed when switching to the stack", ">= 2 open indefinite containers around a definite array of >= 3 elements holding another indefinite container in a non-tail position", ["C06"], "trees: 9f 9f 83 9f ff 80 9f ff ff ff skipped to position 9 of 10"),
 "C06-2": ("C06", "BytesIter::next turns end of input into end of iteration (.ok()?)", "indefinite byte string cut after 5f or after a complete chunk, as last leaf inside definite containers", ["C06"], "trees: skip() on a strict prefix returned Ok"),
 "C09-1": ("C09", "derived decoder, map encoding, indefinite branch: break checked after the first key", "a #[cbor(map)] struct/variant whose encoding is the empty map re-framed as bf ff", ["C09"], "round-trip: bf ff failed with TypeMismatch"),
 "C09-2": ("C09", "tag of a unit enum variant is no longer checked by the derived decoder", "unit variant with #[cbor(tag(N))] and an input with a different or missing tag", ["C09"], "negative-cases: [0, 3({})] returned Enum(0) although the tag is wrong"),
 "C10-1": ("C10", "derived encoder: empty body of a unit variant follows the enum's encoding instead of the variant's override", "unit variant with a variant-level #[cbor(map)]/#[cbor(array)] differing from the enum; later turned into a struct/tuple variant with optional fields", ["C08", "C10"], "C08 wire-format (wrote [0, 2([])] for a map-encoded unit variant); C10 version-pairs after the override-unit-variant pairs were added to the compatibility family (missed before)"),
 "C10-2": ("C10", "derived decoder, definite array: loop bounded by min(len, highest known index + 1), surplus elements stay unconsumed", "array encoding, writer has non-nil optional fields above the reader's highest index", ["C10", "C09"], "version-pairs: decoded the right value but consumed fewer bytes than the item"),
 "C15-1": ("C15", "AsyncReader: length-prefix progress kept in locals across awaits", "prefix delivered in >= 2 pieces with a Pending + drop or a transient error in between", ["C15"], "poll-drop-schedules: result #0 InvalidLen / UnexpectedEof instead of the value"),
 "C15-2": ("C15", "AsyncReader: EOF at payload offset 0 reported as a clean end", "stream ends exactly after a complete prefix announcing a non-empty payload", ["C15"], "poll-drop-schedules: CleanEnd where the model expects UnexpectedEof"),
}
base = "/verif/seeded"
for k, (prop, change, needs, caught, how) in T.items():
    d = os.path.join(base, k)
    if not os.path.isdir(d):
        continue
    meta = {
        "id": k, "breaks_property": prop, "change": change, "needs_to_manifest": needs,
        "author": "independent sub-agent given only the property text and a scratch worktree of /repo",
        "confirmed": {
            "patch_applies_to_repo_head": True,
            "repository_suite_with_change": "cargo test --workspace --no-fail-fast --offline: 0 failures (RUN_SUITE=1 tools/run_seeded.sh)",
            "demonstration": "fails with the change, passes without (run by the sub-agent; see notes.md)",
            "ran": "tools/run_seeded.sh seeded/%s %s" % (k, " ".join(caught)),
        },
        "caught_by": caught, "how": how,
    }
    json.dump(meta, open(os.path.join(d, "meta.json"), "w"), indent=1)
print("ok")
