#!/bin/bash
# tools/round.sh <round-dir e.g. /tmp/wt4> <ID> [extra check IDs...]: for every patch<i>.diff an agent left in <round-dir>/<ID>/_seed,
# run the quick check(s) against it (tools/try_patch.sh) and confirm it (tools/confirm3.sh, RUN line of notes<i>.md).
R="$1"; ID="$2"; shift 2
for p in "$R/$ID"/_seed/patch*.diff; do
  i=$(basename "$p" | sed 's/patch\([0-9]*\).*/\1/')
  echo "=== $ID patch$i"
  /verif/tools/try_patch.sh "$p" "$ID" "$@" 2>&1 | cut -c1-420
  run=$(head -1 "$R/$ID/_seed/notes$i.md" | sed -n 's/^RUN: *//p')
  if [ -n "$run" ]; then
    /verif/tools/confirm3.sh "$p" "$R/$ID/_seed/demo$i.rs" $run | tee -a "$R/confirm.log"
  else
    echo "no RUN line in notes$i.md"
  fi
done
