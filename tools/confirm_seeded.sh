#!/bin/bash
# Confirms one seeded change in a scratch worktree: demo passes at HEAD, fails with the patch,
# repository suite passes with the patch. Usage: confirm_seeded.sh <seeded-dir> <tests-dir> <cargo test args...>
set -u
D="$1"; TD="$2"; shift 2
WT=/tmp/wt_confirm
if [ ! -d "$WT" ]; then git -C /repo worktree add -q "$WT" HEAD || exit 2; fi
cd "$WT" && git checkout -q -- . && git clean -fdq -e target
mkdir -p "$WT/$TD" && cp "$D"/*.rs "$WT/$TD/"
cargo test "$@" >/tmp/confirm_head.log 2>&1; head_rc=$?
git apply "$D/patch.diff" || { echo "patch does not apply"; exit 2; }
cargo test "$@" >/tmp/confirm_patched.log 2>&1; patched_rc=$?
rm -f "$WT/$TD"/$(cd "$D" && ls *.rs | tr '\n' ' ')
for f in $(cd "$D" && ls *.rs); do rm -f "$WT/$TD/$f"; done
cargo test --workspace --no-fail-fast --offline >/tmp/confirm_suite.log 2>&1; suite_rc=$?
git checkout -q -- . && git clean -fdq -e target
echo "$(basename $D): demo@HEAD rc=$head_rc (want 0)  demo@patched rc=$patched_rc (want !=0)  suite@patched rc=$suite_rc (want 0)"
