#!/usr/bin/env python3
"""Adds the one-line form required by the task interface to every entry of known_findings.json."""
import json
p='/verif/known_findings.json'
kf=json.load(open(p))
for f in kf['findings']:
    if f['status']=='fixed':
        f['line']="fixed: property=%s %s %s"%(f['property'],f['commit'],f['what'])
    else:
        f['line']="KNOWN-FINDING: property=%s %s: %s"%(f['property'],f['key'],f['what'])
json.dump(kf,open(p,'w'),indent=1)
