#!/bin/bash
# tools/verify_meta.sh <seeded-id>...: apply each seeded change to /repo, run every check named in its meta.json (quick tier),
# print which of them report the violation; restore /repo. (tools/selftest.sh does the same for all of them and fails on a miss.)
cd /repo || exit 2
for id in "$@"; do
  d=/verif/seeded/$id
  checks=$(python3 -c "import json; print(' '.join(json.load(open('$d/meta.json'))['caught_by']))")
  git diff --quiet || { echo "repo dirty"; exit 2; }
  git apply "$d/patch.diff" || { echo "$id: patch does not apply"; continue; }
  res=""
  for c in $checks; do
    out=$(cd /verif && ./check "$c" --tier quick 2>&1); code=$?
    if [ "$code" = 1 ] && echo "$out" | grep -q "^VIOLATION property=$c"; then res="$res $c:caught"; else res="$res $c:MISSED($code)"; fi
  done
  git checkout -q -- .
  echo "$id:$res"
done
