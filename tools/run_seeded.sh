#!/bin/bash
# Runs checks against one seeded change: tools/run_seeded.sh <dir-with-patch.diff> <ID> [<ID>...]
# Applies the patch to /repo, optionally confirms the repository's own suite still passes
# (RUN_SUITE=1), runs the named quick checks, and always restores /repo afterwards.
set -u
DIR="$1"; shift
cd /repo || exit 2
if ! git diff --quiet; then echo "refusing: /repo has uncommitted changes" >&2; exit 2; fi
if ! git apply --check "$DIR/patch.diff" 2>/dev/null; then echo "patch does not apply: $DIR/patch.diff" >&2; exit 2; fi
git apply "$DIR/patch.diff"
trap 'git -C /repo checkout -- . >/dev/null 2>&1' EXIT
if [ "${RUN_SUITE:-0}" = 1 ]; then
  if cargo test --workspace --no-fail-fast --offline >/tmp/seeded_suite.log 2>&1; then
    echo "suite: PASS ($(grep -E '^test result' /tmp/seeded_suite.log | awk '{p+=$4; f+=$6} END {print p" passed, "f" failed"}'))"
  else
    echo "suite: FAIL"; grep -E "FAILED|panicked|^error" /tmp/seeded_suite.log | head -5
  fi
fi
for id in "$@"; do
  start=$(date +%s)
  out=$(cd /verif && ./check "$id" --tier quick 2>&1); code=$?
  end=$(date +%s)
  viol=$(echo "$out" | grep -c "^VIOLATION")
  echo "check $id: exit=$code violations_reported=$viol time=$((end-start))s"
  if [ "$code" = 1 ]; then echo "$out" | grep -m2 "violation\[" | cut -c1-400; fi
  if [ "$code" != 0 ] && [ "$code" != 1 ]; then echo "$out" | tail -5; fi
done
