//! mcx: the bounded exhaustive exploration engine of the minicbor verification harness.

pub mod alloc;
pub mod explore;
pub mod par;
pub mod report;
pub mod slot;

pub use report::{Report, Tier};
