//! Counting global allocator with per-thread accounting and a hard cap.
//!
//! A request that would push the *current thread's* live bytes above the cap
//! while a monitored call is in progress is a verdict (allocation driven by a
//! declared length), not an OOM kill: the allocator writes a pre-formatted
//! `VIOLATION` line plus a replay file with `libc::write` and `_exit(1)`s.

use std::alloc::{GlobalAlloc, Layout, System};
use std::cell::Cell;
use std::sync::atomic::{AtomicPtr, AtomicUsize, Ordering};


pub struct Counting;

thread_local! {
    static CUR: Cell<isize> = const { Cell::new(0) };
    static PEAK: Cell<isize> = const { Cell::new(0) };
    static ARMED: Cell<bool> = const { Cell::new(false) };
}

/// Hard cap in bytes for one monitored call on one thread.
pub static CAP: AtomicUsize = AtomicUsize::new(1 << 30);

/// Pre-formatted header ("<property id>") used by the emergency path.
static PROP: AtomicPtr<u8> = AtomicPtr::new(std::ptr::null_mut());
static PROP_LEN: AtomicUsize = AtomicUsize::new(0);

/// Directory of the replay files ("<VERIF_DIR>/replays/"), pre-formatted for the emergency path.
static RDIR: AtomicPtr<u8> = AtomicPtr::new(std::ptr::null_mut());
static RDIR_LEN: AtomicUsize = AtomicUsize::new(0);

pub fn set_property(id: &str) {
    let b: &'static mut [u8] = Box::leak(id.as_bytes().to_vec().into_boxed_slice());
    PROP_LEN.store(b.len(), Ordering::SeqCst);
    PROP.store(b.as_mut_ptr(), Ordering::SeqCst);
    let dir = format!("{}/replays/", std::env::var("VERIF_DIR").unwrap_or_else(|_| "/verif".to_string()));
    let d: &'static mut [u8] = Box::leak(dir.into_bytes().into_boxed_slice());
    RDIR_LEN.store(d.len(), Ordering::SeqCst);
    RDIR.store(d.as_mut_ptr(), Ordering::SeqCst);
}

/// Fatal signals raised while the subject runs (a wild write through one of its `unsafe` blocks, a
/// stack overflow, an abort from a panic inside a destructor during unwinding) are verdicts about the
/// subject, reported with the worker's current case like the allocation cap - not harness crashes.
/// The harness itself is fixed code that runs clean on the unchanged tree.
pub fn install_fatal_signal_handler() {
    unsafe {
        for sig in [libc::SIGSEGV, libc::SIGBUS, libc::SIGILL, libc::SIGABRT, libc::SIGFPE] {
            let mut sa: libc::sigaction = std::mem::zeroed();
            sa.sa_sigaction = on_fatal_signal as usize;
            sa.sa_flags = libc::SA_SIGINFO | libc::SA_ONSTACK | libc::SA_RESETHAND;
            libc::sigemptyset(&mut sa.sa_mask);
            libc::sigaction(sig, &sa, std::ptr::null_mut());
        }
    }
}

extern "C" fn on_fatal_signal(sig: libc::c_int, _info: *mut libc::siginfo_t, _ctx: *mut libc::c_void) {
    emergency(b"fatal-signal", b"-fatal-signal.json\0", b"signal", sig as usize)
}

unsafe impl GlobalAlloc for Counting {
    unsafe fn alloc(&self, l: Layout) -> *mut u8 {
        account(l.size() as isize);
        System.alloc(l)
    }
    unsafe fn dealloc(&self, p: *mut u8, l: Layout) {
        let _ = CUR.try_with(|c| c.set(c.get() - l.size() as isize));
        System.dealloc(p, l)
    }
    unsafe fn alloc_zeroed(&self, l: Layout) -> *mut u8 {
        account(l.size() as isize);
        System.alloc_zeroed(l)
    }
    unsafe fn realloc(&self, p: *mut u8, l: Layout, new: usize) -> *mut u8 {
        account(new as isize - l.size() as isize);
        System.realloc(p, l, new)
    }
}

#[inline]
fn account(delta: isize) {
    let _ = CUR.try_with(|c| {
        let n = c.get() + delta;
        c.set(n);
        let _ = PEAK.try_with(|p| {
            if n > p.get() {
                p.set(n)
            }
        });
        if delta > 0 {
            let armed = ARMED.try_with(|a| a.get()).unwrap_or(false);
            if armed {
                let base = BASE.try_with(|b| b.get()).unwrap_or(0);
                if (n - base) as usize > CAP.load(Ordering::Relaxed) {
                    emergency(b"allocation-cap", b"-alloc-cap.json\0", b"request_bytes", delta as usize)
                }
            }
        }
    });
}

thread_local! {
    static BASE: Cell<isize> = const { Cell::new(0) };
}

fn emergency(sub: &[u8], file_suffix: &[u8], num_key: &[u8], req: usize) -> ! {
    // No allocation from here on.
    unsafe {
        let mut buf = [0u8; 4096];
        let mut n = 0usize;
        let mut put = |s: &[u8]| {
            for b in s {
                if n < buf.len() {
                    buf[n] = *b;
                    n += 1;
                }
            }
        };
        let prop = std::slice::from_raw_parts(PROP.load(Ordering::SeqCst), PROP_LEN.load(Ordering::SeqCst));
        // replay file
        let mut path = [0u8; 256];
        let mut pn = 0usize;
        let rdir = std::slice::from_raw_parts(RDIR.load(Ordering::SeqCst), RDIR_LEN.load(Ordering::SeqCst));
        for b in rdir.iter().chain(prop.iter()).chain(file_suffix.iter()) {
            if pn < path.len() - 1 {
                path[pn] = *b;
                pn += 1;
            }
        }
        put(b"{\"property\":\"");
        put(prop);
        put(b"\",\"sub\":\"");
        put(sub);
        put(b"\",\"op\":\"");
        let mut case = [0u8; crate::slot::CASE_MAX];
        let (cl, opp, opl) = crate::slot::read_raw(crate::slot::my_index(), &mut case);
        if !opp.is_null() {
            put(std::slice::from_raw_parts(opp, opl));
        }
        put(b"\",\"");
        put(num_key);
        put(b"\":");
        let mut digits = [0u8; 20];
        let mut d = 0;
        let mut r = req;
        if r == 0 {
            digits[0] = b'0';
            d = 1;
        }
        while r > 0 {
            digits[d] = b'0' + (r % 10) as u8;
            r /= 10;
            d += 1;
        }
        for i in (0..d).rev() {
            put(&digits[i..i + 1]);
        }
        put(b",\"input_hex\":\"");
        for b in &case[..cl] {
            let hx = b"0123456789abcdef";
            put(&[hx[(b >> 4) as usize], hx[(b & 15) as usize]]);
        }
        put(b"\"}\n");
        let fd = libc::open(path.as_ptr() as *const libc::c_char, libc::O_WRONLY | libc::O_CREAT | libc::O_TRUNC, 0o644);
        if fd >= 0 {
            libc::write(fd, buf.as_ptr() as *const libc::c_void, n);
            libc::close(fd);
        }
        let mut line = [0u8; 512];
        let mut ln = 0usize;
        for b in b"\nVIOLATION property=".iter().chain(prop.iter()).chain(b" replay=".iter()).chain(path[..pn - 1].iter()).chain(b"\n".iter()) {
            line[ln] = *b;
            ln += 1;
        }
        libc::write(1, line.as_ptr() as *const libc::c_void, ln);
        libc::_exit(1)
    }
}

/// Run `f` with allocation accounting; returns the result and the peak number of
/// bytes live on this thread above the level at entry. While `f` runs the hard
/// cap is armed; the case recorded with `slot::case` describes it in the emergency replay file.
#[inline]
pub fn measured<R>(f: impl FnOnce() -> R) -> (R, usize) {
    let base = CUR.with(|c| c.get());
    PEAK.with(|p| p.set(base));
    BASE.with(|b| b.set(base));
    ARMED.with(|a| a.set(true));
    let r = f();
    ARMED.with(|a| a.set(false));
    let peak = PEAK.with(|p| p.get());
    (r, (peak - base).max(0) as usize)
}

/// Bytes currently live on this thread (may be negative if memory allocated elsewhere was freed here).
pub fn current() -> isize {
    CUR.with(|c| c.get())
}
