//! Result collection: violations, known findings, evidence and exit codes.

use serde_json::{json, Map, Value};
use std::collections::{BTreeMap, BTreeSet};
use std::sync::Mutex;
use std::time::Instant;

#[derive(Debug, Clone, Copy, PartialEq, Eq)]
pub enum Tier {
    Quick,
    Thorough,
}

impl Tier {
    pub fn as_str(self) -> &'static str {
        match self {
            Tier::Quick => "quick",
            Tier::Thorough => "thorough",
        }
    }
    pub fn is_thorough(self) -> bool {
        self == Tier::Thorough
    }
}

#[derive(Default)]
struct Sub {
    evaluations: u64,
    nontrivial: u64,
    states: u64,
    transitions: u64,
    outcomes: BTreeMap<String, u64>,
    samples: Vec<Value>,
    exhaustive: Option<bool>,
    bound: Option<String>,
    min_outcomes: usize,
}

struct Inner {
    subs: BTreeMap<String, Sub>,
    violations: Vec<Value>,
    violation_count: u64,
    known_hits: BTreeMap<String, (u64, String)>,
    assumptions: BTreeSet<String>,
    notes: Map<String, Value>,
    machinery_errors: Vec<String>,
}

pub struct Report {
    pub property: String,
    pub tier: Tier,
    pub seed: u64,
    start: Instant,
    known: BTreeMap<String, String>, // key -> what (status == known only)
    fixed: BTreeSet<String>,
    inner: Mutex<Inner>,
    verif_dir: String,
    pub replay: Option<Value>,
}

pub const MAX_RECORDED: usize = 25;

impl Report {
    pub fn new(property: &str, tier: Tier) -> Self {
        let verif_dir = std::env::var("VERIF_DIR").unwrap_or_else(|_| "/verif".to_string());
        let seed = std::env::var("VERIF_SEED").ok().and_then(|s| s.parse::<u64>().ok()).unwrap_or(0);
        let mut known = BTreeMap::new();
        let mut fixed = BTreeSet::new();
        let kf_path = format!("{}/known_findings.json", verif_dir);
        match std::fs::read_to_string(&kf_path) {
            Ok(txt) => {
                let v: Value = serde_json::from_str(&txt).unwrap_or_else(|e| {
                    eprintln!("machinery error: {} does not parse: {}", kf_path, e);
                    std::process::exit(2)
                });
                for f in v["findings"].as_array().cloned().unwrap_or_default() {
                    if f["property"].as_str() != Some(property) {
                        continue;
                    }
                    let key = f["key"].as_str().unwrap_or("").to_string();
                    match f["status"].as_str() {
                        Some("known") => {
                            known.insert(key, f["what"].as_str().unwrap_or("").to_string());
                        }
                        Some("fixed") => {
                            fixed.insert(key);
                        }
                        _ => {}
                    }
                }
            }
            Err(_) => {}
        }
        crate::alloc::set_property(property);
        crate::alloc::install_fatal_signal_handler();
        Report {
            property: property.to_string(),
            tier,
            seed,
            start: Instant::now(),
            known,
            fixed,
            inner: Mutex::new(Inner {
                subs: BTreeMap::new(),
                violations: Vec::new(),
                violation_count: 0,
                known_hits: BTreeMap::new(),
                assumptions: BTreeSet::new(),
                notes: Map::new(),
                machinery_errors: Vec::new(),
            }),
            verif_dir,
            replay: None,
        }
    }

    pub fn elapsed(&self) -> f64 {
        self.start.elapsed().as_secs_f64()
    }

    /// Add counts for a sub-space.
    pub fn add(&self, sub: &str, evaluations: u64, nontrivial: u64) {
        let mut g = self.inner.lock().unwrap();
        let s = g.subs.entry(sub.to_string()).or_default();
        s.evaluations += evaluations;
        s.nontrivial += nontrivial;
    }

    pub fn add_states(&self, sub: &str, states: u64, transitions: u64) {
        let mut g = self.inner.lock().unwrap();
        let s = g.subs.entry(sub.to_string()).or_default();
        s.states += states;
        s.transitions += transitions;
    }

    pub fn outcome(&self, sub: &str, name: &str, n: u64) {
        if n == 0 {
            return;
        }
        let mut g = self.inner.lock().unwrap();
        let s = g.subs.entry(sub.to_string()).or_default();
        *s.outcomes.entry(name.to_string()).or_default() += n;
    }

    pub fn outcomes(&self, sub: &str, m: &BTreeMap<String, u64>) {
        let mut g = self.inner.lock().unwrap();
        let s = g.subs.entry(sub.to_string()).or_default();
        for (k, v) in m {
            *s.outcomes.entry(k.clone()).or_default() += *v;
        }
    }

    /// Record that a sub-space was enumerated completely (or not) and under which bound.
    pub fn space(&self, sub: &str, exhaustive: bool, bound: &str, min_outcomes: usize) {
        let mut g = self.inner.lock().unwrap();
        let s = g.subs.entry(sub.to_string()).or_default();
        s.exhaustive = Some(exhaustive);
        s.bound = Some(bound.to_string());
        s.min_outcomes = min_outcomes;
    }

    pub fn sample(&self, sub: &str, v: Value) {
        let mut g = self.inner.lock().unwrap();
        let s = g.subs.entry(sub.to_string()).or_default();
        if s.samples.len() < 3 {
            s.samples.push(v);
        }
    }

    pub fn assume(&self, a: &str) {
        self.inner.lock().unwrap().assumptions.insert(a.to_string());
    }

    pub fn note(&self, k: &str, v: Value) {
        self.inner.lock().unwrap().notes.insert(k.to_string(), v);
    }

    pub fn machinery_error(&self, e: String) {
        self.inner.lock().unwrap().machinery_errors.push(e);
    }

    pub fn violation_count(&self) -> u64 {
        self.inner.lock().unwrap().violation_count
    }

    /// Report a failing case. If `known_key` names an entry with status "known" in
    /// known_findings.json the case is attributed to that finding; otherwise it is a violation.
    /// The caller must pass a `known_key` only when the failing case lies in the finding's
    /// domain *and* shows exactly the finding's deviant behaviour.
    pub fn fail(&self, sub: &str, known_key: Option<&str>, case: Value, detail: impl Into<String>) {
        let detail = detail.into();
        let mut g = self.inner.lock().unwrap();
        if let Some(k) = known_key {
            if let Some(what) = self.known.get(k) {
                let e = g.known_hits.entry(k.to_string()).or_insert((0, what.clone()));
                e.0 += 1;
                return;
            }
        }
        g.violation_count += 1;
        if g.violations.len() < MAX_RECORDED {
            let mut v = json!({"property": self.property, "sub": sub, "case": case, "detail": detail});
            if let Some(k) = known_key {
                v["candidate_finding_key"] = json!(k);
                if self.fixed.contains(k) {
                    v["regression_of_fixed_finding"] = json!(true);
                }
            }
            g.violations.push(v);
        }
    }

    /// Write evidence, print the verdict lines and return the process exit code.
    pub fn finish(&self) -> i32 {
        let wall = self.elapsed();
        let g = self.inner.lock().unwrap();
        let mut evaluations = 0u64;
        let mut nontrivial = 0u64;
        let mut states = 0u64;
        let mut transitions = 0u64;
        let mut samples: Vec<Value> = Vec::new();
        let mut subs = Map::new();
        let mut all_exhaustive = true;
        let mut vacuous: Vec<String> = Vec::new();
        let mut distinct_outcomes = 0usize;
        for (name, s) in &g.subs {
            evaluations += s.evaluations;
            nontrivial += s.nontrivial;
            states += if s.states > 0 { s.states } else { s.evaluations };
            transitions += if s.transitions > 0 { s.transitions } else { s.evaluations };
            for x in &s.samples {
                samples.push(json!({"sub": name, "case": x}));
            }
            if s.exhaustive != Some(true) {
                all_exhaustive = false;
            }
            distinct_outcomes += s.outcomes.len();
            if s.min_outcomes > 0 && s.outcomes.len() < s.min_outcomes && self.replay.is_none() {
                vacuous.push(format!("{}: {} distinct outcomes, expected at least {}", name, s.outcomes.len(), s.min_outcomes));
            }
            subs.insert(
                name.clone(),
                json!({
                    "evaluations": s.evaluations,
                    "nontrivial": s.nontrivial,
                    "states": s.states,
                    "transitions": s.transitions,
                    "exhaustive_within_bound": s.exhaustive,
                    "bound": s.bound,
                    "outcomes": s.outcomes,
                }),
            );
        }
        if states == 0 {
            states = evaluations;
        }
        if transitions == 0 {
            transitions = evaluations;
        }
        let known: Vec<Value> = g.known_hits.iter().map(|(k, (n, w))| json!({"key": k, "cases": n, "what": w})).collect();
        let mut coverage = json!({
            "states": states.max(1),
            "transitions": transitions.max(1),
            "traces_validated_against_impl": evaluations,
            "evaluations": evaluations.max(1),
            "distinct_nontrivial": nontrivial,
            "rule": "cases are enumerated exhaustively within the bounds listed per sub-space; every case runs the real implementation and is compared with the reference model; a case counts as non-trivial when the implementation produced a value (or a complete schedule) that was compared against the model rather than an early rejection",
            "samples": samples,
            "exhaustive": all_exhaustive,
            "distinct_outcomes": distinct_outcomes,
            "subspaces": Value::Object(subs),
        });
        for (k, v) in &g.notes {
            coverage[k] = v.clone();
        }
        let ev = json!({
            "property_id": self.property,
            "tier": self.tier.as_str(),
            "seed": self.seed,
            "level": "model_checking",
            "coverage": coverage,
            "assumptions": g.assumptions.iter().collect::<Vec<_>>(),
            "wall_s": wall,
            "violations": g.violation_count,
            "known_findings_hit": known,
        });
        if self.replay.is_none() {
            let dir = format!("{}/evidence", self.verif_dir);
            let _ = std::fs::create_dir_all(&dir);
            let path = format!("{}/{}.json", dir, self.property);
            let tmp = format!("{}.tmp", path);
            if let Err(e) = std::fs::write(&tmp, serde_json::to_string_pretty(&ev).unwrap()).and_then(|_| std::fs::rename(&tmp, &path)) {
                eprintln!("machinery error: cannot write evidence {}: {}", path, e);
                return 2;
            }
        }
        println!(
            "{} tier={} evaluations={} nontrivial={} states={} transitions={} wall={:.1}s",
            self.property, self.tier.as_str(), evaluations, nontrivial, states, transitions, wall
        );
        for (name, s) in &g.subs {
            println!("  {:<28} evaluations={:<12} outcomes={}", name, s.evaluations, s.outcomes.len());
        }
        for (k, (n, w)) in &g.known_hits {
            println!("KNOWN-FINDING: property={} {}: {} ({} cases)", self.property, k, w, n);
        }
        if !g.machinery_errors.is_empty() {
            for e in &g.machinery_errors {
                eprintln!("machinery error: {}", e);
            }
            return 2;
        }
        if g.violation_count > 0 {
            let dir = format!("{}/replays", self.verif_dir);
            let _ = std::fs::create_dir_all(&dir);
            for (i, v) in g.violations.iter().enumerate() {
                let path = format!("{}/{}-{}.json", dir, self.property, i);
                let _ = std::fs::write(&path, serde_json::to_string_pretty(v).unwrap());
                let detail = v["detail"].as_str().unwrap_or("");
                let short: String = detail.chars().take(300).collect();
                let case: String = v["case"].to_string().chars().take(400).collect();
                println!("  violation[{}] sub={} case={} :: {}", i, v["sub"].as_str().unwrap_or(""), case, short);
                println!("VIOLATION property={} replay={}", self.property, path);
            }
            println!("{}: {} violating cases ({} recorded)", self.property, g.violation_count, g.violations.len());
            return 1;
        }
        if !vacuous.is_empty() {
            for v in &vacuous {
                eprintln!("machinery error: vacuous exploration: {}", v);
            }
            return 2;
        }
        0
    }
}
