//! Deviation-bounded stateless explorer.
//!
//! A harness body is a deterministic function of the sequence of choices it is
//! given. `explore` runs the body once per complete choice sequence within the
//! deviation budget: decisions inside the replayed prefix are forced, later ones
//! take option 0 (the benign environment answer), and every alternative whose
//! cumulative cost stays within the budget is scheduled as a new prefix. Each
//! complete execution is visited exactly once.

use std::cell::RefCell;
use std::rc::Rc;

#[derive(Debug, Clone)]
pub struct Choice {
    pub label: &'static str,
    pub taken: u32,
    pub arity: u32,
    /// cost of each option (option 0 costs 0); at most MAX_ARITY options
    pub costs: [u8; MAX_ARITY],
}

pub const MAX_ARITY: usize = 40;

#[derive(Debug, Default)]
pub struct Chooser {
    prefix: Vec<u32>,
    pub trace: Vec<Choice>,
    pub spent: u32,
    /// set when the forced prefix asked for an option that does not exist (only legal for
    /// the speculative first choice of a sharded exploration)
    pub infeasible: bool,
    /// number of leading positions whose forced option is speculative (sharded exploration)
    tolerate_infeasible_upto: usize,
}

impl Chooser {
    pub fn new(prefix: Vec<u32>) -> Self {
        Chooser { prefix, trace: Vec::new(), spent: 0, infeasible: false, tolerate_infeasible_upto: 0 }
    }

    /// Take a decision among `costs.len()` options. `costs[0]` must be 0.
    pub fn choose(&mut self, label: &'static str, costs: &[u8]) -> usize {
        assert!(!costs.is_empty() && costs[0] == 0, "option 0 must exist and be free");
        assert!(costs.len() <= MAX_ARITY, "too many options at one choice point");
        let i = self.trace.len();
        let taken = if i < self.prefix.len() {
            let t = self.prefix[i];
            if t as usize >= costs.len() && i < self.tolerate_infeasible_upto {
                self.infeasible = true;
                0
            } else if t as usize >= costs.len() {
                panic!("replay divergence at choice #{} ({}): prefix wants option {} of {}", i, label, t, costs.len());
            } else {
                t
            }
        } else {
            0
        };
        self.spent += costs[taken as usize] as u32;
        let mut c = [0u8; MAX_ARITY];
        c[..costs.len()].copy_from_slice(costs);
        self.trace.push(Choice { label, taken, arity: costs.len() as u32, costs: c });
        taken as usize
    }

    pub fn choices(&self) -> Vec<u32> {
        self.trace.iter().map(|c| c.taken).collect()
    }

    pub fn describe(&self) -> Vec<String> {
        self.trace.iter().enumerate().map(|(i, c)| format!("#{} {}: option {} of {}", i, c.label, c.taken, c.arity)).collect()
    }
}

pub type SharedChooser = Rc<RefCell<Chooser>>;

#[derive(Debug, Default, Clone, Copy)]
pub struct ExploreStats {
    pub executions: u64,
    pub choice_points: u64,
    pub max_trace_len: usize,
    pub max_spent: u32,
}

/// Explore every execution of `body` within `budget` deviations.
/// `body` receives a fresh chooser; it returns `Err(description)` on an oracle failure.
/// Returns the statistics and the first failure (choices, description) if any.
/// `on_exec` is called after every execution (for outcome histograms / state hashing).
pub fn explore<B>(budget: u32, body: B) -> (ExploreStats, Option<(Vec<u32>, Vec<String>, String)>)
where
    B: FnMut(SharedChooser) -> Result<(), String>,
{
    explore_from(budget, None, body)
}

/// Like `explore`, restricted to the executions whose first choice is option `first`
/// (`None` = everything; `Some((f, n))` = shard f of n). The union over `f in 0..n` is exactly `explore`;
/// this is how one scenario is sharded over several workers.
pub fn explore_from<B>(budget: u32, first: Option<(u32, u32)>, body: B) -> (ExploreStats, Option<(Vec<u32>, Vec<String>, String)>)
where
    B: FnMut(SharedChooser) -> Result<(), String>,
{
    match first {
        None => explore_shard(budget, &[], 0, body),
        Some((f, n)) => explore_shard(budget, &[f], n, body),
    }
}

/// The executions whose first `shard.len()` choices are `shard` (an execution with fewer choice points belongs to
/// the shard that pads its choices with zeros). Every choice point inside the shard prefix must have at most
/// `width` options. The union over all `shard` in `{0..width}^k` is exactly `explore`: each execution has one
/// padded k-prefix, so it is visited by exactly one shard; forced options that do not exist, or whose cost
/// exceeds the budget, make the shard empty.
pub fn explore_shard<B>(budget: u32, shard: &[u32], width: u32, mut body: B) -> (ExploreStats, Option<(Vec<u32>, Vec<String>, String)>)
where
    B: FnMut(SharedChooser) -> Result<(), String>,
{
    let mut stats = ExploreStats::default();
    let mut stack: Vec<Vec<u32>> = vec![shard.to_vec()];
    let mut failure = None;
    let mut root = true;
    while let Some(prefix) = stack.pop() {
        let mut plen = prefix.len();
        let mut c = Chooser::new(prefix);
        if root {
            c.tolerate_infeasible_upto = shard.len();
        }
        let ch = Rc::new(RefCell::new(c));
        let r = body(ch.clone());
        let ch = ch.borrow();
        if root && !shard.is_empty() {
            let m = shard.len().min(ch.trace.len());
            for c in &ch.trace[..m] {
                assert!(c.arity <= width, "a choice inside the shard prefix has {} options but the exploration is split {}-ways per level", c.arity, width);
            }
            let forced_cost: u32 = ch.trace[..m].iter().map(|c| c.costs[c.taken as usize] as u32).sum();
            let bogus = ch.infeasible || shard[m..].iter().any(|x| *x != 0) || forced_cost > budget;
            if bogus {
                return (stats, None);
            }
            plen = m;
        }
        root = false;
        assert!(ch.trace.len() >= plen, "replay divergence: execution ended after {} choices, prefix has {}", ch.trace.len(), plen);
        stats.executions += 1;
        stats.choice_points += ch.trace.len() as u64;
        stats.max_trace_len = stats.max_trace_len.max(ch.trace.len());
        stats.max_spent = stats.max_spent.max(ch.spent);
        if let Err(e) = r {
            if failure.is_none() {
                failure = Some((ch.choices(), ch.describe(), e));
            }
            // the first failure has the fewest deviations along DFS order; stop.
            break;
        }
        // schedule alternatives at positions >= plen
        let mut cost_before: u32 = ch.trace[..plen].iter().map(|c| c.costs[c.taken as usize] as u32).sum();
        for i in plen..ch.trace.len() {
            let c = &ch.trace[i];
            for alt in 1..c.arity {
                if cost_before + c.costs[alt as usize] as u32 <= budget {
                    let mut p: Vec<u32> = ch.trace[..i].iter().map(|c| c.taken).collect();
                    p.push(alt);
                    stack.push(p);
                }
            }
            cost_before += c.costs[c.taken as usize] as u32;
        }
    }
    (stats, failure)
}

/// Re-run one recorded choice sequence (no exploration).
pub fn replay<B>(choices: &[u32], mut body: B) -> (Vec<String>, Result<(), String>)
where
    B: FnMut(SharedChooser) -> Result<(), String>,
{
    let ch = Rc::new(RefCell::new(Chooser::new(choices.to_vec())));
    let r = body(ch.clone());
    let d = ch.borrow().describe();
    (d, r)
}
