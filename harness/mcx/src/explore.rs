//! Deviation-bounded stateless explorer.
//!
//! A harness body is a deterministic function of the sequence of choices it is
//! given. `explore` runs the body once per complete choice sequence within the
//! deviation budget: decisions inside the replayed prefix are forced, later ones
//! take option 0 (the benign environment answer), and every alternative whose
//! cumulative cost stays within the budget is scheduled as a new prefix. Each
//! complete execution is visited exactly once.

use std::cell::RefCell;
use std::rc::Rc;

#[derive(Debug, Clone)]
pub struct Choice {
    pub label: &'static str,
    pub taken: u32,
    pub arity: u32,
    /// cost of each option (option 0 costs 0); at most MAX_ARITY options
    pub costs: [u8; MAX_ARITY],
}

pub const MAX_ARITY: usize = 40;

#[derive(Debug, Default)]
pub struct Chooser {
    prefix: Vec<u32>,
    pub trace: Vec<Choice>,
    pub spent: u32,
    /// set when the forced prefix asked for an option that does not exist (only legal for
    /// the speculative first choice of a sharded exploration)
    pub infeasible: bool,
    tolerate_infeasible_first: bool,
}

impl Chooser {
    pub fn new(prefix: Vec<u32>) -> Self {
        Chooser { prefix, trace: Vec::new(), spent: 0, infeasible: false, tolerate_infeasible_first: false }
    }

    /// Take a decision among `costs.len()` options. `costs[0]` must be 0.
    pub fn choose(&mut self, label: &'static str, costs: &[u8]) -> usize {
        assert!(!costs.is_empty() && costs[0] == 0, "option 0 must exist and be free");
        assert!(costs.len() <= MAX_ARITY, "too many options at one choice point");
        let i = self.trace.len();
        let taken = if i < self.prefix.len() {
            let t = self.prefix[i];
            if t as usize >= costs.len() && i == 0 && self.tolerate_infeasible_first {
                self.infeasible = true;
                0
            } else if t as usize >= costs.len() {
                panic!("replay divergence at choice #{} ({}): prefix wants option {} of {}", i, label, t, costs.len());
            } else {
                t
            }
        } else {
            0
        };
        self.spent += costs[taken as usize] as u32;
        let mut c = [0u8; MAX_ARITY];
        c[..costs.len()].copy_from_slice(costs);
        self.trace.push(Choice { label, taken, arity: costs.len() as u32, costs: c });
        taken as usize
    }

    pub fn choices(&self) -> Vec<u32> {
        self.trace.iter().map(|c| c.taken).collect()
    }

    pub fn describe(&self) -> Vec<String> {
        self.trace.iter().enumerate().map(|(i, c)| format!("#{} {}: option {} of {}", i, c.label, c.taken, c.arity)).collect()
    }
}

pub type SharedChooser = Rc<RefCell<Chooser>>;

#[derive(Debug, Default, Clone, Copy)]
pub struct ExploreStats {
    pub executions: u64,
    pub choice_points: u64,
    pub max_trace_len: usize,
    pub max_spent: u32,
}

/// Explore every execution of `body` within `budget` deviations.
/// `body` receives a fresh chooser; it returns `Err(description)` on an oracle failure.
/// Returns the statistics and the first failure (choices, description) if any.
/// `on_exec` is called after every execution (for outcome histograms / state hashing).
pub fn explore<B>(budget: u32, body: B) -> (ExploreStats, Option<(Vec<u32>, Vec<String>, String)>)
where
    B: FnMut(SharedChooser) -> Result<(), String>,
{
    explore_from(budget, None, body)
}

/// Like `explore`, restricted to the executions whose first choice is option `first`
/// (`None` = everything; `Some((f, n))` = shard f of n). The union over `f in 0..n` is exactly `explore`;
/// this is how one scenario is sharded over several workers.
pub fn explore_from<B>(budget: u32, first: Option<(u32, u32)>, mut body: B) -> (ExploreStats, Option<(Vec<u32>, Vec<String>, String)>)
where
    B: FnMut(SharedChooser) -> Result<(), String>,
{
    let mut stats = ExploreStats::default();
    let mut stack: Vec<Vec<u32>> = vec![match first {
        None => vec![],
        Some((f, _)) => vec![f],
    }];
    let mut failure = None;
    let mut root = true;
    while let Some(prefix) = stack.pop() {
        let plen = prefix.len();
        let mut c = Chooser::new(prefix);
        c.tolerate_infeasible_first = root && first.is_some();
        let ch = Rc::new(RefCell::new(c));
        let r = body(ch.clone());
        let ch = ch.borrow();
        if root && first.is_some() {
            // the speculative first option may not exist, may be over budget, or the execution
            // may have no choice point at all (then only shard 0 owns it)
            let (f, nshards) = first.unwrap();
            if !ch.trace.is_empty() {
                assert!(ch.trace[0].arity <= nshards, "first choice has {} options but the exploration is split into {} shards", ch.trace[0].arity, nshards);
            }
            let bogus = ch.infeasible
                || (ch.trace.is_empty() && f != 0)
                || (!ch.trace.is_empty() && ch.trace[0].costs[ch.trace[0].taken as usize] as u32 > budget);
            if bogus {
                return (stats, None);
            }
        }
        // an execution without any choice point belongs to shard 0
        let plen = if root && ch.trace.is_empty() { 0 } else { plen };
        root = false;
        assert!(ch.trace.len() >= plen, "replay divergence: execution ended after {} choices, prefix has {}", ch.trace.len(), plen);
        stats.executions += 1;
        stats.choice_points += ch.trace.len() as u64;
        stats.max_trace_len = stats.max_trace_len.max(ch.trace.len());
        stats.max_spent = stats.max_spent.max(ch.spent);
        if let Err(e) = r {
            if failure.is_none() {
                failure = Some((ch.choices(), ch.describe(), e));
            }
            // keep exploring siblings? no: the first failure has the fewest deviations along DFS order; stop.
            break;
        }
        // schedule alternatives at positions >= plen
        let mut cost_before: u32 = ch.trace[..plen].iter().map(|c| c.costs[c.taken as usize] as u32).sum();
        for i in plen..ch.trace.len() {
            let c = &ch.trace[i];
            for alt in 1..c.arity {
                if cost_before + c.costs[alt as usize] as u32 <= budget {
                    let mut p: Vec<u32> = ch.trace[..i].iter().map(|c| c.taken).collect();
                    p.push(alt);
                    stack.push(p);
                }
            }
            cost_before += c.costs[c.taken as usize] as u32;
        }
    }
    (stats, failure)
}

/// Re-run one recorded choice sequence (no exploration).
pub fn replay<B>(choices: &[u32], mut body: B) -> (Vec<String>, Result<(), String>)
where
    B: FnMut(SharedChooser) -> Result<(), String>,
{
    let ch = Rc::new(RefCell::new(Chooser::new(choices.to_vec())));
    let r = body(ch.clone());
    let d = ch.borrow().describe();
    (d, r)
}
