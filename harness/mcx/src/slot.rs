//! Per-worker "current case" slots shared between workers, the watchdog and the
//! allocator's emergency path. A worker copies (a prefix of) its current input
//! into its slot before calling into the subject; the copy is read by another
//! thread only when the worker is stuck (hang verdict) or by the worker itself
//! (allocation cap), so the unsynchronised buffer is never read while written.

use std::cell::{Cell, UnsafeCell};
use std::sync::atomic::{AtomicBool, AtomicU64, AtomicUsize, Ordering};

pub const NSLOTS: usize = 64;
pub const CASE_MAX: usize = 160;

pub struct Slot {
    pub beat: AtomicU64,
    pub active: AtomicBool,
    pub len: AtomicUsize,
    pub full_len: AtomicUsize,
    pub op_ptr: AtomicUsize,
    pub op_len: AtomicUsize,
    buf: UnsafeCell<[u8; CASE_MAX]>,
}

unsafe impl Sync for Slot {}

#[allow(clippy::declare_interior_mutable_const)]
const EMPTY: Slot = Slot {
    beat: AtomicU64::new(0),
    active: AtomicBool::new(false),
    len: AtomicUsize::new(0),
    full_len: AtomicUsize::new(0),
    op_ptr: AtomicUsize::new(0),
    op_len: AtomicUsize::new(0),
    buf: UnsafeCell::new([0; CASE_MAX]),
};

pub static SLOTS: [Slot; NSLOTS] = [EMPTY; NSLOTS];

thread_local! {
    static MY: Cell<usize> = const { Cell::new(NSLOTS - 1) };
}

pub fn bind(worker: usize) {
    assert!(worker < NSLOTS - 1);
    MY.with(|m| m.set(worker));
    SLOTS[worker].active.store(true, Ordering::SeqCst);
}

pub fn unbind() {
    let i = MY.with(|m| m.get());
    SLOTS[i].active.store(false, Ordering::SeqCst);
}

pub fn my_index() -> usize {
    MY.try_with(|m| m.get()).unwrap_or(NSLOTS - 1)
}

/// Record the case the calling worker is about to run and bump its heartbeat.
#[inline]
pub fn case(op: &'static str, input: &[u8]) {
    let s = &SLOTS[my_index()];
    let n = input.len().min(CASE_MAX);
    unsafe {
        std::ptr::copy_nonoverlapping(input.as_ptr(), (*s.buf.get()).as_mut_ptr(), n);
    }
    s.len.store(n, Ordering::Relaxed);
    s.full_len.store(input.len(), Ordering::Relaxed);
    s.op_ptr.store(op.as_ptr() as usize, Ordering::Relaxed);
    s.op_len.store(op.len(), Ordering::Relaxed);
    s.beat.fetch_add(1, Ordering::Relaxed);
}

/// Bump the heartbeat without changing the case.
#[inline]
pub fn beat() {
    SLOTS[my_index()].beat.fetch_add(1, Ordering::Relaxed);
}

/// Read a slot's case (op name, input prefix, full input length). Racy by design; see module docs.
pub fn read(i: usize) -> (&'static str, Vec<u8>, usize) {
    let s = &SLOTS[i];
    let n = s.len.load(Ordering::Relaxed).min(CASE_MAX);
    let mut v = vec![0u8; n];
    unsafe {
        std::ptr::copy_nonoverlapping((*s.buf.get()).as_ptr(), v.as_mut_ptr(), n);
    }
    let op = unsafe {
        let p = s.op_ptr.load(Ordering::Relaxed) as *const u8;
        let l = s.op_len.load(Ordering::Relaxed);
        if p.is_null() { "" } else { std::str::from_utf8_unchecked(std::slice::from_raw_parts(p, l)) }
    };
    (op, v, s.full_len.load(Ordering::Relaxed))
}

/// Raw access for the allocator's no-allocation emergency path.
pub fn read_raw(i: usize, out: &mut [u8; CASE_MAX]) -> (usize, *const u8, usize) {
    let s = &SLOTS[i];
    let n = s.len.load(Ordering::Relaxed).min(CASE_MAX);
    unsafe {
        std::ptr::copy_nonoverlapping((*s.buf.get()).as_ptr(), out.as_mut_ptr(), n);
    }
    (n, s.op_ptr.load(Ordering::Relaxed) as *const u8, s.op_len.load(Ordering::Relaxed))
}
