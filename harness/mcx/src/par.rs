//! Parallel sharding with a hang watchdog.

use crate::slot;
use std::sync::atomic::{AtomicBool, AtomicUsize, Ordering};
use std::sync::Arc;
use std::time::{Duration, Instant};

pub fn threads() -> usize {
    std::env::var("VERIF_THREADS").ok().and_then(|s| s.parse().ok()).unwrap_or_else(|| {
        std::thread::available_parallelism().map(|n| n.get()).unwrap_or(4).min(16)
    })
}

/// Seconds without a heartbeat after which a worker's current case is declared a hang.
pub fn hang_secs() -> u64 {
    std::env::var("VERIF_HANG_SECS").ok().and_then(|s| s.parse().ok()).unwrap_or(20)
}

/// Run `f(shard)` for every shard in `0..shards` on a pool of worker threads.
/// Shard-to-worker assignment is dynamic, the set of shards is not: results do not depend on it.
/// `on_hang(op, input_prefix, full_len)` is called by the watchdog when one case made no progress
/// for `hang_secs()`; it must report the verdict and terminate the process.
pub fn run_shards<F, H>(shards: usize, f: F, on_hang: H)
where
    F: Fn(usize) + Sync,
    H: Fn(&'static str, Vec<u8>, usize) + Send + Sync + 'static,
{
    let nthreads = threads().min(shards.max(1)).min(slot::NSLOTS - 2);
    let next = AtomicUsize::new(0);
    let done = Arc::new(AtomicBool::new(false));
    let wd_done = done.clone();
    let limit = hang_secs();
    let wd = std::thread::spawn(move || {
        let mut last: Vec<(u64, Instant)> = (0..slot::NSLOTS).map(|i| (slot::SLOTS[i].beat.load(Ordering::Relaxed), Instant::now())).collect();
        while !wd_done.load(Ordering::SeqCst) {
            std::thread::sleep(Duration::from_millis(250));
            for i in 0..slot::NSLOTS {
                let s = &slot::SLOTS[i];
                if !s.active.load(Ordering::SeqCst) {
                    last[i].1 = Instant::now();
                    continue;
                }
                let b = s.beat.load(Ordering::Relaxed);
                if b != last[i].0 {
                    last[i] = (b, Instant::now());
                } else if last[i].1.elapsed().as_secs() >= limit {
                    let (op, input, full) = slot::read(i);
                    on_hang(op, input, full);
                    std::process::exit(1);
                }
            }
        }
    });
    std::thread::scope(|sc| {
        for w in 0..nthreads {
            let next = &next;
            let f = &f;
            sc.spawn(move || {
                slot::bind(w);
                loop {
                    let s = next.fetch_add(1, Ordering::SeqCst);
                    if s >= shards {
                        break;
                    }
                    slot::beat();
                    f(s);
                }
                slot::unbind();
            });
        }
    });
    done.store(true, Ordering::SeqCst);
    let _ = wd.join();
}

/// Install a panic hook that stays silent for panics caught by `guard` (subject panics are
/// verdicts reported by the checks, not console noise) but still prints harness panics.
pub fn quiet_panics() {
    let default = std::panic::take_hook();
    std::panic::set_hook(Box::new(move |info| {
        if IN_GUARD.with(|g| g.get()) {
            return;
        }
        let (op, input, len) = slot::read(slot::my_index());
        *LAST_PANIC.lock().unwrap_or_else(|e| e.into_inner()) = Some((format!("{}", info), op.to_string(), input, len));
        default(info)
    }));
}

/// The last panic that was not caught by `guard` (message, current op, current input prefix, input length).
pub static LAST_PANIC: std::sync::Mutex<Option<(String, String, Vec<u8>, usize)>> = std::sync::Mutex::new(None);

thread_local! {
    static IN_GUARD: std::cell::Cell<bool> = const { std::cell::Cell::new(false) };
}

/// Call into the subject; a panic becomes `Err(message)`.
#[inline]
pub fn guard<R>(f: impl FnOnce() -> R) -> Result<R, String> {
    IN_GUARD.with(|g| g.set(true));
    let r = std::panic::catch_unwind(std::panic::AssertUnwindSafe(f));
    IN_GUARD.with(|g| g.set(false));
    r.map_err(|e| {
        if let Some(s) = e.downcast_ref::<&str>() {
            s.to_string()
        } else if let Some(s) = e.downcast_ref::<String>() {
            s.clone()
        } else {
            "panic (non-string payload)".to_string()
        }
    })
}
