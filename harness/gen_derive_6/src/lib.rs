//! One shard of the derived types generated from the schema grammar (see ../gen_derive_common/build_common.rs).
#[allow(warnings)]
mod generated {
    include!(concat!(env!("OUT_DIR"), "/generated.rs"));
}
pub use generated::entries;
