include!("../gen_derive_common/build_common.rs");
