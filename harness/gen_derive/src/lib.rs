//! All generated derive types: the union of the shard crates' entry tables, indexed by schema id.
pub const THOROUGH: bool = cfg!(feature = "thorough");

/// Entry for every schema id (helpers are served by shard 0).
pub fn entries() -> Vec<derive_rt::Entry> {
    let mut v: Vec<derive_rt::Entry> = Vec::new();
    v.extend(gen_derive_0::entries());
    v.extend(gen_derive_1::entries());
    v.extend(gen_derive_2::entries());
    v.extend(gen_derive_3::entries());
    v.extend(gen_derive_4::entries());
    v.extend(gen_derive_5::entries());
    v.extend(gen_derive_6::entries());
    v.extend(gen_derive_7::entries());
    v.sort_by_key(|e| e.id);
    v
}
