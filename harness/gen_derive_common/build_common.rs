// Shared build script of the gen_derive_<k> shard crates: emits the derived types for the
// helper schemas plus this shard's share of `refmodel::schema::enumerate_schemas`.
use std::io::Write;

const SHARDS: usize = 8;

fn main() {
    let name = std::env::var("CARGO_PKG_NAME").unwrap();
    let shard: usize = name.rsplit('_').next().unwrap().parse().unwrap();
    let thorough = std::env::var("CARGO_FEATURE_THOROUGH").is_ok();
    let all = refmodel::schema::enumerate_schemas(thorough);
    let src = refmodel::schema::emit_rust(&all, shard, SHARDS);
    let out = std::path::PathBuf::from(std::env::var("OUT_DIR").unwrap()).join("generated.rs");
    std::fs::File::create(&out).unwrap().write_all(src.as_bytes()).unwrap();
    println!("cargo::rerun-if-changed=build.rs");
    println!("cargo::rerun-if-changed=../gen_derive_common/build_common.rs");
    println!("cargo::rerun-if-changed=../refmodel/src/schema.rs");
}
