//! The family of serde-derived types for C17 / C18: every `Wrapper<Leaf>` instantiation
//! over 13 wrapper shapes (incl. all four enum representations and flatten) and ~25 leaf
//! types, with small exhaustive value domains; plus the shared-data-model types of C18.

pub mod refser;

use refmodel::enumerate::deviations_up_to_ex;
use refmodel::*;
use serde::de::DeserializeOwned;
use serde::{Deserialize, Serialize};
use std::collections::BTreeMap;
use std::fmt::Debug;

/// Receives the results.
pub trait Sink {
    /// `known_key`: candidate key of a recorded finding (only for the exact recorded behaviour)
    fn fail(&mut self, sub: &str, known_key: Option<String>, wrapper: &str, leaf: &str, value: String, input_hex: String, detail: String);
    fn count(&mut self, sub: &str, wrapper: &str, leaf: &str, evals: u64, ok: u64);
}

// ---- leaves ---------------------------------------------------------------------------------

/// byte buffer that goes through serialize_bytes / deserialize_byte_buf
#[derive(Debug, Clone, PartialEq)]
pub struct ByteBuf(pub Vec<u8>);

impl Serialize for ByteBuf {
    fn serialize<S: serde::Serializer>(&self, s: S) -> Result<S::Ok, S::Error> {
        s.serialize_bytes(&self.0)
    }
}
impl<'de> Deserialize<'de> for ByteBuf {
    fn deserialize<D: serde::Deserializer<'de>>(d: D) -> Result<Self, D::Error> {
        struct V;
        impl<'de> serde::de::Visitor<'de> for V {
            type Value = ByteBuf;
            fn expecting(&self, f: &mut std::fmt::Formatter) -> std::fmt::Result {
                f.write_str("bytes")
            }
            fn visit_bytes<E: serde::de::Error>(self, v: &[u8]) -> Result<ByteBuf, E> {
                Ok(ByteBuf(v.to_vec()))
            }
            fn visit_byte_buf<E: serde::de::Error>(self, v: Vec<u8>) -> Result<ByteBuf, E> {
                Ok(ByteBuf(v))
            }
        }
        d.deserialize_byte_buf(V)
    }
}

/// f32 / f64 compared by bit pattern (NaN payloads and the sign of zero are part of the value)
#[derive(Debug, Clone, Copy, Serialize, Deserialize)]
#[serde(transparent)]
pub struct F32Bits(pub f32);
impl PartialEq for F32Bits {
    fn eq(&self, o: &Self) -> bool {
        self.0.to_bits() == o.0.to_bits()
    }
}
#[derive(Debug, Clone, Copy, Serialize, Deserialize)]
#[serde(transparent)]
pub struct F64Bits(pub f64);
impl PartialEq for F64Bits {
    fn eq(&self, o: &Self) -> bool {
        self.0.to_bits() == o.0.to_bits()
    }
}

#[derive(Debug, Clone, PartialEq, Serialize, Deserialize)]
pub struct UnitStruct;
/// Nesting as deep as one likes: sequences in sequences ..
#[derive(Debug, Clone, PartialEq, Serialize, Deserialize)]
pub struct DeepSeq(pub Vec<DeepSeq>);
/// .. and maps in maps.
#[derive(Debug, Clone, PartialEq, Serialize, Deserialize)]
pub struct DeepMap {
    pub next: Option<Box<DeepMap>>,
}
impl DeepSeq {
    pub fn nest(depth: usize) -> Self {
        let mut v = DeepSeq(vec![]);
        for _ in 0..depth {
            v = DeepSeq(vec![v]);
        }
        v
    }
}
impl DeepMap {
    pub fn nest(depth: usize) -> Self {
        let mut v = DeepMap { next: None };
        for _ in 0..depth {
            v = DeepMap { next: Some(Box::new(v)) };
        }
        v
    }
}
impl<C> minicbor::Encode<C> for DeepSeq {
    fn encode<W: minicbor::encode::Write>(&self, e: &mut minicbor::Encoder<W>, ctx: &mut C) -> Result<(), minicbor::encode::Error<W::Error>> {
        e.encode_with(&self.0, ctx)?.ok()
    }
}
impl<'b, C> minicbor::Decode<'b, C> for DeepSeq {
    fn decode(d: &mut minicbor::Decoder<'b>, ctx: &mut C) -> Result<Self, minicbor::decode::Error> {
        d.decode_with(ctx).map(DeepSeq)
    }
}
/// A tuple struct without fields: `deserialize_tuple_struct(_, 0, _)`.
#[derive(Debug, Clone, PartialEq, Serialize, Deserialize)]
pub struct TupleS0();

/// sequence serialised without a known length (-> indefinite array)
#[derive(Debug, Clone, PartialEq)]
pub struct IterSeq(pub Vec<u8>);

impl Serialize for IterSeq {
    fn serialize<S: serde::Serializer>(&self, s: S) -> Result<S::Ok, S::Error> {
        // filter() has no exact size hint: collect_seq passes None
        s.collect_seq(self.0.iter().filter(|_| true))
    }
}
impl<'de> Deserialize<'de> for IterSeq {
    fn deserialize<D: serde::Deserializer<'de>>(d: D) -> Result<Self, D::Error> {
        Vec::<u8>::deserialize(d).map(IterSeq)
    }
}

/// map serialised with serialize_map(None) (-> indefinite map)
#[derive(Debug, Clone, PartialEq)]
pub struct MapNone(pub BTreeMap<String, u8>);

impl Serialize for MapNone {
    fn serialize<S: serde::Serializer>(&self, s: S) -> Result<S::Ok, S::Error> {
        use serde::ser::SerializeMap;
        let mut m = s.serialize_map(None)?;
        for (k, v) in &self.0 {
            m.serialize_entry(k, v)?;
        }
        m.end()
    }
}
impl<'de> Deserialize<'de> for MapNone {
    fn deserialize<D: serde::Deserializer<'de>>(d: D) -> Result<Self, D::Error> {
        BTreeMap::<String, u8>::deserialize(d).map(MapNone)
    }
}

// ---- wrappers -------------------------------------------------------------------------------

#[derive(Debug, Clone, PartialEq, Serialize, Deserialize)]
pub struct Newtype<L>(pub L);

#[derive(Debug, Clone, PartialEq, Serialize, Deserialize)]
pub struct TupleS<L>(pub L, pub u8);

#[derive(Debug, Clone, PartialEq, Serialize, Deserialize)]
pub struct Named<L> {
    pub a: L,
}

#[derive(Debug, Clone, PartialEq, Serialize, Deserialize)]
pub struct Two<L> {
    pub a: L,
    pub b: u16,
}

#[derive(Debug, Clone, PartialEq, Serialize, Deserialize)]
pub enum Ext<L> {
    Unit,
    New(L),
    Tup(L, u8),
    Str { a: L },
}

#[derive(Debug, Clone, PartialEq, Serialize, Deserialize)]
#[serde(tag = "t")]
pub enum Int<L> {
    Unit,
    Str { a: L },
    New(Named<L>),
}

#[derive(Debug, Clone, PartialEq, Serialize, Deserialize)]
#[serde(tag = "t", content = "c")]
pub enum Adj<L> {
    Unit,
    New(L),
    Tup(L, u8),
    Str { a: L },
}

#[derive(Debug, Clone, PartialEq, Serialize, Deserialize)]
#[serde(untagged)]
pub enum Unt<L> {
    Str { a: L, z: bool },
    Tup(L, bool, bool),
}

#[derive(Debug, Clone, PartialEq, Serialize, Deserialize)]
pub struct Flat<L> {
    #[serde(flatten)]
    pub inner: Named<L>,
    pub z: u8,
}

#[derive(Debug, Clone, PartialEq, Serialize, Deserialize)]
pub struct Dflt<L> {
    pub a: L,
    #[serde(default)]
    pub d: u8,
    #[serde(skip)]
    pub s: u8,
}

// ---- the generic check ----------------------------------------------------------------------

#[derive(Clone, Copy, PartialEq)]
pub enum Reframe {
    /// only head widths may change
    Widths,
    /// the top-level container may also become indefinite, and (for maps) get an unknown extra entry
    TopContainer,
}

fn check_type<T>(sink: &mut dyn Sink, wrapper: &str, leaf: &str, values: Vec<T>, reframe: Reframe, buffered: bool)
where
    T: Serialize + DeserializeOwned + PartialEq + Debug,
{
    let sub = "wrapper-x-leaf";
    let mut evals = 0u64;
    let mut ok = 0u64;
    // leaves whose documented representation serde's buffered Content path cannot read back
    let lossy_leaf = matches!(leaf, "char" | "()" | "UnitStruct");
    for v in &values {
        let shown: String = format!("{:?}", v).chars().take(120).collect();
        let bytes = match minicbor_serde::to_vec(v) {
            Ok(b) => b,
            Err(e) => {
                sink.fail(sub, None, wrapper, leaf, shown, String::new(), format!("serialisation failed: {}", e));
                continue;
            }
        };
        evals += 1;
        // (i) representation
        let want = match refser::to_item(v) {
            Ok(i) => i,
            Err(e) => {
                sink.fail(sub, None, wrapper, leaf, shown, hex(&bytes), format!("reference serializer failed: {}", e));
                continue;
            }
        };
        let item = match parse(&bytes) {
            Ok((i, u)) if u == bytes.len() => i,
            o => {
                sink.fail(sub, None, wrapper, leaf, shown, hex(&bytes), format!("output is not exactly one well-formed item: {:?}", o.map(|x| x.1)));
                continue;
            }
        };
        if bytes != want.to_bytes() {
            sink.fail(sub, None, wrapper, leaf, shown, hex(&bytes), format!("wrote {}, the documented representation is {} = {}", item.diag(), want.diag(), hex(&want.to_bytes())));
            continue;
        }
        // (ii) round trip, also on re-framed input
        let mut inputs: Vec<(Vec<u8>, usize)> = vec![(bytes.clone(), bytes.len())];
        {
            let mut with_suffix = bytes.clone();
            with_suffix.push(0x00);
            inputs.push((with_suffix, bytes.len()));
        }
        // (values of hundreds of nodes: every k-th single deviation, at most ~200 of them)
        let devs = deviations_up_to_ex(&item, 1, true, false, false);
        let step = (devs.len() / 200).max(1);
        for d in devs.into_iter().skip(1).step_by(step) {
            let b = d.to_bytes();
            let l = b.len();
            inputs.push((b, l));
        }
        if reframe == Reframe::TopContainer {
            match &item {
                Item::Array(v, Len::Def(_)) => {
                    let b = Item::Array(v.clone(), Len::Indef).to_bytes();
                    let l = b.len();
                    inputs.push((b, l));
                }
                Item::Map(es, _) => {
                    let b = Item::Map(es.clone(), Len::Indef).to_bytes();
                    let l = b.len();
                    inputs.push((b, l));
                    // unknown extra fields are ignored
                    for pos in [0, es.len()] {
                        let mut e2 = es.clone();
                        e2.insert(pos, (Item::text("zz_unknown"), Item::array(vec![Item::uint(1), Item::Map(vec![], Len::Indef)])));
                        let b = Item::map(e2).to_bytes();
                        let l = b.len();
                        inputs.push((b, l));
                    }
                    // .. whatever they hold: every kind of item must be stepped over
                    let contents = [
                        Item::tag(5, Item::text("x")),
                        Item::Simple(23),
                        Item::Simple(40),
                        Item::Nint(u64::MAX, W::W8),
                        Item::f16(0x3c00),
                        Item::Bytes(vec![1, 2], StrForm::Indef(vec![(1, W::Imm), (1, W::Imm)])),
                        Item::tag(u64::MAX, Item::Array(vec![Item::Simple(22)], Len::Indef)),
                    ];
                    for c in contents {
                        let mut e2 = es.clone();
                        e2.insert(0, (Item::text("zz_unknown"), c));
                        let b = Item::map(e2).to_bytes();
                        let l = b.len();
                        inputs.push((b, l));
                    }
                }
                _ => {}
            }
        }
        // inputs for which the bridge may refuse (indefinite tuples / enum maps) but must never return
        // another value: everything indefinite, and every combination of two indefinite containers
        let mut lenient: Vec<Vec<u8>> = vec![all_indefinite(&item).to_bytes()];
        let devs = deviations_up_to_ex(&item, if item.nodes() > 64 { 1 } else { 2 }, false, true, false);
        let step = if item.nodes() > 64 { (devs.len() / 200).max(1) } else { 1 };
        for d in devs.into_iter().skip(1).step_by(step) {
            lenient.push(d.to_bytes());
        }
        for input in lenient {
            evals += 1;
            let mut de = minicbor_serde::Deserializer::new(&input);
            if let Ok(back) = T::deserialize(&mut de) {
                let pos = de.decoder().position();
                if back != *v {
                    sink.fail(sub, None, wrapper, leaf, shown.clone(), hex(&input), format!("an indefinite-length re-framing deserialised to a different value {:?}", back));
                } else if pos != input.len() {
                    sink.fail(sub, None, wrapper, leaf, shown.clone(), hex(&input), format!("an indefinite-length re-framing deserialised to the right value but consumed {} of {} bytes", pos, input.len()));
                }
            }
        }
        let mut all_ok = true;
        for (input, item_len) in inputs {
            evals += 1;
            let mut de = minicbor_serde::Deserializer::new(&input);
            let r = T::deserialize(&mut de);
            let pos = de.decoder().position();
            match r {
                Ok(back) => {
                    if back != *v {
                        sink.fail(sub, None, wrapper, leaf, shown.clone(), hex(&input), format!("deserialised to {:?}", back));
                        all_ok = false;
                    } else if pos != item_len {
                        sink.fail(sub, None, wrapper, leaf, shown.clone(), hex(&input), format!("deserialised the right value but consumed {} of {} bytes", pos, item_len));
                        all_ok = false;
                    } else if minicbor_serde::to_vec(&back).ok().as_deref() != Some(&bytes[..]) {
                        sink.fail(sub, None, wrapper, leaf, shown.clone(), hex(&input), "the deserialised value serialises differently (not bit-identical)".to_string());
                        all_ok = false;
                    }
                }
                Err(e) => {
                    let key = if buffered && lossy_leaf { Some(format!("serde-{}-{}", wrapper, leaf)) } else { None };
                    sink.fail(sub, key, wrapper, leaf, shown.clone(), hex(&input), format!("deserialising the serialised value failed: {}", e));
                    all_ok = false;
                }
            }
        }
        if all_ok {
            // (iii) the value inside a stream of items: the Serializer / Deserializer built from a native Encoder /
            // Decoder that has already written / read something, and turned back into one
            evals += 1;
            let stream = {
                let mut e = minicbor::Encoder::new(Vec::new());
                e.u8(5).unwrap();
                let mut ser = minicbor_serde::Serializer::from(e);
                let r1 = v.serialize(&mut ser).is_ok();
                let mut e = ser.into_encoder();
                e.u8(6).unwrap();
                let mut ser = minicbor_serde::Serializer::new(e.into_writer());
                let r2 = v.serialize(&mut ser).is_ok();
                if r1 && r2 { Some(ser.into_encoder().into_writer()) } else { None }
            };
            let mut want = vec![0x05];
            want.extend_from_slice(&bytes);
            want.push(0x06);
            want.extend_from_slice(&bytes);
            match stream {
                Some(s) if s == want => {}
                other => {
                    sink.fail(sub, None, wrapper, leaf, shown.clone(), hex(&want), format!("Serializer::from(encoder) / Serializer::new(writer) inside a stream wrote {:?}", other.map(|b| hex(&b))));
                    all_ok = false;
                }
            }
            let verdict: Result<(), String> = (|| {
                let mut d = minicbor::Decoder::new(&want);
                d.u8().map_err(|e| e.to_string())?;
                let mut de = minicbor_serde::Deserializer::from(d);
                let a = T::deserialize(&mut de).map_err(|e| format!("first value: {}", e))?;
                if a != *v {
                    return Err(format!("first value deserialised to {:?}", a));
                }
                let mut d = de.into_decoder();
                if d.position() != 1 + bytes.len() {
                    return Err(format!("into_decoder() after the first value is at {} instead of {}", d.position(), 1 + bytes.len()));
                }
                d.u8().map_err(|e| e.to_string())?;
                let mut de = minicbor_serde::Deserializer::from(d);
                let b = T::deserialize(&mut de).map_err(|e| format!("second value: {}", e))?;
                if b != *v {
                    return Err(format!("second value deserialised to {:?}", b));
                }
                if de.decoder().position() != want.len() {
                    return Err(format!("after the second value the position is {} of {}", de.decoder().position(), want.len()));
                }
                Ok(())
            })();
            if let Err(msg) = verdict {
                sink.fail(sub, None, wrapper, leaf, shown.clone(), hex(&want), format!("Deserializer::from(decoder) in the middle of a stream [5, v, 6, v]: {}", msg));
                all_ok = false;
            }
        }
        if all_ok {
            ok += 1;
        }
    }
    sink.count(sub, wrapper, leaf, evals, ok);
}

/// Instantiate every wrapper over one leaf type.
fn all_wrappers<L>(sink: &mut dyn Sink, leaf: &str, d: Vec<L>)
where
    L: Serialize + DeserializeOwned + PartialEq + Debug + Clone,
{
    wrappers(sink, leaf, d, true)
}

/// `buffered_too == false` leaves out the wrappers that serde deserialises through its private `Content`
/// buffer (internally tagged, untagged, flatten): serde's ContentDeserializer always claims to be
/// human-readable, so types that branch on is_human_readable() cannot round-trip there with *any*
/// compact format - a property of serde, not of the bridge.
fn wrappers<L>(sink: &mut dyn Sink, leaf: &str, d: Vec<L>, buffered_too: bool)
where
    L: Serialize + DeserializeOwned + PartialEq + Debug + Clone,
{
    let first = d[0].clone();
    check_type::<L>(sink, "identity", leaf, d.clone(), Reframe::Widths, false);
    check_type(sink, "newtype-struct", leaf, d.iter().cloned().map(Newtype).collect(), Reframe::Widths, false);
    check_type(sink, "tuple-struct", leaf, d.iter().cloned().map(|x| TupleS(x, 7)).collect(), Reframe::Widths, false);
    check_type(sink, "struct", leaf, d.iter().cloned().map(|a| Named { a }).collect(), Reframe::TopContainer, false);
    check_type(sink, "struct2", leaf, d.iter().cloned().map(|a| Two { a, b: 300 }).collect(), Reframe::TopContainer, false);
    check_type(sink, "option", leaf, d.iter().cloned().map(|x| Some(Newtype(x))).chain([None]).collect::<Vec<Option<Newtype<L>>>>(), Reframe::Widths, false);
    check_type(sink, "vec", leaf, vec![vec![], vec![first.clone()], d.clone()], Reframe::TopContainer, false);
    let mut ext = vec![Ext::Unit];
    let mut int = vec![Int::Unit];
    let mut adj = vec![Adj::Unit];
    let mut unt = vec![];
    for x in &d {
        ext.extend([Ext::New(x.clone()), Ext::Tup(x.clone(), 1), Ext::Str { a: x.clone() }]);
        int.extend([Int::Str { a: x.clone() }, Int::New(Named { a: x.clone() })]);
        adj.extend([Adj::New(x.clone()), Adj::Tup(x.clone(), 1), Adj::Str { a: x.clone() }]);
        unt.extend([Unt::Str { a: x.clone(), z: true }, Unt::Tup(x.clone(), false, true)]);
    }
    check_type(sink, "enum-external", leaf, ext, Reframe::Widths, false);
    check_type(sink, "enum-adjacent", leaf, adj, Reframe::Widths, false);
    if buffered_too {
        check_type(sink, "enum-internal", leaf, int, Reframe::Widths, true);
        check_type(sink, "enum-untagged", leaf, unt, Reframe::Widths, true);
        check_type(sink, "flatten", leaf, d.iter().cloned().map(|a| Flat { inner: Named { a }, z: 9 }).collect(), Reframe::Widths, true);
    }
    check_type(sink, "default-skip", leaf, d.iter().cloned().map(|a| Dflt { a, d: 5, s: 0 }).collect(), Reframe::TopContainer, false);
}

pub fn run_c17(sink: &mut dyn Sink) {
    all_wrappers(sink, "bool", vec![false, true]);
    all_wrappers(sink, "u8", vec![0u8, 23, 24, 255]);
    all_wrappers(sink, "u16", vec![0u16, 255, 256, 65535]);
    all_wrappers(sink, "u32", vec![0u32, 65535, 65536, u32::MAX]);
    all_wrappers(sink, "u64", vec![0u64, u32::MAX as u64, 1 << 32, u64::MAX]);
    all_wrappers(sink, "i8", vec![0i8, -1, -24, -25, i8::MIN, i8::MAX]);
    all_wrappers(sink, "i16", vec![0i16, -129, -256, -257, i16::MIN, i16::MAX]);
    all_wrappers(sink, "i32", vec![0i32, -65537, i32::MIN, i32::MAX]);
    all_wrappers(sink, "i64", vec![0i64, -(1 << 32) - 1, i64::MIN, i64::MAX]);
    all_wrappers(sink, "f32", vec![0.0f32, -0.0, 1.5, f32::MAX, f32::MIN_POSITIVE, f32::INFINITY]);
    // bit patterns: subnormals, quiet and signalling NaNs with payloads, negative NaN
    all_wrappers(sink, "f32-bits", [0x0000_0001u32, 0x8000_0000, 0x7fc0_0000, 0x7f80_0001, 0xffc0_0001, 0x7fff_ffff, 0x3dcc_cccd].iter().map(|b| F32Bits(f32::from_bits(*b))).collect());
    all_wrappers(sink, "f64-bits", [0x0000_0000_0000_0001u64, 0x8000_0000_0000_0000, 0x7ff8_0000_0000_0000, 0x7ff0_0000_0000_0001, 0xfff8_0000_0000_0001, 0x7fff_ffff_ffff_ffff, 0x3fb9_9999_9999_999a].iter().map(|b| F64Bits(f64::from_bits(*b))).collect());
    all_wrappers(sink, "f64", vec![0.0f64, -0.0, 1.5, f64::MAX, f64::MIN_POSITIVE, f64::NEG_INFINITY]);
    all_wrappers(sink, "char", vec!['\0', 'a', '\u{ff}', '\u{10ffff}']);
    all_wrappers(sink, "String", vec![String::new(), "a".to_string(), "\u{e9}\u{1f600}".to_string(), "x".repeat(24)]);
    all_wrappers(sink, "ByteBuf", vec![ByteBuf(vec![]), ByteBuf(vec![0]), ByteBuf(vec![7; 24])]);
    all_wrappers(sink, "()", vec![()]);
    all_wrappers(sink, "UnitStruct", vec![UnitStruct]);
    all_wrappers(sink, "Option<u8>", vec![Some(5u8), Some(255)]);
    all_wrappers(sink, "Vec<u8>", vec![vec![], vec![1u8], (0..24).collect::<Vec<u8>>()]);
    all_wrappers(sink, "(u8,u16)", vec![(0u8, 0u16), (255, 65535)]);
    all_wrappers(sink, "[u8;3]", vec![[0u8; 3], [1, 24, 255]]);
    all_wrappers(sink, "[u8;0]", vec![[0u8; 0]]);
    all_wrappers(sink, "[u16;1]", vec![[0u16], [65535]]);
    all_wrappers(sink, "TupleS0", vec![TupleS0()]);
    all_wrappers(sink, "BTreeMap<String,u8>", vec![BTreeMap::new(), [("k".to_string(), 1u8)].into_iter().collect(), [("k".to_string(), 1u8), ("l".to_string(), 24)].into_iter().collect()]);
    all_wrappers(sink, "BTreeMap<u8,u8>", vec![BTreeMap::new(), [(1u8, 2u8), (24, 255)].into_iter().collect()]);
    all_wrappers(sink, "IterSeq", vec![IterSeq(vec![]), IterSeq(vec![1, 24])]);
    all_wrappers(sink, "MapNone", vec![MapNone(BTreeMap::new()), MapNone([("k".to_string(), 1u8)].into_iter().collect())]);
    all_wrappers(sink, "Ext<u8>", vec![Ext::Unit, Ext::New(1u8), Ext::Tup(2, 3), Ext::Str { a: 4 }]);
    all_wrappers(sink, "Named<String>", vec![Named { a: String::new() }, Named { a: "v".to_string() }]);
    // second level: wrappers as leaves of every wrapper
    all_wrappers(sink, "Newtype<String>", vec![Newtype(String::new()), Newtype("n".to_string())]);
    all_wrappers(sink, "TupleS<u8>", vec![TupleS(0u8, 7), TupleS(255, 7)]);
    all_wrappers(sink, "Two<Option<u8>>", vec![Two { a: None, b: 300 }, Two { a: Some(24u8), b: 0 }]);
    all_wrappers(sink, "Adj<u8>", vec![Adj::Unit, Adj::New(1u8), Adj::Tup(24, 3), Adj::Str { a: 255 }]);
    all_wrappers(sink, "Int<u8>", vec![Int::Unit, Int::Str { a: 24u8 }, Int::New(Named { a: 255 })]);
    all_wrappers(sink, "Unt<u8>", vec![Unt::Str { a: 24u8, z: false }, Unt::Tup(255, true, false)]);
    all_wrappers(sink, "Flat<u8>", vec![Flat { inner: Named { a: 24u8 }, z: 1 }]);
    all_wrappers(sink, "Dflt<String>", vec![Dflt { a: "d".to_string(), d: 9, s: 0 }]);
    all_wrappers(sink, "Vec<Named<u8>>", vec![vec![], vec![Named { a: 1u8 }, Named { a: 24 }]]);
    all_wrappers(sink, "Vec<Option<u8>>", vec![vec![], vec![None, Some(24u8), None]]);
    all_wrappers(sink, "Option<Ext<u8>>", vec![Some(Ext::Unit), Some(Ext::New(24u8)), Some(Ext::Str { a: 1 })]);
    all_wrappers(sink, "Vec<Ext<String>>", vec![vec![Ext::Unit, Ext::New("x".to_string()), Ext::Tup(String::new(), 2), Ext::Str { a: "y".to_string() }]]);
    all_wrappers(sink, "BTreeMap<String,Named<u8>>", vec![[("k".to_string(), Named { a: 1u8 }), ("l".to_string(), Named { a: 24 })].into_iter().collect::<BTreeMap<String, Named<u8>>>()]);
    all_wrappers(sink, "(Ext<u8>,IterSeq)", vec![(Ext::New(1u8), IterSeq(vec![1, 2])), (Ext::Unit, IterSeq(vec![]))]);
    all_wrappers(sink, "Vec<IterSeq>", vec![vec![IterSeq(vec![]), IterSeq(vec![24]), IterSeq(vec![1, 2])]]);
    all_wrappers(sink, "Named<MapNone>", vec![Named { a: MapNone([("k".to_string(), 1u8)].into_iter().collect()) }]);
    // std types whose serde impls branch on is_human_readable(): both directions of the bridge must agree (compact form)
    wrappers(sink, "Ipv4Addr", vec![std::net::Ipv4Addr::new(0, 0, 0, 0), std::net::Ipv4Addr::new(127, 0, 24, 255)], false);
    wrappers(sink, "IpAddr", vec![std::net::IpAddr::V4(std::net::Ipv4Addr::new(10, 0, 0, 1)), std::net::IpAddr::V6(std::net::Ipv6Addr::LOCALHOST)], false);
    wrappers(sink, "SocketAddrV4", vec![std::net::SocketAddrV4::new(std::net::Ipv4Addr::new(1, 2, 3, 4), 65535)], false);
    wrappers(sink, "HrProbe", vec![HrProbe(0), HrProbe(24)], false);
    // more fixed-size sequences in one document, and deeper nesting, than an 8-bit budget or depth counter holds
    check_type::<Vec<(u16, u16)>>(sink, "identity", "Vec<(u16,u16)> x 255, 256", [255usize, 256].iter().map(|n| (0..*n).map(|i| (i as u16, 65535 - i as u16)).collect()).collect(), Reframe::Widths, false);
    check_type::<Vec<[u8; 2]>>(sink, "identity", "Vec<[u8;2]> x 128, 129", [128usize, 129].iter().map(|n| (0..*n).map(|i| [i as u8, 24]).collect()).collect(), Reframe::Widths, false);
    check_type::<BTreeMap<u16, (u8, TupleS<u8>)>>(sink, "identity", "BTreeMap<u16,(u8,TupleS)> x 130", vec![(0..130u16).map(|i| (i, (i as u8, TupleS(1, 7)))).collect()], Reframe::Widths, false);
    check_type::<DeepSeq>(sink, "identity", "DeepSeq", [129usize, 257].iter().map(|d| DeepSeq::nest(*d)).collect(), Reframe::Widths, false);
    check_type::<DeepMap>(sink, "identity", "DeepMap", [129usize, 257].iter().map(|d| DeepMap::nest(*d)).collect(), Reframe::TopContainer, false);
    borrowed_family(sink);
}

/// A type that serialises differently for human-readable formats, like the std net types do.
#[derive(Debug, Clone, PartialEq)]
pub struct HrProbe(pub u8);

impl Serialize for HrProbe {
    fn serialize<S: serde::Serializer>(&self, s: S) -> Result<S::Ok, S::Error> {
        if s.is_human_readable() {
            s.serialize_str(&format!("hr-{}", self.0))
        } else {
            s.serialize_u8(self.0)
        }
    }
}
impl<'de> Deserialize<'de> for HrProbe {
    fn deserialize<D: serde::Deserializer<'de>>(d: D) -> Result<Self, D::Error> {
        if d.is_human_readable() {
            let s = String::deserialize(d)?;
            s.strip_prefix("hr-").and_then(|n| n.parse().ok()).map(HrProbe).ok_or_else(|| serde::de::Error::custom("bad hr form"))
        } else {
            u8::deserialize(d).map(HrProbe)
        }
    }
}

/// borrowed byte slice that goes through serialize_bytes / deserialize_bytes (visit_borrowed_bytes)
#[derive(Debug, Clone, Copy, PartialEq)]
pub struct BBytes<'a>(pub &'a [u8]);

impl Serialize for BBytes<'_> {
    fn serialize<S: serde::Serializer>(&self, s: S) -> Result<S::Ok, S::Error> {
        s.serialize_bytes(self.0)
    }
}
impl<'de: 'a, 'a> Deserialize<'de> for BBytes<'a> {
    fn deserialize<D: serde::Deserializer<'de>>(d: D) -> Result<Self, D::Error> {
        struct V;
        impl<'de> serde::de::Visitor<'de> for V {
            type Value = BBytes<'de>;
            fn expecting(&self, f: &mut std::fmt::Formatter) -> std::fmt::Result {
                f.write_str("borrowed bytes")
            }
            fn visit_borrowed_bytes<E: serde::de::Error>(self, v: &'de [u8]) -> Result<BBytes<'de>, E> {
                Ok(BBytes(v))
            }
        }
        d.deserialize_bytes(V).map(|b| BBytes(b.0))
    }
}

/// Address ranges of the borrowed parts of a value.
pub trait Borrows {
    fn ranges(&self) -> Vec<(usize, usize)>;
}
impl Borrows for &str {
    fn ranges(&self) -> Vec<(usize, usize)> {
        vec![(self.as_ptr() as usize, self.len())]
    }
}
impl Borrows for BBytes<'_> {
    fn ranges(&self) -> Vec<(usize, usize)> {
        vec![(self.0.as_ptr() as usize, self.0.len())]
    }
}

impl<T: Borrows> Borrows for Option<T> {
    fn ranges(&self) -> Vec<(usize, usize)> {
        self.as_ref().map(|x| x.ranges()).unwrap_or_default()
    }
}
impl<T: Borrows> Borrows for Vec<T> {
    fn ranges(&self) -> Vec<(usize, usize)> {
        self.iter().flat_map(|x| x.ranges()).collect()
    }
}
impl<T: Borrows> Borrows for (T, u8) {
    fn ranges(&self) -> Vec<(usize, usize)> {
        self.0.ranges()
    }
}

/// ties the type of the deserialised value to the type of the original
pub fn tie<T, E>(_: &T, r: Result<T, E>) -> Result<T, E> {
    r
}

/// One borrowed value: documented representation, round trip, exact consumption, and every borrowed part
/// points into the input buffer.
macro_rules! one {
    ($sink:expr, $wrapper:expr, $leaf:expr, $v:expr) => {{
        let sub = "borrowed-wrapper-x-leaf";
        let v = $v;
        let shown: String = format!("{:?}", v).chars().take(120).collect();
        let res: Result<(), (String, String)> = (|| {
            let bytes = minicbor_serde::to_vec(&v).map_err(|e| (String::new(), format!("serialisation failed: {}", e)))?;
            let want = refser::to_item(&v).map(|i| i.to_bytes()).unwrap_or_default();
            if bytes != want {
                return Err((hex(&bytes), format!("the documented representation is {}", hex(&want))));
            }
            let mut input = bytes.clone();
            input.push(0x00);
            let mut de = minicbor_serde::Deserializer::new(&input);
            let back = tie(&v, serde::Deserialize::deserialize(&mut de)).map_err(|e| (hex(&bytes), format!("deserialising the serialised value failed: {}", e)))?;
            let pos = de.decoder().position();
            let start = input.as_ptr() as usize;
            if v != back {
                return Err((hex(&bytes), format!("deserialised to {:?}", back)));
            }
            if pos != bytes.len() {
                return Err((hex(&bytes), format!("deserialised the right value but consumed {} of {} bytes", pos, bytes.len())));
            }
            if !Borrows::ranges(&back).iter().all(|(p, l)| *l == 0 || (*p >= start && p + l <= start + bytes.len())) {
                return Err((hex(&bytes), "borrowed parts do not point into the input".to_string()));
            }
            Ok(())
        })();
        match res {
            Ok(()) => $sink.count(sub, $wrapper, $leaf, 1, 1),
            Err((h, e)) => {
                $sink.fail(sub, None, $wrapper, $leaf, shown, h, e);
                $sink.count(sub, $wrapper, $leaf, 1, 0);
            }
        }
    }};
}

macro_rules! borrowed_wrappers {
    ($modname:ident, $leaf:ty) => {
        pub mod $modname {
            use super::*;
            #[derive(Debug, PartialEq, Serialize, Deserialize)]
            pub struct NewB<'a>(#[serde(borrow)] pub $leaf);
            #[derive(Debug, PartialEq, Serialize, Deserialize)]
            pub struct NamedB<'a> {
                #[serde(borrow)]
                pub a: $leaf,
                pub b: u8,
            }
            #[derive(Debug, PartialEq, Serialize, Deserialize)]
            pub enum ExtB<'a> {
                Unit,
                New(#[serde(borrow)] $leaf),
                Tup(#[serde(borrow)] $leaf, u8),
                Str {
                    #[serde(borrow)]
                    a: $leaf,
                },
            }
            #[derive(Debug, PartialEq, Serialize, Deserialize)]
            #[serde(tag = "t")]
            pub enum IntB<'a> {
                Unit,
                Str {
                    #[serde(borrow)]
                    a: $leaf,
                },
                New(#[serde(borrow)] NamedB<'a>),
            }
            #[derive(Debug, PartialEq, Serialize, Deserialize)]
            #[serde(tag = "t", content = "c")]
            pub enum AdjB<'a> {
                New(#[serde(borrow)] $leaf),
                Str {
                    #[serde(borrow)]
                    a: $leaf,
                },
            }
            #[derive(Debug, PartialEq, Serialize, Deserialize)]
            #[serde(untagged)]
            pub enum UntB<'a> {
                Str {
                    #[serde(borrow)]
                    a: $leaf,
                    z: bool,
                },
                Tup(#[serde(borrow)] $leaf, bool, bool),
            }
            #[derive(Debug, PartialEq, Serialize, Deserialize)]
            pub struct FlatB<'a> {
                #[serde(flatten, borrow)]
                pub inner: NamedB<'a>,
                pub z: u8,
            }
            impl Borrows for NewB<'_> {
                fn ranges(&self) -> Vec<(usize, usize)> {
                    self.0.ranges()
                }
            }
            impl Borrows for NamedB<'_> {
                fn ranges(&self) -> Vec<(usize, usize)> {
                    self.a.ranges()
                }
            }
            impl Borrows for ExtB<'_> {
                fn ranges(&self) -> Vec<(usize, usize)> {
                    match self {
                        ExtB::Unit => vec![],
                        ExtB::New(x) | ExtB::Tup(x, _) | ExtB::Str { a: x } => x.ranges(),
                    }
                }
            }
            impl Borrows for IntB<'_> {
                fn ranges(&self) -> Vec<(usize, usize)> {
                    match self {
                        IntB::Unit => vec![],
                        IntB::Str { a } => a.ranges(),
                        IntB::New(n) => n.ranges(),
                    }
                }
            }
            impl Borrows for AdjB<'_> {
                fn ranges(&self) -> Vec<(usize, usize)> {
                    match self {
                        AdjB::New(x) | AdjB::Str { a: x } => x.ranges(),
                    }
                }
            }
            impl Borrows for UntB<'_> {
                fn ranges(&self) -> Vec<(usize, usize)> {
                    match self {
                        UntB::Str { a, .. } => a.ranges(),
                        UntB::Tup(a, ..) => a.ranges(),
                    }
                }
            }
            impl Borrows for FlatB<'_> {
                fn ranges(&self) -> Vec<(usize, usize)> {
                    self.inner.ranges()
                }
            }
            pub fn run<'a>(sink: &mut dyn Sink, leafname: &str, leaves: &[$leaf]) {
                for l in leaves {
                    let l = *l;
                    one!(sink, "identity", leafname, l);
                    one!(sink, "newtype-struct", leafname, NewB(l));
                    one!(sink, "struct", leafname, NamedB { a: l, b: 24 });
                    one!(sink, "option", leafname, Some(l));
                    one!(sink, "vec", leafname, vec![l, l]);
                    one!(sink, "tuple", leafname, (l, 7u8));
                    one!(sink, "enum-external", leafname, ExtB::New(l));
                    one!(sink, "enum-external", leafname, ExtB::Tup(l, 1));
                    one!(sink, "enum-external", leafname, ExtB::Str { a: l });
                    one!(sink, "enum-internal", leafname, IntB::Str { a: l });
                    one!(sink, "enum-internal", leafname, IntB::New(NamedB { a: l, b: 0 }));
                    one!(sink, "enum-adjacent", leafname, AdjB::New(l));
                    one!(sink, "enum-adjacent", leafname, AdjB::Str { a: l });
                    one!(sink, "enum-untagged", leafname, UntB::Str { a: l, z: true });
                    one!(sink, "enum-untagged", leafname, UntB::Tup(l, false, true));
                    one!(sink, "flatten", leafname, FlatB { inner: NamedB { a: l, b: 3 }, z: 9 });
                }
            }
        }
    };
}

borrowed_wrappers!(bstr, &'a str);
borrowed_wrappers!(bbytes, BBytes<'a>);

fn borrowed_family(sink: &mut dyn Sink) {
    bstr::run(sink, "&str", &["", "a", "\u{e9}\u{1f600}", "xxxxxxxxxxxxxxxxxxxxxxxx"]);
    let b24 = [7u8; 24];
    bbytes::run(sink, "&[u8] (bytes)", &[BBytes(&[]), BBytes(&[0]), BBytes(&b24)]);
}

/// A sequence written with unknown length on both sides (native: ArrayIter over a filter iterator; serde: collect_seq).
#[derive(Debug, Clone, PartialEq)]
pub struct FilterSeq(pub Vec<u8>);
impl<C> minicbor::Encode<C> for FilterSeq {
    fn encode<W: minicbor::encode::Write>(&self, e: &mut minicbor::Encoder<W>, ctx: &mut C) -> Result<(), minicbor::encode::Error<W::Error>> {
        minicbor::encode::ArrayIter::new(self.0.iter().filter(|_| true)).encode(e, ctx)
    }
}
impl<'b, C> minicbor::Decode<'b, C> for FilterSeq {
    fn decode(d: &mut minicbor::Decoder<'b>, ctx: &mut C) -> Result<Self, minicbor::decode::Error> {
        Vec::<u8>::decode(d, ctx).map(FilterSeq)
    }
}
impl Serialize for FilterSeq {
    fn serialize<S: serde::Serializer>(&self, s: S) -> Result<S::Ok, S::Error> {
        s.collect_seq(self.0.iter().filter(|_| true))
    }
}
impl<'de> Deserialize<'de> for FilterSeq {
    fn deserialize<D: serde::Deserializer<'de>>(d: D) -> Result<Self, D::Error> {
        Vec::<u8>::deserialize(d).map(FilterSeq)
    }
}

/// A map written with unknown length on both sides (native: MapIter over a filter iterator; serde: collect_map).
#[derive(Debug, Clone, PartialEq)]
pub struct FilterMap(pub BTreeMap<u8, u8>);
impl<C> minicbor::Encode<C> for FilterMap {
    fn encode<W: minicbor::encode::Write>(&self, e: &mut minicbor::Encoder<W>, ctx: &mut C) -> Result<(), minicbor::encode::Error<W::Error>> {
        minicbor::encode::MapIter::new(self.0.iter().filter(|_| true)).encode(e, ctx)
    }
}
impl<'b, C> minicbor::Decode<'b, C> for FilterMap {
    fn decode(d: &mut minicbor::Decoder<'b>, ctx: &mut C) -> Result<Self, minicbor::decode::Error> {
        BTreeMap::<u8, u8>::decode(d, ctx).map(FilterMap)
    }
}
impl Serialize for FilterMap {
    fn serialize<S: serde::Serializer>(&self, s: S) -> Result<S::Ok, S::Error> {
        s.collect_map(self.0.iter().filter(|_| true))
    }
}
impl<'de> Deserialize<'de> for FilterMap {
    fn deserialize<D: serde::Deserializer<'de>>(d: D) -> Result<Self, D::Error> {
        BTreeMap::<u8, u8>::deserialize(d).map(FilterMap)
    }
}

// ---- C18: shared data model -----------------------------------------------------------------

fn shared<T>(sink: &mut dyn Sink, name: &str, values: Vec<T>)
where
    T: Serialize + DeserializeOwned + PartialEq + Debug + minicbor::Encode<()> + for<'b> minicbor::Decode<'b, ()>,
{
    let sub = "shared-types";
    let mut evals = 0u64;
    let mut ok = 0u64;
    for v in &values {
        let shown: String = format!("{:?}", v).chars().take(120).collect();
        evals += 1;
        let native = match minicbor::to_vec(v) {
            Ok(b) => b,
            Err(e) => {
                sink.fail(sub, None, "native", name, shown, String::new(), format!("native encoding failed: {}", e));
                continue;
            }
        };
        let bridge = match minicbor_serde::to_vec(v) {
            Ok(b) => b,
            Err(e) => {
                sink.fail(sub, None, "bridge", name, shown, String::new(), format!("bridge serialisation failed: {}", e));
                continue;
            }
        };
        if native != bridge {
            sink.fail(sub, None, "both", name, shown, hex(&native), format!("native Encode wrote {}, the serde bridge wrote {}", hex(&native), hex(&bridge)));
            continue;
        }
        let item = match parse(&native) {
            Ok((i, u)) if u == native.len() => i,
            _ => {
                sink.fail(sub, None, "native", name, shown, hex(&native), "not one well-formed item".to_string());
                continue;
            }
        };
        let mut all_ok = true;
        // width-only re-framings must decode on both sides; container re-framings: each side value-or-error
        // (large values - hundreds of nodes - get single deviations only)
        let big = item.nodes() > 64;
        let thin = |v: Vec<Item>| -> Vec<Item> {
            let step = if big { (v.len() / 200).max(1) } else { 1 };
            v.into_iter().step_by(step).collect()
        };
        let widths: Vec<Item> = thin(deviations_up_to_ex(&item, if big { 1 } else { 2 }, true, false, false));
        // every combination of up to three indefinite containers / chunked strings, and everything indefinite
        let mut framed: Vec<Item> = thin(deviations_up_to_ex(&item, if big { 1 } else { 3 }, false, true, true).into_iter().skip(1).collect());
        framed.push(all_indefinite(&item));
        for (k, variant) in widths.iter().map(|x| (true, x)).chain(framed.iter().map(|x| (false, x))) {
            let input = variant.to_bytes();
            evals += 1;
            let mut nd = minicbor::Decoder::new(&input);
            let a = nd.decode::<T>();
            let mut bd = minicbor_serde::Deserializer::new(&input);
            let b = T::deserialize(&mut bd);
            let mut bad = None;
            match &a {
                Ok(x) if x != v => bad = Some(format!("native decode returned a different value {:?}", x)),
                Ok(_) if nd.position() != input.len() => bad = Some(format!("native decode returned the value but consumed {} of {} bytes", nd.position(), input.len())),
                Err(e) if k => bad = Some(format!("native decode rejected a wider-head encoding: {}", e)),
                _ => {}
            }
            match &b {
                Ok(x) if x != v => bad = Some(format!("the bridge returned a different value {:?}", x)),
                Ok(_) if bd.decoder().position() != input.len() => bad = Some(format!("the bridge returned the value but consumed {} of {} bytes", bd.decoder().position(), input.len())),
                Err(e) if k => bad = Some(format!("the bridge rejected a wider-head encoding: {}", e)),
                _ => {}
            }
            if let Some(m) = bad {
                sink.fail(sub, None, "both", name, shown.clone(), hex(&input), m);
                all_ok = false;
            }
        }
        if all_ok {
            // one stream, the two sides taking turns: [v, v] read native-then-bridge and bridge-then-native, the
            // (de)serializer built from the native coder in mid-stream and turned back into it
            evals += 1;
            let mut stream = native.clone();
            stream.extend_from_slice(&native);
            let verdict: Result<(), String> = (|| {
                let mut d = minicbor::Decoder::new(&stream);
                let a = d.decode::<T>().map_err(|e| format!("native, first: {}", e))?;
                let mut de = minicbor_serde::Deserializer::from(d);
                let b = T::deserialize(&mut de).map_err(|e| format!("bridge, second (Deserializer::from(decoder) in mid-stream): {}", e))?;
                if a != *v || b != *v || de.decoder().position() != stream.len() {
                    return Err(format!("native-then-bridge read {:?}, {:?} and ended at {} of {}", a, b, de.decoder().position(), stream.len()));
                }
                let mut de = minicbor_serde::Deserializer::new(&stream);
                let a = T::deserialize(&mut de).map_err(|e| format!("bridge, first: {}", e))?;
                let mut d = de.into_decoder();
                let b = d.decode::<T>().map_err(|e| format!("native, second (after into_decoder()): {}", e))?;
                if a != *v || b != *v || d.position() != stream.len() {
                    return Err(format!("bridge-then-native read {:?}, {:?} and ended at {} of {}", a, b, d.position(), stream.len()));
                }
                let mut e = minicbor::Encoder::new(Vec::new());
                e.encode(v).map_err(|e| e.to_string())?;
                let mut ser = minicbor_serde::Serializer::from(e);
                v.serialize(&mut ser).map_err(|e| e.to_string())?;
                let w = ser.into_encoder().into_writer();
                if w != stream {
                    return Err(format!("native-then-bridge wrote {}", hex(&w)));
                }
                Ok(())
            })();
            if let Err(m) = verdict {
                sink.fail(sub, None, "both", name, shown.clone(), hex(&stream), format!("the two sides taking turns on the stream [v, v]: {}", m));
                all_ok = false;
            }
        }
        if all_ok {
            ok += 1;
        }
    }
    sink.count(sub, "shared", name, evals, ok);
}

/// The same comparison for zero-copy types (`&str` and its compositions): the decoded values borrow from the input.
macro_rules! shared_borrowed {
    ($sink:expr, $name:expr, $values:expr) => {{
        let sub = "shared-types";
        let mut evals = 0u64;
        let mut ok = 0u64;
        for v in $values.iter() {
            let shown: String = format!("{:?}", v).chars().take(120).collect();
            evals += 1;
            let native = minicbor::to_vec(v).unwrap_or_default();
            let bridge = minicbor_serde::to_vec(v).unwrap_or_default();
            if native != bridge || native.is_empty() {
                $sink.fail(sub, None, "both", $name, shown, hex(&native), format!("native Encode wrote {}, the serde bridge wrote {}", hex(&native), hex(&bridge)));
                continue;
            }
            let item = match parse(&native) {
                Ok((i, u)) if u == native.len() => i,
                _ => {
                    $sink.fail(sub, None, "native", $name, shown, hex(&native), "not one well-formed item".to_string());
                    continue;
                }
            };
            let mut all_ok = true;
            // wider heads must decode on both sides (definite strings stay borrowable); indefinite containers: value or error
            let widths: Vec<Item> = deviations_up_to_ex(&item, 2, true, false, false);
            let mut framed: Vec<Item> = deviations_up_to_ex(&item, 2, false, true, false).into_iter().skip(1).collect();
            framed.push(all_indefinite(&item));
            for (k, variant) in widths.iter().map(|x| (true, x)).chain(framed.iter().map(|x| (false, x))) {
                let input = variant.to_bytes();
                evals += 1;
                let a = tie(v, minicbor::decode(&input));
                let b = tie(v, minicbor_serde::from_slice(&input));
                let mut bad = None;
                match &a {
                    Ok(x) if x != v => bad = Some(format!("native decode returned a different value {:?}", x)),
                    Err(e) if k => bad = Some(format!("native decode rejected a wider-head encoding: {}", e)),
                    _ => {}
                }
                match &b {
                    Ok(x) if x != v => bad = Some(format!("the bridge returned a different value {:?}", x)),
                    Err(e) if k => bad = Some(format!("the bridge rejected a wider-head encoding: {}", e)),
                    _ => {}
                }
                if let Some(m) = bad {
                    $sink.fail(sub, None, "both", $name, shown.clone(), hex(&input), m);
                    all_ok = false;
                }
            }
            if all_ok {
                ok += 1;
            }
        }
        $sink.count(sub, "shared", $name, evals, ok);
    }};
}

fn shared_borrowed_types(sink: &mut dyn Sink) {
    shared_borrowed!(sink, "&str", ["", "a", "\u{e9}\u{1f600}", "xxxxxxxxxxxxxxxxxxxxxxxx"]);
    shared_borrowed!(sink, "Option<&str>", [None, Some(""), Some("a")]);
    shared_borrowed!(sink, "(&str,u8)", [("", 0u8), ("k", 24)]);
    shared_borrowed!(sink, "Vec<&str>", [vec![], vec!["a"], vec!["a", "", "bc"]]);
    shared_borrowed!(sink, "[&str;2]", [["", ""], ["a", "bc"]]);
    shared_borrowed!(sink, "BTreeMap<&str,u8>", [BTreeMap::new(), [("k", 1u8), ("l", 24)].into_iter().collect::<BTreeMap<&str, u8>>()]);
    shared_borrowed!(sink, "Vec<(u8,Option<&str>)>", [vec![(1u8, None), (24, Some("z"))]]);
}

/// Every array and map of the item made indefinite.
fn all_indefinite(i: &Item) -> Item {
    match i {
        Item::Array(v, _) => Item::Array(v.iter().map(all_indefinite).collect(), Len::Indef),
        Item::Map(v, _) => Item::Map(v.iter().map(|(k, x)| (all_indefinite(k), all_indefinite(x))).collect(), Len::Indef),
        Item::Tag(t, w, x) => Item::Tag(*t, *w, Box::new(all_indefinite(x))),
        o => o.clone(),
    }
}

pub fn run_c18(sink: &mut dyn Sink) {
    shared_borrowed_types(sink);
    shared(sink, "bool", vec![false, true]);
    // every value on both sides of every head-width boundary that fits the type
    fn ints<T: TryFrom<i128>>() -> Vec<T> {
        let mut v = Vec::new();
        for k in [0i128, 1, 23, 24, 25, 255, 256, 257, 65535, 65536, 65537, 0xffff_ffff, 0x1_0000_0000, 0x1_0000_0001, i64::MAX as i128, u64::MAX as i128] {
            for x in [k, -k, -k - 1, -k - 2] {
                if let Ok(t) = T::try_from(x) {
                    v.push(t);
                }
            }
        }
        v
    }
    shared(sink, "u8", ints::<u8>());
    shared(sink, "u16", ints::<u16>());
    shared(sink, "u32", ints::<u32>());
    shared(sink, "u64", ints::<u64>());
    shared(sink, "i8", ints::<i8>());
    shared(sink, "i16", ints::<i16>());
    shared(sink, "i32", ints::<i32>());
    shared(sink, "i64", ints::<i64>());
    shared(sink, "Vec<i32>", vec![ints::<i32>()]);
    // containers of unknown length: native ArrayIter / MapIter over an inexact iterator, serde collect_seq / collect_map
    shared(sink, "FilterSeq", vec![FilterSeq(vec![]), FilterSeq(vec![1, 24]), FilterSeq((0..30).collect())]);
    shared(sink, "FilterMap", vec![FilterMap(BTreeMap::new()), FilterMap([(1u8, 2u8), (24, 255)].into_iter().collect())]);
    shared(sink, "char", vec!['\0', 'a', '\u{d7ff}', '\u{10ffff}']);
    shared(sink, "f32", vec![0.0f32, -0.0, 1.5, f32::MAX, f32::INFINITY]);
    shared(sink, "f64", vec![0.0f64, -0.0, 1.5, f64::MIN_POSITIVE, f64::NEG_INFINITY]);
    shared(sink, "String", vec![String::new(), "a".into(), "\u{e9}\u{1f600}".into(), "x".repeat(24)]);
    shared(sink, "()", vec![()]);
    shared(sink, "Option<u8>", vec![None, Some(0u8), Some(255)]);
    shared(sink, "Option<String>", vec![None, Some(String::new()), Some("ab".to_string())]);
    shared(sink, "Vec<u8>", vec![vec![], vec![0u8], (0..24).collect::<Vec<u8>>()]);
    shared(sink, "Vec<String>", vec![vec![], vec![String::new(), "a".to_string()]]);
    shared(sink, "Vec<Option<i16>>", vec![vec![None, Some(-257i16), Some(0)]]);
    shared(sink, "[u8;3]", vec![[0u8, 24, 255]]);
    // fixed arrays of other sizes: serde visits [T; 0] through deserialize_tuple(0), a path no other type takes
    shared(sink, "[u8;0]", vec![[0u8; 0]]);
    shared(sink, "[String;0]", vec![[(); 0].map(|_| String::new())]);
    shared(sink, "[u8;1]", vec![[24u8]]);
    shared(sink, "[u16;2]", vec![[0u16, 65535]]);
    shared(sink, "[i8;4]", vec![[-1i8, 0, 23, -128]]);
    shared(sink, "[u8;16]", vec![[0xa5u8; 16]]);
    shared(sink, "[u8;24]", vec![[24u8; 24]]);
    shared(sink, "[u8;32]", vec![[7u8; 32]]);
    shared(sink, "([u8;0],u8)", vec![([0u8; 0], 9u8)]);
    shared(sink, "Option<[u16;0]>", vec![None, Some([0u16; 0])]);
    shared(sink, "Vec<[u8;0]>", vec![vec![], vec![[0u8; 0], [0u8; 0]]]);
    shared(sink, "[[u8;0];2]", vec![[[0u8; 0], [0u8; 0]]]);
    shared(sink, "BTreeMap<u8,[u8;0]>", vec![[(1u8, [0u8; 0])].into_iter().collect::<BTreeMap<_, _>>()]);
    shared(sink, "[String;3]", vec![[String::new(), "a".to_string(), "bb".to_string()]]);
    shared(sink, "(u8,)", vec![(7u8,), (255,)]);
    shared(sink, "(u8,String)", vec![(0u8, String::new()), (24, "s".to_string())]);
    shared(sink, "(bool,i8,char)", vec![(true, -1i8, 'x'), (false, i8::MIN, '\u{10ffff}')]);
    shared(sink, "(u8,u16,u32,u64)", vec![(255u8, 65535u16, u32::MAX, u64::MAX), (0, 0, 0, 0)]);
    shared(sink, "BTreeMap<u8,bool>", vec![BTreeMap::new(), [(0u8, true), (24, false)].into_iter().collect()]);
    shared(sink, "BTreeMap<String,Vec<u8>>", vec![[("k".to_string(), vec![1u8, 2]), ("".to_string(), vec![])].into_iter().collect::<BTreeMap<_, _>>()]);
    shared(sink, "Vec<(u8,Option<String>)>", vec![vec![(1u8, None), (24, Some("z".to_string()))]]);
    shared(sink, "Option<Vec<[u8;3]>>", vec![None, Some(vec![[1u8, 2, 3], [24, 25, 255]])]);
    shared(sink, "BTreeMap<i8,(u8,())>", vec![[(-25i8, (1u8, ())), (5, (24, ()))].into_iter().collect::<BTreeMap<_, _>>()]);
    shared(sink, "Vec<Vec<u8>>", vec![vec![vec![], vec![1u8, 2], vec![24]]]);
    // tuples and fixed arrays nested in sequences and maps (the break of an inner container must never end the outer one)
    shared(sink, "Vec<(u8,u8)>", vec![vec![(1u8, 2u8), (3, 4)], vec![(24, 255)]]);
    shared(sink, "Vec<[u8;2]>", vec![vec![[1u8, 2], [3, 4], [5, 6]]]);
    // maps nested in sequences and in maps (an unread break of the inner container shifts the outer one)
    shared(sink, "Vec<BTreeMap<u8,u8>>", vec![vec![], vec![[(1u8, 2u8)].into_iter().collect::<BTreeMap<_, _>>(), [(3u8, 4u8), (24, 5)].into_iter().collect()], vec![BTreeMap::new(), BTreeMap::new()]]);
    shared(sink, "BTreeMap<u8,BTreeMap<u8,u8>>", vec![[(1u8, [(2u8, 3u8)].into_iter().collect::<BTreeMap<_, _>>()), (4, [(5u8, 6u8)].into_iter().collect())].into_iter().collect::<BTreeMap<_, _>>()]);
    shared(sink, "BTreeMap<u8,Vec<u8>>", vec![[(1u8, vec![1u8, 2]), (2, vec![3, 4])].into_iter().collect::<BTreeMap<_, _>>()]);
    shared(sink, "Vec<Vec<u8>>", vec![vec![vec![1u8, 2], vec![3, 4]], vec![vec![], vec![]]]);
    shared(sink, "(BTreeMap<u8,u8>,u8)", vec![([(1u8, 2u8)].into_iter().collect::<BTreeMap<_, _>>(), 7u8)]);
    shared(sink, "Option<BTreeMap<u8,u8>>", vec![None, Some([(1u8, 2u8)].into_iter().collect::<BTreeMap<_, _>>())]);
    shared(sink, "BTreeMap<u8,(u8,u8)>", vec![[(1u8, (2u8, 3u8)), (4, (5, 6))].into_iter().collect::<BTreeMap<_, _>>()]);
    shared(sink, "(Vec<u8>,(u8,),[u8;1])", vec![(vec![1u8, 2], (3u8,), [4u8])]);
    shared(sink, "Option<(u8,Vec<(u8,bool)>)>", vec![Some((1u8, vec![(2u8, true), (3, false)]))]);
    // more fixed-size sequences in one document, and deeper nesting, than an 8-bit budget or depth counter holds
    shared(sink, "Vec<(u8,u8)> x 255, 256", [255usize, 256].iter().map(|n| (0..*n).map(|i| (i as u8, 24u8)).collect::<Vec<(u8, u8)>>()).collect());
    shared(sink, "Vec<[u16;3]> x 128, 129", [128usize, 129].iter().map(|n| (0..*n).map(|i| [i as u16, 0, 65535]).collect::<Vec<[u16; 3]>>()).collect());
    shared(sink, "DeepSeq", [129usize, 257].iter().map(|d| DeepSeq::nest(*d)).collect());
    // every tuple arity with pairwise different components (comparison is available up to arity 12)
    shared(sink, "tuple5", vec![(1u8, 2u16, 3u32, 4u64, -5i8)]);
    shared(sink, "tuple6", vec![(1u8, 2u16, 3u32, 4u64, -5i8, -6i16)]);
    shared(sink, "tuple7", vec![(1u8, 2u16, 3u32, 4u64, -5i8, -6i16, -7i32)]);
    shared(sink, "tuple8", vec![(1u8, 2u16, 3u32, 4u64, -5i8, -6i16, -7i32, -8i64)]);
    shared(sink, "tuple9", vec![(1u8, 2u16, 3u32, 4u64, -5i8, -6i16, -7i32, -8i64, true)]);
    shared(sink, "tuple10", vec![(1u8, 2u16, 3u32, 4u64, -5i8, -6i16, -7i32, -8i64, true, 'j')]);
    shared(sink, "tuple11", vec![(1u8, 2u16, 3u32, 4u64, -5i8, -6i16, -7i32, -8i64, true, 'j', 11.5f32)]);
    shared(sink, "tuple12", vec![(1u8, 2u16, 3u32, 4u64, -5i8, -6i16, -7i32, -8i64, true, 'j', 11.5f32, "l".to_string())]);
}
