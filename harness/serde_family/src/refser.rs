//! Reference `serde::Serializer`: maps the serde data model onto `refmodel::Item` according
//! to the representation documented for minicbor-serde (structs = maps keyed by field name,
//! unit variant = its name as text, other variants = one-entry map name -> content, None =
//! null, unit = empty array, char = its scalar value, unknown-length containers = indefinite).

use refmodel::*;
use serde::ser::{self, Serialize};
use std::fmt;

#[derive(Debug)]
pub struct RefErr(pub String);

impl fmt::Display for RefErr {
    fn fmt(&self, f: &mut fmt::Formatter<'_>) -> fmt::Result {
        f.write_str(&self.0)
    }
}
impl std::error::Error for RefErr {}
impl ser::Error for RefErr {
    fn custom<T: fmt::Display>(msg: T) -> Self {
        RefErr(msg.to_string())
    }
}

pub struct RefSer;

pub fn to_item<T: Serialize + ?Sized>(v: &T) -> Result<Item, RefErr> {
    v.serialize(RefSer)
}

pub struct SeqB {
    items: Vec<Item>,
    indef: bool,
    variant: Option<&'static str>,
}

pub struct MapB {
    entries: Vec<(Item, Item)>,
    key: Option<Item>,
    indef: bool,
    variant: Option<&'static str>,
}

fn wrap(variant: Option<&'static str>, inner: Item) -> Item {
    match variant {
        Some(v) => Item::map(vec![(Item::text(v), inner)]),
        None => inner,
    }
}

impl SeqB {
    fn finish(self) -> Item {
        let a = if self.indef { Item::Array(self.items, Len::Indef) } else { Item::array(self.items) };
        wrap(self.variant, a)
    }
}

impl MapB {
    fn finish(self) -> Item {
        let m = if self.indef { Item::Map(self.entries, Len::Indef) } else { Item::map(self.entries) };
        wrap(self.variant, m)
    }
}

impl ser::Serializer for RefSer {
    type Ok = Item;
    type Error = RefErr;
    type SerializeSeq = SeqB;
    type SerializeTuple = SeqB;
    type SerializeTupleStruct = SeqB;
    type SerializeTupleVariant = SeqB;
    type SerializeMap = MapB;
    type SerializeStruct = MapB;
    type SerializeStructVariant = MapB;

    fn serialize_bool(self, v: bool) -> Result<Item, RefErr> {
        Ok(Item::bool(v))
    }
    fn serialize_i8(self, v: i8) -> Result<Item, RefErr> {
        Ok(Item::int(v as i128))
    }
    fn serialize_i16(self, v: i16) -> Result<Item, RefErr> {
        Ok(Item::int(v as i128))
    }
    fn serialize_i32(self, v: i32) -> Result<Item, RefErr> {
        Ok(Item::int(v as i128))
    }
    fn serialize_i64(self, v: i64) -> Result<Item, RefErr> {
        Ok(Item::int(v as i128))
    }
    fn serialize_u8(self, v: u8) -> Result<Item, RefErr> {
        Ok(Item::uint(v as u64))
    }
    fn serialize_u16(self, v: u16) -> Result<Item, RefErr> {
        Ok(Item::uint(v as u64))
    }
    fn serialize_u32(self, v: u32) -> Result<Item, RefErr> {
        Ok(Item::uint(v as u64))
    }
    fn serialize_u64(self, v: u64) -> Result<Item, RefErr> {
        Ok(Item::uint(v))
    }
    fn serialize_f32(self, v: f32) -> Result<Item, RefErr> {
        Ok(Item::f32(v.to_bits()))
    }
    fn serialize_f64(self, v: f64) -> Result<Item, RefErr> {
        Ok(Item::f64(v.to_bits()))
    }
    fn serialize_char(self, v: char) -> Result<Item, RefErr> {
        Ok(Item::uint(v as u64))
    }
    fn serialize_str(self, v: &str) -> Result<Item, RefErr> {
        Ok(Item::text(v))
    }
    fn serialize_bytes(self, v: &[u8]) -> Result<Item, RefErr> {
        Ok(Item::bytes(v))
    }
    fn serialize_none(self) -> Result<Item, RefErr> {
        Ok(NULL)
    }
    fn serialize_some<T: Serialize + ?Sized>(self, v: &T) -> Result<Item, RefErr> {
        v.serialize(RefSer)
    }
    fn serialize_unit(self) -> Result<Item, RefErr> {
        Ok(Item::array(vec![]))
    }
    fn serialize_unit_struct(self, _: &'static str) -> Result<Item, RefErr> {
        Ok(Item::array(vec![]))
    }
    fn serialize_unit_variant(self, _: &'static str, _: u32, variant: &'static str) -> Result<Item, RefErr> {
        Ok(Item::text(variant))
    }
    fn serialize_newtype_struct<T: Serialize + ?Sized>(self, _: &'static str, v: &T) -> Result<Item, RefErr> {
        v.serialize(RefSer)
    }
    fn serialize_newtype_variant<T: Serialize + ?Sized>(self, _: &'static str, _: u32, variant: &'static str, v: &T) -> Result<Item, RefErr> {
        Ok(Item::map(vec![(Item::text(variant), v.serialize(RefSer)?)]))
    }
    fn serialize_seq(self, len: Option<usize>) -> Result<SeqB, RefErr> {
        Ok(SeqB { items: vec![], indef: len.is_none(), variant: None })
    }
    fn serialize_tuple(self, _: usize) -> Result<SeqB, RefErr> {
        Ok(SeqB { items: vec![], indef: false, variant: None })
    }
    fn serialize_tuple_struct(self, _: &'static str, _: usize) -> Result<SeqB, RefErr> {
        Ok(SeqB { items: vec![], indef: false, variant: None })
    }
    fn serialize_tuple_variant(self, _: &'static str, _: u32, variant: &'static str, _: usize) -> Result<SeqB, RefErr> {
        Ok(SeqB { items: vec![], indef: false, variant: Some(variant) })
    }
    fn serialize_map(self, len: Option<usize>) -> Result<MapB, RefErr> {
        Ok(MapB { entries: vec![], key: None, indef: len.is_none(), variant: None })
    }
    fn serialize_struct(self, _: &'static str, _: usize) -> Result<MapB, RefErr> {
        Ok(MapB { entries: vec![], key: None, indef: false, variant: None })
    }
    fn serialize_struct_variant(self, _: &'static str, _: u32, variant: &'static str, _: usize) -> Result<MapB, RefErr> {
        Ok(MapB { entries: vec![], key: None, indef: false, variant: Some(variant) })
    }
    fn is_human_readable(&self) -> bool {
        false
    }
}

impl ser::SerializeSeq for SeqB {
    type Ok = Item;
    type Error = RefErr;
    fn serialize_element<T: Serialize + ?Sized>(&mut self, v: &T) -> Result<(), RefErr> {
        self.items.push(v.serialize(RefSer)?);
        Ok(())
    }
    fn end(self) -> Result<Item, RefErr> {
        Ok(self.finish())
    }
}
impl ser::SerializeTuple for SeqB {
    type Ok = Item;
    type Error = RefErr;
    fn serialize_element<T: Serialize + ?Sized>(&mut self, v: &T) -> Result<(), RefErr> {
        self.items.push(v.serialize(RefSer)?);
        Ok(())
    }
    fn end(self) -> Result<Item, RefErr> {
        Ok(self.finish())
    }
}
impl ser::SerializeTupleStruct for SeqB {
    type Ok = Item;
    type Error = RefErr;
    fn serialize_field<T: Serialize + ?Sized>(&mut self, v: &T) -> Result<(), RefErr> {
        self.items.push(v.serialize(RefSer)?);
        Ok(())
    }
    fn end(self) -> Result<Item, RefErr> {
        Ok(self.finish())
    }
}
impl ser::SerializeTupleVariant for SeqB {
    type Ok = Item;
    type Error = RefErr;
    fn serialize_field<T: Serialize + ?Sized>(&mut self, v: &T) -> Result<(), RefErr> {
        self.items.push(v.serialize(RefSer)?);
        Ok(())
    }
    fn end(self) -> Result<Item, RefErr> {
        Ok(self.finish())
    }
}
impl ser::SerializeMap for MapB {
    type Ok = Item;
    type Error = RefErr;
    fn serialize_key<T: Serialize + ?Sized>(&mut self, k: &T) -> Result<(), RefErr> {
        self.key = Some(k.serialize(RefSer)?);
        Ok(())
    }
    fn serialize_value<T: Serialize + ?Sized>(&mut self, v: &T) -> Result<(), RefErr> {
        let k = self.key.take().ok_or_else(|| RefErr("value without key".into()))?;
        self.entries.push((k, v.serialize(RefSer)?));
        Ok(())
    }
    fn end(self) -> Result<Item, RefErr> {
        Ok(self.finish())
    }
}
impl ser::SerializeStruct for MapB {
    type Ok = Item;
    type Error = RefErr;
    fn serialize_field<T: Serialize + ?Sized>(&mut self, key: &'static str, v: &T) -> Result<(), RefErr> {
        self.entries.push((Item::text(key), v.serialize(RefSer)?));
        Ok(())
    }
    fn end(self) -> Result<Item, RefErr> {
        Ok(self.finish())
    }
}
impl ser::SerializeStructVariant for MapB {
    type Ok = Item;
    type Error = RefErr;
    fn serialize_field<T: Serialize + ?Sized>(&mut self, key: &'static str, v: &T) -> Result<(), RefErr> {
        self.entries.push((Item::text(key), v.serialize(RefSer)?));
        Ok(())
    }
    fn end(self) -> Result<Item, RefErr> {
        Ok(self.finish())
    }
}
