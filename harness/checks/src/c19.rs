//! C19: diagnostic display is total, size-bounded and follows the documented notation.

use mcx::{Report, Tier};
use refmodel::enumerate::*;
use refmodel::render::render;
use refmodel::*;
use serde_json::json;
use std::fmt::Write as _;

struct Sink {
    out: String,
    limit: usize,
    tripped: bool,
}

impl std::fmt::Write for Sink {
    fn write_str(&mut self, s: &str) -> std::fmt::Result {
        if self.out.len() + s.len() > self.limit {
            self.tripped = true;
            return Err(std::fmt::Error);
        }
        self.out.push_str(s);
        Ok(())
    }
}

/// Format `b` into a sink that refuses more than 16*len+512 bytes. Returns (output, tripped, steps).
fn show(b: &[u8]) -> Result<(String, bool, u64), String> {
    mcx::slot::case("display", b);
    minicbor::decode::verif::reset();
    let mut s = Sink { out: String::new(), limit: 16 * b.len() + 512, tripped: false };
    let r = mcx::par::guard(|| {
        let _ = write!(s, "{}", minicbor::display(b));
    });
    let steps = minicbor::decode::verif::steps();
    r.map(|_| (s.out, s.tripped, steps))
}

/// The notation does not depend on the caller's format spec: sign, zero-fill and precision flags are not applied to
/// the numbers inside the item (padding of the whole output to a width would be tolerated: spaces at either end are
/// trimmed before comparing). Returns the number of renderings compared.
fn spec_invariant(r: &Report, sub: &str, b: &[u8], want: &str) -> u64 {
    let d = minicbor::display(b);
    let outs = mcx::par::guard(|| [("{:+}", format!("{:+}", d)), ("{:.1}", format!("{:.1}", d)), ("{:12}", format!("{:12}", d)), ("{:>012}", format!("{:>012}", d)), ("{:^+9.2}", format!("{:^+9.2}", d))]);
    match outs {
        Ok(outs) => {
            for (spec, out) in outs.iter() {
                if out.trim_matches(' ') != want {
                    r.fail(sub, None, json!({"input_hex": hex(&b[..b.len().min(64)]), "format_spec": spec}), format!("displayed {:?} under this format spec, the documented notation is {:?}", out.chars().take(200).collect::<String>(), want.chars().take(200).collect::<String>()));
                }
            }
            outs.len() as u64
        }
        Err(p) => {
            r.fail(sub, None, json!({"input_hex": hex(&b[..b.len().min(64)])}), format!("display with a format spec panicked: {}", p));
            0
        }
    }
}

fn total(r: &Report, sub: &str, b: &[u8]) -> bool {
    match show(b) {
        Err(p) => {
            r.fail(sub, None, json!({"input_hex": hex(b)}), format!("display panicked: {}", p));
            false
        }
        Ok((out, tripped, steps)) => {
            let mut ok = true;
            if tripped {
                r.fail(sub, Some("display-definite-container-past-end"), json!({"input_hex": hex(b)}), format!("output exceeds 16*len+512 = {} bytes; it starts with {:?}", 16 * b.len() + 512, &out[..out.len().min(60)]));
                ok = false;
            }
            // the documented notation of everything before the first decoding problem, then the problem inline
            if !tripped {
                let d = refmodel::render::diag_bytes(b);
                let good = if d.unjudged {
                    out.starts_with(&d.prefix)
                } else if d.problem {
                    out.starts_with(&d.prefix) && out[d.prefix.len()..].starts_with(" !!! ")
                } else {
                    out == d.prefix
                };
                if !good {
                    r.fail(
                        sub,
                        None,
                        json!({"input_hex": hex(b)}),
                        format!("displayed {:?}; documented: {:?}{}", out, d.prefix, if d.problem { " followed by the decoding problem (\" !!! ..\")" } else if d.unjudged { " .." } else { "" }),
                    );
                    ok = false;
                }
            }
            if steps > 8 * b.len() as u64 + 64 {
                r.fail(sub, Some("display-definite-container-past-end"), json!({"input_hex": hex(b)}), format!("{} input accesses for {} input bytes (bound 8*len+64)", steps, b.len()));
                ok = false;
            }
            ok
        }
    }
}

pub fn run(r: &Report) {
    let thorough = r.tier == Tier::Thorough;
    // ---- totality and size bound
    {
        let sub = "totality-and-size";
        let maxlen = 3;
        r.space(sub, true, &format!("all byte strings of length <= {}, the hostile heads, and every truncation / single-byte substitution (14 structural bytes) of the encodings of all trees <= 3 nodes: no panic, bounded output and work, and the output is the documented notation of everything before the first decoding problem followed by the inline report (reference display over arbitrary bytes)", maxlen), 1);
        let hs = hostile_heads();
        let trees = trees_up_to(3, &Alphabet::full());
        let subs: [u8; 14] = [0x00, 0x17, 0x18, 0x1b, 0x3b, 0x5f, 0x7f, 0x80, 0x9b, 0xbb, 0xc0, 0xf8, 0xf9, 0xff];
        let shards = 256usize;
        mcx::par::run_shards(
            shards,
            |s| {
                let mut n = 0u64;
                let mut ok = 0u64;
                for len in 0..=maxlen {
                    for_each_bytes(len, if len == 0 { if s == 0 { 0..1 } else { 0..0 } } else { s..s + 1 }, |b| {
                        n += 1;
                        if total(r, sub, b) {
                            ok += 1;
                        }
                    });
                }
                let mut i = s;
                while i < hs.len() {
                    n += 1;
                    if total(r, sub, &hs[i]) {
                        ok += 1;
                    }
                    i += shards;
                }
                let mut i = s;
                while i < trees.len() {
                    let enc = trees[i].to_bytes();
                    for k in 0..enc.len() {
                        n += 1;
                        if total(r, sub, &enc[..k]) {
                            ok += 1;
                        }
                        for x in subs {
                            if x != enc[k] {
                                let mut m = enc.clone();
                                m[k] = x;
                                n += 1;
                                if total(r, sub, &m) {
                                    ok += 1;
                                }
                            }
                        }
                    }
                    i += shards;
                }
                r.add(sub, n, ok);
                r.outcome(sub, "inputs", n);
            },
            crate::hang_handler(r.property.clone()),
        );
        r.sample(sub, json!({"input_hex": "9a000186a0", "note": "array of 100000, no elements"}));
    }
    // ---- exact rendering of well-formed items
    {
        let sub = "exact-rendering";
        let (n_all, n_more) = if thorough { (4usize, 6usize) } else { (4usize, 5usize) };
        r.space(sub, true, &format!("all well-formed items <= {} nodes (12-leaf alphabet, valid UTF-8) in every head-width assignment, and all items of {} nodes in shortest heads: output must equal the reference rendering of the documented notation; items <= 3 nodes also under 5 caller format specs (sign, precision, width, zero fill), which must not change the notation", n_all, n_more), 1);
        let alpha = Alphabet::full();
        let by = trees_by_size(n_more, &alpha);
        let small: Vec<&Item> = by[..=n_all].iter().flatten().filter(|i| i.utf8_ok()).collect();
        let more: Vec<&Item> = by[n_more].iter().filter(|i| i.utf8_ok()).collect();
        let shards = 512usize;
        mcx::par::run_shards(
            shards,
            |s| {
                let mut n = 0u64;
                let mut ok = 0u64;
                let mut one = |item: &Item| {
                    n += 1;
                    let b = item.to_bytes();
                    let want = render(item);
                    match show(&b) {
                        Ok((out, false, _)) if out == want => {
                            ok += 1;
                            if item.nodes() <= 3 {
                                let k = spec_invariant(r, sub, &b, &want);
                                n += k;
                                ok += k;
                            }
                        }
                        Ok((out, tripped, _)) => r.fail(sub, None, json!({"input_hex": hex(&b), "item": item.diag()}), format!("displayed {:?}{}, the documented notation is {:?}", out, if tripped { " (size bound tripped)" } else { "" }, want)),
                        Err(p) => r.fail(sub, None, json!({"input_hex": hex(&b)}), format!("display panicked: {}", p)),
                    }
                };
                let mut i = s;
                while i < small.len() {
                    for v in all_width_assignments(small[i]) {
                        one(&v);
                    }
                    i += shards;
                }
                let mut i = s;
                while i < more.len() {
                    one(more[i]);
                    i += shards;
                }
                r.add(sub, n, ok);
                r.outcome(sub, "items", n);
            },
            crate::hang_handler(r.property.clone()),
        );
        r.sample(sub, json!({"input_hex": "bf0081f6ff", "display": "{_ 0: [null]}"}));
        r.sample(sub, json!({"input_hex": "5f41024102ff", "display": "(_ h'02', h'02')"}));
    }
    // ---- exact rendering of boundary leaf values (each integer / float / simple / string token has its own arm)
    {
        let sub = "leaf-values";
        r.space(sub, true, "every integer of the 64-bit boundary lattice (both signs, every admissible head width), all 65536 half items, boundary single / double patterns, every simple value, byte strings over all byte values and lengths 0 .. 65537 (15 lengths around 24, 256, 512, 65536), chains of 127 .. 300 nested tags / arrays / maps and chunked strings of as many chunks, text with quotes / backslashes / control / multi-byte characters, tags over the lattice - each alone, inside [x, x], {x: x} and [_ x], under `{}` and 5 caller format specs (sign, precision, width, zero fill: the notation must not change)", 1);
        let mut leaves: Vec<Item> = Vec::new();
        for v in lattice_int() {
            let it = Item::int(v);
            match &it {
                Item::Uint(n, _) => {
                    for w in W::admissible(*n) {
                        leaves.push(Item::Uint(*n, *w));
                    }
                }
                Item::Nint(n, _) => {
                    for w in W::admissible(*n) {
                        leaves.push(Item::Nint(*n, *w));
                    }
                }
                _ => {}
            }
        }
        for h in 0..=0xffffu32 {
            leaves.push(Item::f16(h as u16));
        }
        for se in 0..512u32 {
            for m in [0u32, 1, 0x40_0000, 0x7f_ffff, 0x2a_aaaa] {
                leaves.push(Item::f32((se << 23) | m));
            }
        }
        for se in 0..4096u64 {
            for m in [0u64, 1, 1 << 51, (1 << 52) - 1, 0x5_5555_5555_5555] {
                leaves.push(Item::f64((se << 52) | m));
            }
        }
        for x in (0..=19u8).chain(32..=255) {
            leaves.push(Item::Simple(x));
        }
        leaves.extend([FALSE, TRUE, NULL, UNDEFINED]);
        for n in [0usize, 1, 2, 23, 24, 255, 256, 257, 511, 512, 513, 1000, 65535, 65536, 65537] {
            leaves.push(Item::bytes(&(0..n).map(|i| (i * 37 + 0xf0) as u8).collect::<Vec<u8>>()));
            leaves.push(Item::text(&"\u{e9}x".repeat(n)));
        }
        leaves.push(Item::bytes(&(0..=255u8).collect::<Vec<u8>>()));
        for t in ["\"", "\\", "a\"b\\c", "\n\t\r", "\u{0}", "\u{7f}", "\u{4e16}\u{1f600}", "'", "h'00'", "{}[]"] {
            leaves.push(Item::text(t));
        }
        for v in lattice_int() {
            if v >= 0 {
                leaves.push(Item::tag(v as u64, Item::uint(0)));
            }
        }
        // chains of directly nested tags / arrays / maps, chunked strings with many chunks: beyond what an 8-bit counter holds
        for depth in [127usize, 128, 129, 255, 256, 257, 300] {
            let mut t = Item::uint(5);
            let mut a = Item::uint(5);
            let mut m = Item::uint(5);
            for k in 0..depth {
                t = Item::tag(6 + (k % 2) as u64, t);
                a = if k % 2 == 0 { Item::array(vec![a]) } else { Item::Array(vec![a], Len::Indef) };
                m = if k % 2 == 0 { Item::Map(vec![(Item::uint(0), m)], Len::Indef) } else { Item::map(vec![(Item::uint(1), m)]) };
            }
            leaves.extend([t, a, m]);
            leaves.push(Item::Bytes(vec![7; depth], StrForm::Indef(vec![(1, W::Imm); depth])));
            leaves.push(Item::Text(vec![b'q'; depth], StrForm::Indef(vec![(1, W::Imm); depth])));
        }
        let shards = 256usize;
        mcx::par::run_shards(
            shards,
            |s| {
                let mut n = 0u64;
                let mut ok = 0u64;
                let mut i = s;
                while i < leaves.len() {
                    let l = &leaves[i];
                    let ctxs = [l.clone(), Item::array(vec![l.clone(), l.clone()]), Item::map(vec![(l.clone(), l.clone())]), Item::Array(vec![l.clone()], Len::Indef)];
                    for item in &ctxs {
                        n += 1;
                        let b = item.to_bytes();
                        let want = render(item);
                        match show(&b) {
                            Ok((out, false, _)) if out == want => {
                                ok += 1;
                                if want.len() < 200 {
                                    let k = spec_invariant(r, sub, &b, &want);
                                    n += k;
                                    ok += k;
                                }
                            }
                            Ok((out, tripped, _)) => r.fail(sub, None, json!({"input_hex": hex(&b[..b.len().min(64)]), "item": item.diag().chars().take(120).collect::<String>()}), format!("displayed {:?}{}, the documented notation is {:?}", out.chars().take(200).collect::<String>(), if tripped { " (size bound tripped)" } else { "" }, want.chars().take(200).collect::<String>())),
                            Err(p) => r.fail(sub, None, json!({"input_hex": hex(&b[..b.len().min(64)])}), format!("display panicked: {}", p)),
                        }
                    }
                    i += shards;
                }
                r.add(sub, n, ok);
                r.outcome(sub, "items", n);
            },
            crate::hang_handler(r.property.clone()),
        );
        r.sample(sub, json!({"input_hex": "3bffffffffffffffff", "display": "-18446744073709551616"}));
    }
    // ---- a tokenizer that borrows a decoder (Decoder::tokens, Tokenizer::from(&mut d)) or owns one that is not at
    // position 0 displays exactly the rest of the input, like display() of the remaining bytes
    {
        let sub = "mid-stream-display";
        r.space(sub, true, "all ordered pairs of items <= 2 nodes (12-leaf alphabet): after the first item was skipped through the decoder, `{}` of Decoder::tokens(), Tokenizer::from(&mut decoder) and Tokenizer::from(decoder) equals display() of the remaining bytes", 1);
        let alpha = Alphabet::full();
        let small: Vec<Item> = trees_up_to(2, &alpha).into_iter().filter(|i| i.utf8_ok()).collect();
        let mut n = 0u64;
        let mut ok = 0u64;
        for a in &small {
            for b in &small {
                let mut bytes = a.to_bytes();
                let mid = bytes.len();
                bytes.extend_from_slice(&b.to_bytes());
                let want = format!("{}", minicbor::display(&bytes[mid..]));
                let mut d = minicbor::Decoder::new(&bytes);
                if d.skip().is_err() || d.position() != mid {
                    continue;
                }
                n += 3;
                let owned = mcx::par::guard(|| format!("{}", minicbor::decode::Tokenizer::from(d.clone())));
                let via_tokens = mcx::par::guard(|| format!("{}", d.clone().tokens()));
                let borrowed = mcx::par::guard(|| {
                    let mut d2 = d.clone();
                    format!("{}", minicbor::decode::Tokenizer::from(&mut d2))
                });
                for (how, got) in [("Tokenizer::from(decoder)", owned), ("decoder.tokens()", via_tokens), ("Tokenizer::from(&mut decoder)", borrowed)] {
                    if got.as_deref() == Ok(want.as_str()) {
                        ok += 1;
                    } else {
                        r.fail(sub, None, json!({"input_hex": hex(&bytes), "first_item_len": mid, "constructor": how}), format!("displayed {:?}, display() of the remaining bytes is {:?}", got, want));
                    }
                }
            }
        }
        r.add(sub, n, ok);
        r.outcome(sub, "pairs x constructors", n);
        r.sample(sub, json!({"input_hex": "01820203", "first_item_len": 1, "display": "[2, 3]"}));
    }
    r.assume("size bound constant: output <= 16 * input length + 512 bytes (the largest legitimate expansion is 11 characters per input byte); work bound 8*len+64 input accesses");
    r.assume("floats are rendered with Rust's `{:e}` of the denoted value (documented: scientific notation); text is shown unescaped between double quotes");
}
