//! C05: integer decoding is value-preserving across widths; it never wraps or truncates.
//!
//! Product enumeration of (sign, head width, argument) x integer targets with an i128 oracle.

use mcx::{Report, Tier};
use minicbor::data::{Int, Type};
use minicbor::Decoder;
use refmodel::*;
use serde_json::json;
use std::num::*;

struct Target {
    name: &'static str,
    min: i128,
    max: i128,
    nonzero: bool,
    is_char: bool,
    dec: fn(&[u8]) -> (Option<i128>, usize),
}

macro_rules! acc {
    ($m:ident) => {
        |b: &[u8]| {
            let mut d = Decoder::new(b);
            let r = d.$m().ok().map(|x| x as i128);
            (r, d.position())
        }
    };
}
macro_rules! typed {
    ($t:ty, $conv:expr) => {
        |b: &[u8]| {
            let mut d = Decoder::new(b);
            let r = d.decode::<$t>().ok().map($conv);
            (r, d.position())
        }
    };
}

fn targets() -> Vec<Target> {
    let t = |name, min: i128, max: i128, dec| Target { name, min, max, nonzero: false, is_char: false, dec };
    let nz = |name, min: i128, max: i128, dec| Target { name, min, max, nonzero: true, is_char: false, dec };
    vec![
        t("u8()", 0, u8::MAX as i128, acc!(u8)),
        t("u16()", 0, u16::MAX as i128, acc!(u16)),
        t("u32()", 0, u32::MAX as i128, acc!(u32)),
        t("u64()", 0, u64::MAX as i128, acc!(u64)),
        t("i8()", i8::MIN as i128, i8::MAX as i128, acc!(i8)),
        t("i16()", i16::MIN as i128, i16::MAX as i128, acc!(i16)),
        t("i32()", i32::MIN as i128, i32::MAX as i128, acc!(i32)),
        t("i64()", i64::MIN as i128, i64::MAX as i128, acc!(i64)),
        t("decode<usize>", 0, u64::MAX as i128, typed!(usize, |x| x as i128)),
        t("decode<isize>", i64::MIN as i128, i64::MAX as i128, typed!(isize, |x| x as i128)),
        t("decode<u8>", 0, u8::MAX as i128, typed!(u8, |x| x as i128)),
        t("decode<i64>", i64::MIN as i128, i64::MAX as i128, typed!(i64, |x| x as i128)),
        t("int()", -(1i128 << 64), (1i128 << 64) - 1, |b: &[u8]| {
            let mut d = Decoder::new(b);
            let r = d.int().ok().map(i128::from);
            (r, d.position())
        }),
        Target { name: "char()", min: 0, max: 0x10ffff, nonzero: false, is_char: true, dec: |b: &[u8]| {
            let mut d = Decoder::new(b);
            let r = d.char().ok().map(|c| c as u32 as i128);
            (r, d.position())
        } },
        nz("NonZeroU8", 0, u8::MAX as i128, typed!(NonZeroU8, |x| x.get() as i128)),
        nz("NonZeroU16", 0, u16::MAX as i128, typed!(NonZeroU16, |x| x.get() as i128)),
        nz("NonZeroU32", 0, u32::MAX as i128, typed!(NonZeroU32, |x| x.get() as i128)),
        nz("NonZeroU64", 0, u64::MAX as i128, typed!(NonZeroU64, |x| x.get() as i128)),
        nz("NonZeroUsize", 0, u64::MAX as i128, typed!(NonZeroUsize, |x| x.get() as i128)),
        nz("NonZeroI8", i8::MIN as i128, i8::MAX as i128, typed!(NonZeroI8, |x| x.get() as i128)),
        nz("NonZeroI16", i16::MIN as i128, i16::MAX as i128, typed!(NonZeroI16, |x| x.get() as i128)),
        nz("NonZeroI32", i32::MIN as i128, i32::MAX as i128, typed!(NonZeroI32, |x| x.get() as i128)),
        nz("NonZeroI64", i64::MIN as i128, i64::MAX as i128, typed!(NonZeroI64, |x| x.get() as i128)),
        nz("NonZeroIsize", i64::MIN as i128, i64::MAX as i128, typed!(NonZeroIsize, |x| x.get() as i128)),
    ]
}

fn encode_head(neg: bool, arg: u64, w: W, out: &mut [u8; 9]) -> usize {
    let m = if neg { 0x20 } else { 0x00 };
    match w {
        W::Imm => {
            out[0] = m | arg as u8;
            1
        }
        W::W1 => {
            out[0] = m | 24;
            out[1] = arg as u8;
            2
        }
        W::W2 => {
            out[0] = m | 25;
            out[1..3].copy_from_slice(&(arg as u16).to_be_bytes());
            3
        }
        W::W4 => {
            out[0] = m | 26;
            out[1..5].copy_from_slice(&(arg as u32).to_be_bytes());
            5
        }
        W::W8 => {
            out[0] = m | 27;
            out[1..9].copy_from_slice(&arg.to_be_bytes());
            9
        }
    }
}

/// the accessor a reported datatype names
fn accessor_for(t: Type) -> Option<fn(&[u8]) -> (Option<i128>, usize)> {
    Some(match t {
        Type::U8 => acc!(u8),
        Type::U16 => acc!(u16),
        Type::U32 => acc!(u32),
        Type::U64 => acc!(u64),
        Type::I8 => acc!(i8),
        Type::I16 => acc!(i16),
        Type::I32 => acc!(i32),
        Type::I64 => acc!(i64),
        Type::Int => |b: &[u8]| {
            let mut d = Decoder::new(b);
            let r = d.int().ok().map(i128::from);
            (r, d.position())
        },
        _ => return None,
    })
}

/// Check one encoded integer against all targets; returns the number of calls made.
#[inline]
fn check_one(r: &Report, sub: &str, ts: &[Target], neg: bool, arg: u64, w: W, with_suffix: bool) -> u64 {
    let mut buf = [0u8; 10];
    let mut head = [0u8; 9];
    let n = encode_head(neg, arg, w, &mut head);
    buf[..n].copy_from_slice(&head[..n]);
    buf[n] = 0x80; // a following byte that must not be consumed (and makes peek() succeed)
    let input = if with_suffix { &buf[..n + 1] } else { &buf[..n] };
    let v: i128 = if neg { -1 - arg as i128 } else { arg as i128 };
    let mut calls = 0;
    for t in ts {
        let (got, pos) = (t.dec)(input);
        calls += 1;
        let representable = v >= t.min && v <= t.max && !(t.nonzero && v == 0) && !(t.is_char && char::from_u32(v as u32).is_none());
        let ok = if representable { got == Some(v) && pos == n } else { got.is_none() };
        if !ok {
            r.fail(
                sub,
                None,
                json!({"input_hex": hex(input), "value": v.to_string(), "target": t.name}),
                if representable { format!("{} is representable but the call returned {:?} at position {}", v, got, pos) } else { format!("{} is not representable in the target but the call returned {:?}", v, got) },
            );
        }
    }
    // reported type names an accepting accessor
    let d = Decoder::new(input);
    calls += 1;
    match d.datatype() {
        Ok(ty) => match accessor_for(ty) {
            Some(a) => {
                let (got, pos) = a(input);
                if got != Some(v) || pos != n {
                    r.fail(sub, None, json!({"input_hex": hex(input), "value": v.to_string(), "datatype": format!("{:?}", ty)}), format!("datatype() reports {:?} but that accessor returned {:?} at position {}", ty, got, pos));
                }
            }
            None => r.fail(sub, None, json!({"input_hex": hex(input), "value": v.to_string()}), format!("datatype() of an integer item is {:?}", ty)),
        },
        Err(e) => {
            // type_of peeks one byte ahead for 0x38..=0x3b: with the suffix present this must not fail
            if with_suffix || !(neg && w != W::Imm) {
                r.fail(sub, None, json!({"input_hex": hex(input), "value": v.to_string()}), format!("datatype() failed: {}", e));
            }
        }
    }
    calls
}

fn int_conversions(r: &Report) {
    let sub = "int-conversions";
    r.space(sub, true, "Int built from the boundary lattice x sign -> TryFrom into u8..u128/i8..i128; From/TryFrom into Int from the boundary values of every source type", 1);
    let mut n = 0u64;
    macro_rules! elim {
        ($t:ty, $i:expr, $v:expr) => {{
            let got: Option<i128> = <$t>::try_from($i).ok().map(|x| x as i128);
            let want: Option<i128> = if $v >= <$t>::MIN as i128 && $v <= <$t>::MAX as i128 { Some($v) } else { None };
            n += 1;
            if got != want {
                r.fail(sub, None, json!({"int": $v.to_string(), "target": stringify!($t)}), format!("TryFrom<Int> gave {:?}, expected {:?}", got, want));
            }
        }};
    }
    for v in enumerate::lattice_int() {
        let i = match Int::try_from(v) {
            Ok(i) => i,
            Err(_) => {
                r.fail(sub, None, json!({"int": v.to_string()}), "TryFrom<i128> for Int refused a value inside [-2^64, 2^64-1]");
                continue;
            }
        };
        if i128::from(i) != v {
            r.fail(sub, None, json!({"int": v.to_string()}), format!("i128::from(Int) gave {}", i128::from(i)));
        }
        elim!(u8, i, v);
        elim!(u16, i, v);
        elim!(u32, i, v);
        elim!(u64, i, v);
        elim!(i8, i, v);
        elim!(i16, i, v);
        elim!(i32, i, v);
        elim!(i64, i, v);
        // u128: exact for non-negative
        let got = u128::try_from(i).ok();
        let want = if v >= 0 { Some(v as u128) } else { None };
        n += 1;
        if got != want {
            r.fail(sub, None, json!({"int": v.to_string(), "target": "u128"}), format!("TryFrom<Int> gave {:?}", got));
        }
    }
    // out of range i128/u128 sources must be refused
    for v in [-(1i128 << 64) - 1, 1i128 << 64, i128::MIN, i128::MAX] {
        n += 1;
        if Int::try_from(v).is_ok() {
            r.fail(sub, None, json!({"source": v.to_string()}), "TryFrom<i128> for Int accepted a value outside [-2^64, 2^64-1]");
        }
    }
    for v in [1u128 << 64, u128::MAX] {
        n += 1;
        if Int::try_from(v).is_ok() {
            r.fail(sub, None, json!({"source": v.to_string()}), "TryFrom<u128> for Int accepted a value above 2^64-1");
        }
    }
    macro_rules! intro {
        ($t:ty) => {
            for x in [<$t>::MIN, <$t>::MIN + 1, 0 as $t, 1 as $t, <$t>::MAX - 1, <$t>::MAX, 23 as $t, 24 as $t] {
                let i = Int::from(x);
                n += 1;
                if i128::from(i) != x as i128 {
                    r.fail(sub, None, json!({"source": x.to_string(), "type": stringify!($t)}), format!("Int::from gave {}", i128::from(i)));
                }
            }
        };
    }
    intro!(u8);
    intro!(u16);
    intro!(u32);
    intro!(u64);
    intro!(i8);
    intro!(i16);
    intro!(i32);
    intro!(i64);
    r.add(sub, n, n);
    r.outcome(sub, "checked", n);
    r.sample(sub, json!({"int": "-18446744073709551616", "target": "i64", "expected": "Err"}));
}

pub fn run(r: &Report) {
    let ts = targets();
    let sub = "sign-width-argument";
    let thorough = r.tier == Tier::Thorough;
    r.space(
        sub,
        true,
        if thorough { "both signs x every head width that can hold the argument x {all arguments < 2^16; 2^k +- 3; all 2^32 arguments at width 4; width 8 with high words 0,1,7fffffff,80000000,ffffffff} x 24 targets + datatype()" } else { "both signs x every head width that can hold the argument x {all arguments < 2^16; the 64-bit lattice 2^k +- 3} x 24 targets + datatype()" },
        2,
    );
    let shards = 256usize;
    let lat = enumerate::lattice64();
    mcx::par::run_shards(
        shards,
        |s| {
            let mut calls = 0u64;
            let mut cases = 0u64;
            mcx::slot::case("int-sweep", &[s as u8]);
            let per = 65536 / shards as u64;
            for arg in (s as u64 * per)..((s as u64 + 1) * per) {
                for w in W::admissible(arg) {
                    for neg in [false, true] {
                        calls += check_one(r, sub, &ts, neg, arg, *w, true);
                        cases += 1;
                    }
                }
            }
            if s == 0 {
                for arg in &lat {
                    for w in W::admissible(*arg) {
                        for neg in [false, true] {
                            calls += check_one(r, sub, &ts, neg, *arg, *w, true);
                            calls += check_one(r, sub, &ts, neg, *arg, *w, false);
                            cases += 2;
                        }
                    }
                }
            }
            if thorough {
                let per = (1u64 << 32) / shards as u64;
                for lo in (s as u64 * per)..((s as u64 + 1) * per) {
                    if lo % (1 << 20) == 0 {
                        mcx::slot::beat();
                    }
                    for neg in [false, true] {
                        // the full 2^32 sweep runs the accessors; every 17th argument runs all targets
                        calls += check_one(r, sub, if lo % 17 == 0 { &ts } else { &ts[..8] }, neg, lo, W::W4, true);
                        cases += 1;
                    }
                    for hi in [0u64, 1, 0x7fff_ffff, 0x8000_0000, 0xffff_ffff] {
                        // stride the low word for the high-word families to bound the cost
                        if hi != 0 && lo % 61 != 0 {
                            continue;
                        }
                        for neg in [false, true] {
                            calls += check_one(r, sub, &ts, neg, (hi << 32) | lo, W::W8, true);
                            cases += 1;
                        }
                    }
                }
            }
            r.add(sub, calls, calls);
            r.add_states(sub, cases, calls);
            r.outcome(sub, "encoded integers", cases);
            r.outcome(sub, "decoder calls", calls);
        },
        crate::hang_handler(r.property.clone()),
    );
    r.sample(sub, json!({"input_hex": "39ffff", "value": "-65536", "targets": "i16() -> Err, i32() -> Ok(-65536), datatype() -> I32"}));
    int_conversions(r);
}
