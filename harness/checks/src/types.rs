//! The table of built-in codec types: for each type its shape in the reference
//! model, the documented mapping of a Rust value to the data model (`ToModel`,
//! an independent reference encoder), a small exhaustive value domain, and
//! type-erased handles to run the real encoder / decoder / length function.

use minicbor::bytes::{ByteArray, ByteSlice, ByteVec};
use minicbor::data::{Int, Tag, Tagged};
use minicbor::decode::{self, Decode, Decoder};
use minicbor::encode::{self, write::Cursor, CborLen, Encode};
use refmodel::shape::Shape;
use refmodel::*;
use std::collections::*;
use std::sync::atomic::*;

#[derive(Debug, Clone, Copy, PartialEq, Eq, Hash, PartialOrd, Ord)]
pub enum ErrClass {
    EndOfInput,
    TypeMismatch,
    TagMismatch,
    Message,
    Custom,
    UnknownVariant,
    MissingValue,
    Other,
}

pub fn classify(e: &decode::Error) -> ErrClass {
    if e.is_end_of_input() {
        ErrClass::EndOfInput
    } else if e.is_type_mismatch() {
        ErrClass::TypeMismatch
    } else if e.is_tag_mismatch() {
        ErrClass::TagMismatch
    } else if e.is_message() {
        ErrClass::Message
    } else if e.is_custom() {
        ErrClass::Custom
    } else if e.is_unknown_variant() {
        ErrClass::UnknownVariant
    } else if e.is_missing_value() {
        ErrClass::MissingValue
    } else {
        ErrClass::Other
    }
}

/// Outcome of one decoding call.
#[derive(Debug, Clone)]
pub struct DecOut {
    pub res: Result<Item, ErrClass>,
    pub pos: usize,
    /// for borrowed results: does the result point into the input buffer?
    pub borrowed_inside: Option<bool>,
}

/// Outcome of one decoding call when only totality matters (the value is dropped inside).
#[derive(Debug, Clone, Copy)]
pub struct Raw {
    pub ok: bool,
    pub pos: usize,
    /// entry-point specific anomaly detected by the wrapper itself
    pub anomaly: Option<&'static str>,
}

pub fn raw_as<T: for<'b> Decode<'b, ()>>(b: &[u8], p: usize) -> Raw {
    let mut d = Decoder::new(b);
    d.set_position(p);
    let r = d.decode::<T>();
    Raw { ok: r.is_ok(), pos: d.position(), anomaly: None }
}

#[derive(Debug, Clone, PartialEq, Eq)]
pub enum EncErr {
    Write,
    Message,
    Custom,
    Other,
}

pub fn enc_class<E>(e: &encode::Error<E>) -> EncErr {
    if e.is_write() {
        EncErr::Write
    } else if e.is_message() {
        EncErr::Message
    } else if e.is_custom() {
        EncErr::Custom
    } else {
        EncErr::Other
    }
}

// ---------------------------------------------------------------------------------------------
// ToModel: the documented mapping from Rust values to the data model, in wire order.

pub trait ToModel {
    fn to_model(&self) -> Item;
}

macro_rules! model_uint { ($($t:ty)*) => { $( impl ToModel for $t { fn to_model(&self) -> Item { Item::uint(*self as u64) } } )* } }
macro_rules! model_sint { ($($t:ty)*) => { $( impl ToModel for $t { fn to_model(&self) -> Item { Item::int(*self as i128) } } )* } }
model_uint!(u8 u16 u32 u64 usize);
model_sint!(i8 i16 i32 i64 isize);

impl ToModel for bool {
    fn to_model(&self) -> Item {
        Item::bool(*self)
    }
}
impl ToModel for char {
    fn to_model(&self) -> Item {
        Item::uint(*self as u32 as u64)
    }
}
impl ToModel for f32 {
    fn to_model(&self) -> Item {
        Item::f32(self.to_bits())
    }
}
impl ToModel for f64 {
    fn to_model(&self) -> Item {
        Item::f64(self.to_bits())
    }
}
impl ToModel for str {
    fn to_model(&self) -> Item {
        Item::text(self)
    }
}
impl ToModel for String {
    fn to_model(&self) -> Item {
        Item::text(self)
    }
}
impl ToModel for Box<str> {
    fn to_model(&self) -> Item {
        Item::text(self)
    }
}
impl ToModel for std::borrow::Cow<'_, str> {
    fn to_model(&self) -> Item {
        Item::text(self)
    }
}
impl ToModel for std::borrow::Cow<'_, [u16]> {
    fn to_model(&self) -> Item {
        self.to_vec().to_model()
    }
}
impl ToModel for std::borrow::Cow<'_, std::ffi::CStr> {
    fn to_model(&self) -> Item {
        Item::bytes(self.to_bytes_with_nul())
    }
}
impl ToModel for std::borrow::Cow<'_, std::path::Path> {
    fn to_model(&self) -> Item {
        self.to_path_buf().to_model()
    }
}
impl ToModel for std::ffi::CString {
    fn to_model(&self) -> Item {
        Item::bytes(self.as_bytes_with_nul())
    }
}
impl ToModel for std::ffi::CStr {
    fn to_model(&self) -> Item {
        Item::bytes(self.to_bytes_with_nul())
    }
}
impl ToModel for ByteVec {
    fn to_model(&self) -> Item {
        Item::bytes(self)
    }
}
impl ToModel for ByteSlice {
    fn to_model(&self) -> Item {
        Item::bytes(self)
    }
}
impl<const N: usize> ToModel for ByteArray<N> {
    fn to_model(&self) -> Item {
        Item::bytes(&self[..])
    }
}
impl<T: ToModel + ?Sized> ToModel for &T {
    fn to_model(&self) -> Item {
        (**self).to_model()
    }
}
impl<T: ToModel> ToModel for Box<T> {
    fn to_model(&self) -> Item {
        (**self).to_model()
    }
}
impl<T: ToModel> ToModel for Option<T> {
    fn to_model(&self) -> Item {
        match self {
            None => NULL,
            Some(x) => x.to_model(),
        }
    }
}
impl<T: ToModel, E: ToModel> ToModel for Result<T, E> {
    fn to_model(&self) -> Item {
        match self {
            Ok(x) => Item::array(vec![Item::uint(0), x.to_model()]),
            Err(x) => Item::array(vec![Item::uint(1), x.to_model()]),
        }
    }
}
impl ToModel for () {
    fn to_model(&self) -> Item {
        Item::array(vec![])
    }
}
impl<T> ToModel for std::marker::PhantomData<T> {
    fn to_model(&self) -> Item {
        Item::array(vec![])
    }
}
impl<T: ToModel> ToModel for std::num::Wrapping<T> {
    fn to_model(&self) -> Item {
        self.0.to_model()
    }
}
impl<T: ToModel + Copy> ToModel for std::cell::Cell<T> {
    fn to_model(&self) -> Item {
        self.get().to_model()
    }
}
impl<T: ToModel> ToModel for std::cell::RefCell<T> {
    fn to_model(&self) -> Item {
        self.borrow().to_model()
    }
}
macro_rules! model_nonzero { ($($t:ty)*) => { $( impl ToModel for $t { fn to_model(&self) -> Item { Item::int(self.get() as i128) } } )* } }
model_nonzero!(std::num::NonZeroU8 std::num::NonZeroU16 std::num::NonZeroU32 std::num::NonZeroU64 std::num::NonZeroUsize
               std::num::NonZeroI8 std::num::NonZeroI16 std::num::NonZeroI32 std::num::NonZeroI64 std::num::NonZeroIsize);
macro_rules! model_atomic { ($($t:ty)*) => { $( impl ToModel for $t { fn to_model(&self) -> Item { self.load(Ordering::SeqCst).to_model() } } )* } }
model_atomic!(AtomicBool AtomicU8 AtomicU16 AtomicU32 AtomicU64 AtomicUsize AtomicI8 AtomicI16 AtomicI32 AtomicI64 AtomicIsize);

impl ToModel for Int {
    fn to_model(&self) -> Item {
        Item::int(i128::from(*self))
    }
}
impl<const N: u64, T: ToModel> ToModel for Tagged<N, T> {
    fn to_model(&self) -> Item {
        Item::tag(N, self.value().to_model())
    }
}
impl<T: ToModel> ToModel for [T] {
    fn to_model(&self) -> Item {
        Item::array(self.iter().map(|x| x.to_model()).collect())
    }
}
impl<T: ToModel, const N: usize> ToModel for [T; N] {
    fn to_model(&self) -> Item {
        Item::array(self.iter().map(|x| x.to_model()).collect())
    }
}
macro_rules! model_seq { ($($t:ident)*) => { $( impl<T: ToModel> ToModel for $t<T> { fn to_model(&self) -> Item { Item::array(self.iter().map(|x| x.to_model()).collect()) } } )* } }
model_seq!(Vec VecDeque LinkedList BinaryHeap BTreeSet);
impl<T: ToModel, S> ToModel for HashSet<T, S> {
    fn to_model(&self) -> Item {
        Item::array(self.iter().map(|x| x.to_model()).collect())
    }
}
impl<K: ToModel, V: ToModel> ToModel for BTreeMap<K, V> {
    fn to_model(&self) -> Item {
        Item::map(self.iter().map(|(k, v)| (k.to_model(), v.to_model())).collect())
    }
}
impl<K: ToModel, V: ToModel, S> ToModel for HashMap<K, V, S> {
    fn to_model(&self) -> Item {
        Item::map(self.iter().map(|(k, v)| (k.to_model(), v.to_model())).collect())
    }
}
macro_rules! model_tuple { ($( ($($T:ident $i:tt)+) )+) => { $(
    impl<$($T: ToModel),+> ToModel for ($($T,)+) { fn to_model(&self) -> Item { Item::array(vec![$(self.$i.to_model()),+]) } }
)+ } }
model_tuple! {
    (A 0) (A 0 B 1) (A 0 B 1 C 2) (A 0 B 1 C 2 D 3) (A 0 B 1 C 2 D 3 E 4) (A 0 B 1 C 2 D 3 E 4 F 5)
    (A 0 B 1 C 2 D 3 E 4 F 5 G 6) (A 0 B 1 C 2 D 3 E 4 F 5 G 6 H 7) (A 0 B 1 C 2 D 3 E 4 F 5 G 6 H 7 I 8)
    (A 0 B 1 C 2 D 3 E 4 F 5 G 6 H 7 I 8 J 9) (A 0 B 1 C 2 D 3 E 4 F 5 G 6 H 7 I 8 J 9 K 10)
    (A 0 B 1 C 2 D 3 E 4 F 5 G 6 H 7 I 8 J 9 K 10 L 11) (A 0 B 1 C 2 D 3 E 4 F 5 G 6 H 7 I 8 J 9 K 10 L 11 M 12)
    (A 0 B 1 C 2 D 3 E 4 F 5 G 6 H 7 I 8 J 9 K 10 L 11 M 12 N 13) (A 0 B 1 C 2 D 3 E 4 F 5 G 6 H 7 I 8 J 9 K 10 L 11 M 12 N 13 O 14)
    (A 0 B 1 C 2 D 3 E 4 F 5 G 6 H 7 I 8 J 9 K 10 L 11 M 12 N 13 O 14 P 15)
}
impl<T: ToModel> ToModel for std::ops::Range<T> {
    fn to_model(&self) -> Item {
        Item::array(vec![self.start.to_model(), self.end.to_model()])
    }
}
impl<T: ToModel> ToModel for std::ops::RangeInclusive<T> {
    fn to_model(&self) -> Item {
        Item::array(vec![self.start().to_model(), self.end().to_model()])
    }
}
impl<T: ToModel> ToModel for std::ops::RangeFrom<T> {
    fn to_model(&self) -> Item {
        Item::array(vec![self.start.to_model()])
    }
}
impl<T: ToModel> ToModel for std::ops::RangeTo<T> {
    fn to_model(&self) -> Item {
        Item::array(vec![self.end.to_model()])
    }
}
impl<T: ToModel> ToModel for std::ops::RangeToInclusive<T> {
    fn to_model(&self) -> Item {
        Item::array(vec![self.end.to_model()])
    }
}
impl<T: ToModel> ToModel for std::ops::Bound<T> {
    fn to_model(&self) -> Item {
        match self {
            std::ops::Bound::Included(x) => Item::array(vec![Item::uint(0), x.to_model()]),
            std::ops::Bound::Excluded(x) => Item::array(vec![Item::uint(1), x.to_model()]),
            std::ops::Bound::Unbounded => Item::array(vec![Item::uint(2), Item::array(vec![])]),
        }
    }
}
impl ToModel for std::time::Duration {
    fn to_model(&self) -> Item {
        Item::array(vec![Item::uint(self.as_secs()), Item::uint(self.subsec_nanos() as u64)])
    }
}
impl ToModel for std::time::SystemTime {
    fn to_model(&self) -> Item {
        self.duration_since(std::time::UNIX_EPOCH).expect("domain only holds post-epoch times").to_model()
    }
}
impl ToModel for std::net::Ipv4Addr {
    fn to_model(&self) -> Item {
        Item::bytes(&self.octets())
    }
}
impl ToModel for std::net::Ipv6Addr {
    fn to_model(&self) -> Item {
        Item::bytes(&self.octets())
    }
}
impl ToModel for std::net::IpAddr {
    fn to_model(&self) -> Item {
        match self {
            std::net::IpAddr::V4(a) => Item::array(vec![Item::uint(0), a.to_model()]),
            std::net::IpAddr::V6(a) => Item::array(vec![Item::uint(1), a.to_model()]),
        }
    }
}
impl ToModel for std::net::SocketAddrV4 {
    fn to_model(&self) -> Item {
        Item::array(vec![self.ip().to_model(), Item::uint(self.port() as u64)])
    }
}
impl ToModel for std::net::SocketAddrV6 {
    fn to_model(&self) -> Item {
        Item::array(vec![self.ip().to_model(), Item::uint(self.port() as u64)])
    }
}
impl ToModel for std::net::SocketAddr {
    fn to_model(&self) -> Item {
        match self {
            std::net::SocketAddr::V4(a) => Item::array(vec![Item::uint(0), a.to_model()]),
            std::net::SocketAddr::V6(a) => Item::array(vec![Item::uint(1), a.to_model()]),
        }
    }
}
impl ToModel for std::path::Path {
    fn to_model(&self) -> Item {
        Item::text(self.to_str().expect("domain only holds UTF-8 paths"))
    }
}
impl ToModel for std::path::PathBuf {
    fn to_model(&self) -> Item {
        self.as_path().to_model()
    }
}
impl ToModel for Box<std::path::Path> {
    fn to_model(&self) -> Item {
        (**self).to_model()
    }
}

// ---------------------------------------------------------------------------------------------
// Ty: shape + small exhaustive domain.

pub trait Ty: Sized {
    fn shape() -> Shape;
    /// Boundary-dense small domain (all values for tiny types).
    fn small() -> Vec<Self>;
    /// false if the encoding order of the value's parts is unspecified (hash collections, heaps)
    fn ordered() -> bool {
        true
    }
}

/// boundary values of the unsigned lattice that fit into `bits`
fn ubounds(bits: u32) -> Vec<u64> {
    let max = if bits == 64 { u64::MAX } else { (1u64 << bits) - 1 };
    let mut v: Vec<u64> = vec![0, 1, 23, 24, 255, 256, 65535, 65536, 0xffff_ffff, 0x1_0000_0000, max, max / 2, max / 2 + 1];
    v.retain(|x| *x <= max);
    v.sort_unstable();
    v.dedup();
    v
}

fn sbounds(bits: u32) -> Vec<i64> {
    let max: i128 = (1i128 << (bits - 1)) - 1;
    let min: i128 = -(1i128 << (bits - 1));
    let mut v: Vec<i128> = vec![0, 1, 23, 24, 255, 256, 65535, 65536, 0xffff_ffff, 0x1_0000_0000, -1, -24, -25, -256, -257, -65536, -65537, -0x1_0000_0000, -0x1_0000_0001, max, min, min + 1];
    v.retain(|x| *x <= max && *x >= min);
    v.sort_unstable();
    v.dedup();
    v.into_iter().map(|x| x as i64).collect()
}

macro_rules! ty_uint { ($($t:ty, $bits:expr);*) => { $( impl Ty for $t {
    fn shape() -> Shape { Shape::UInt($bits) }
    fn small() -> Vec<Self> { ubounds($bits).into_iter().map(|x| x as $t).collect() }
} )* } }
ty_uint!(u8, 8; u16, 16; u32, 32; u64, 64; usize, 64);
macro_rules! ty_sint { ($($t:ty, $bits:expr);*) => { $( impl Ty for $t {
    fn shape() -> Shape { Shape::SInt($bits) }
    fn small() -> Vec<Self> { sbounds($bits).into_iter().map(|x| x as $t).collect() }
} )* } }
ty_sint!(i8, 8; i16, 16; i32, 32; i64, 64; isize, 64);

impl Ty for bool {
    fn shape() -> Shape {
        Shape::Bool
    }
    fn small() -> Vec<Self> {
        vec![false, true]
    }
}
impl Ty for char {
    fn shape() -> Shape {
        Shape::Char
    }
    fn small() -> Vec<Self> {
        vec!['\0', '\u{17}', '\u{18}', 'a', '\u{ff}', '\u{100}', '\u{d7ff}', '\u{e000}', '\u{ffff}', '\u{10000}', '\u{10ffff}']
    }
}
impl Ty for f32 {
    fn shape() -> Shape {
        Shape::F32
    }
    fn small() -> Vec<Self> {
        [0u32, 0x8000_0000, 1, 0x007f_ffff, 0x0080_0000, 0x3f80_0000, 0x3fc0_0000, 0x7f7f_ffff, 0x7f80_0000, 0xff80_0000, 0x7fc0_0000, 0x7f80_0001, 0xffc1_2345, 0x4770_0000]
            .iter()
            .map(|b| f32::from_bits(*b))
            .collect()
    }
}
impl Ty for f64 {
    fn shape() -> Shape {
        Shape::F64
    }
    fn small() -> Vec<Self> {
        [0u64, 1 << 63, 1, 0x000f_ffff_ffff_ffff, 0x0010_0000_0000_0000, 0x3ff0_0000_0000_0000, 0x3ff8_0000_0000_0000, 0x7fef_ffff_ffff_ffff, 0x7ff0_0000_0000_0000, 0xfff0_0000_0000_0000, 0x7ff8_0000_0000_0000, 0x7ff0_0000_0000_0001, 0xfff8_1234_5678_9abc]
            .iter()
            .map(|b| f64::from_bits(*b))
            .collect()
    }
}

pub fn small_strings() -> Vec<String> {
    let mut v = vec!["".to_string(), "a".to_string(), "\u{e9}\u{4e16}\u{1f600}".to_string(), "a\"b\\c\n".to_string()];
    for n in [23usize, 24, 255, 256] {
        v.push("x".repeat(n));
    }
    v
}

pub fn small_bytes() -> Vec<Vec<u8>> {
    let mut v = vec![vec![], vec![0], vec![0xff, 0x00, 0x7f]];
    for n in [23usize, 24, 255, 256] {
        v.push((0..n).map(|i| i as u8).collect());
    }
    v
}

impl Ty for String {
    fn shape() -> Shape {
        Shape::Str
    }
    fn small() -> Vec<Self> {
        small_strings()
    }
}
impl Ty for Box<str> {
    fn shape() -> Shape {
        Shape::Str
    }
    fn small() -> Vec<Self> {
        small_strings().into_iter().map(|s| s.into_boxed_str()).collect()
    }
}
impl Ty for std::borrow::Cow<'static, str> {
    fn shape() -> Shape {
        Shape::Str
    }
    fn small() -> Vec<Self> {
        small_strings().into_iter().map(std::borrow::Cow::Owned).collect()
    }
}
impl Ty for std::borrow::Cow<'static, [u16]> {
    fn shape() -> Shape {
        <Vec<u16> as Ty>::shape()
    }
    fn small() -> Vec<Self> {
        <Vec<u16> as Ty>::small().into_iter().enumerate().map(|(i, v)| if i % 2 == 0 { std::borrow::Cow::Owned(v) } else { std::borrow::Cow::Borrowed(&*Vec::leak(v)) }).collect()
    }
}
impl Ty for std::borrow::Cow<'static, std::ffi::CStr> {
    fn shape() -> Shape {
        Shape::CStr
    }
    fn small() -> Vec<Self> {
        <std::ffi::CString as Ty>::small().into_iter().map(std::borrow::Cow::Owned).collect()
    }
}
impl Ty for std::borrow::Cow<'static, std::path::Path> {
    fn shape() -> Shape {
        Shape::Str
    }
    fn small() -> Vec<Self> {
        <std::path::PathBuf as Ty>::small().into_iter().map(std::borrow::Cow::Owned).collect()
    }
}
impl Ty for std::ffi::CString {
    fn shape() -> Shape {
        Shape::CStr
    }
    fn small() -> Vec<Self> {
        vec![std::ffi::CString::new("").unwrap(), std::ffi::CString::new("abc").unwrap(), std::ffi::CString::new(vec![b'x'; 23]).unwrap(), std::ffi::CString::new(vec![0xffu8; 255]).unwrap()]
    }
}
impl ToModel for std::borrow::Cow<'static, ByteSlice> {
    fn to_model(&self) -> Item {
        Item::bytes(self)
    }
}
impl Ty for std::borrow::Cow<'static, ByteSlice> {
    fn shape() -> Shape {
        Shape::Bytes
    }
    fn small() -> Vec<Self> {
        // (borrowed only: the owned form is whatever `ToOwned for ByteSlice` says, which is part of the subject)
        small_bytes().into_iter().chain([vec![0x18u8, 0xff]]).map(|b| std::borrow::Cow::Borrowed(<&ByteSlice>::from(&*Vec::leak(b)))).collect()
    }
}
impl Ty for ByteVec {
    fn shape() -> Shape {
        Shape::Bytes
    }
    fn small() -> Vec<Self> {
        small_bytes().into_iter().map(ByteVec::from).collect()
    }
}
impl<const N: usize> Ty for ByteArray<N> {
    fn shape() -> Shape {
        Shape::ByteArray(N)
    }
    fn small() -> Vec<Self> {
        let mut a = [0u8; N];
        let mut b = [0xffu8; N];
        for i in 0..N {
            a[i] = i as u8;
            b[i] = 0xff - i as u8;
        }
        vec![ByteArray::from([0u8; N]), ByteArray::from(a), ByteArray::from(b)]
    }
}
impl<T: Ty> Ty for Box<T> {
    fn shape() -> Shape {
        T::shape()
    }
    fn small() -> Vec<Self> {
        T::small().into_iter().map(Box::new).collect()
    }
    fn ordered() -> bool {
        T::ordered()
    }
}
impl<T: Ty> Ty for Option<T> {
    fn shape() -> Shape {
        Shape::Option(Box::new(T::shape()))
    }
    fn small() -> Vec<Self> {
        let mut v = vec![None];
        v.extend(T::small().into_iter().map(Some));
        v
    }
    fn ordered() -> bool {
        T::ordered()
    }
}
impl<T: Ty, E: Ty> Ty for Result<T, E> {
    fn shape() -> Shape {
        Shape::Result(Box::new(T::shape()), Box::new(E::shape()))
    }
    fn small() -> Vec<Self> {
        let mut v: Vec<Self> = T::small().into_iter().map(Ok).collect();
        v.extend(E::small().into_iter().map(Err));
        v
    }
    fn ordered() -> bool {
        T::ordered() && E::ordered()
    }
}
impl Ty for () {
    fn shape() -> Shape {
        Shape::Unit
    }
    fn small() -> Vec<Self> {
        vec![()]
    }
}
impl<T> Ty for std::marker::PhantomData<T> {
    fn shape() -> Shape {
        Shape::Unit
    }
    fn small() -> Vec<Self> {
        vec![std::marker::PhantomData]
    }
}
impl<T: Ty> Ty for std::num::Wrapping<T> {
    fn shape() -> Shape {
        T::shape()
    }
    fn small() -> Vec<Self> {
        T::small().into_iter().map(std::num::Wrapping).collect()
    }
}
impl<T: Ty + Copy> Ty for std::cell::Cell<T> {
    fn shape() -> Shape {
        T::shape()
    }
    fn small() -> Vec<Self> {
        T::small().into_iter().map(std::cell::Cell::new).collect()
    }
}
impl<T: Ty> Ty for std::cell::RefCell<T> {
    fn shape() -> Shape {
        T::shape()
    }
    fn small() -> Vec<Self> {
        T::small().into_iter().map(std::cell::RefCell::new).collect()
    }
}
macro_rules! ty_nonzero { ($($t:ty, $inner:ty, $shape:expr);*) => { $( impl Ty for $t {
    fn shape() -> Shape { $shape }
    fn small() -> Vec<Self> { <$inner>::small().into_iter().filter_map(<$t>::new).collect() }
} )* } }
ty_nonzero!(std::num::NonZeroU8, u8, Shape::NonZeroU(8); std::num::NonZeroU16, u16, Shape::NonZeroU(16); std::num::NonZeroU32, u32, Shape::NonZeroU(32);
            std::num::NonZeroU64, u64, Shape::NonZeroU(64); std::num::NonZeroUsize, usize, Shape::NonZeroU(64);
            std::num::NonZeroI8, i8, Shape::NonZeroS(8); std::num::NonZeroI16, i16, Shape::NonZeroS(16); std::num::NonZeroI32, i32, Shape::NonZeroS(32);
            std::num::NonZeroI64, i64, Shape::NonZeroS(64); std::num::NonZeroIsize, isize, Shape::NonZeroS(64));
macro_rules! ty_atomic { ($($t:ty, $inner:ty);*) => { $( impl Ty for $t {
    fn shape() -> Shape { <$inner>::shape() }
    fn small() -> Vec<Self> { <$inner>::small().into_iter().map(<$t>::new).collect() }
} )* } }
ty_atomic!(AtomicBool, bool; AtomicU8, u8; AtomicU16, u16; AtomicU32, u32; AtomicU64, u64; AtomicUsize, usize;
           AtomicI8, i8; AtomicI16, i16; AtomicI32, i32; AtomicI64, i64; AtomicIsize, isize);

impl Ty for Int {
    fn shape() -> Shape {
        Shape::IntFull
    }
    fn small() -> Vec<Self> {
        let mut v = Vec::new();
        for n in ubounds(64) {
            v.push(Int::from(n));
            v.push(Int::try_from(-1 - n as i128).unwrap());
        }
        v
    }
}
impl<const N: u64, T: Ty> Ty for Tagged<N, T> {
    fn shape() -> Shape {
        Shape::Tagged(N, Box::new(T::shape()))
    }
    fn small() -> Vec<Self> {
        T::small().into_iter().map(Tagged::new).collect()
    }
    fn ordered() -> bool {
        T::ordered()
    }
}

/// Sequences over an element domain: lengths 0, 1, 2, 3 (first elements) and the width boundaries 23, 24, 255, 256 (cycled).
fn seqs_of<T: Ty + Clone>() -> Vec<Vec<T>> {
    let d = T::small();
    let mut out = vec![vec![]];
    for x in &d {
        out.push(vec![x.clone()]);
    }
    if d.len() >= 2 {
        out.push(vec![d[0].clone(), d[d.len() - 1].clone()]);
        out.push(vec![d[d.len() - 1].clone(), d[0].clone(), d[d.len() / 2].clone()]);
        // duplicates matter for sets and maps
        out.push(vec![d[1].clone(), d[1].clone()]);
    }
    for n in [23usize, 24, 255, 256] {
        out.push((0..n).map(|i| d[i % d.len()].clone()).collect());
    }
    // the two-byte / four-byte length boundary for the cheap element types
    if std::mem::size_of::<T>() == 1 {
        for n in [65535usize, 65536] {
            out.push((0..n).map(|i| d[i % d.len()].clone()).collect());
        }
    }
    out
}

macro_rules! ty_seq { ($($t:ident)*) => { $( impl<T: Ty + Clone> Ty for $t<T> {
    fn shape() -> Shape { Shape::Seq(Box::new(T::shape())) }
    fn small() -> Vec<Self> { seqs_of::<T>().into_iter().map(|v| v.into_iter().collect()).collect() }
    fn ordered() -> bool { T::ordered() }
} )* } }
ty_seq!(Vec LinkedList);
impl<T: Ty + Clone> Ty for VecDeque<T> {
    fn shape() -> Shape {
        Shape::Seq(Box::new(T::shape()))
    }
    fn small() -> Vec<Self> {
        // every sequence once contiguous and once wrapped around the end of the ring buffer (built by pushing the
        // second half to the back and the first half to the front of a deque with spare capacity)
        let mut out: Vec<Self> = Vec::new();
        for v in seqs_of::<T>() {
            out.push(v.iter().cloned().collect());
            if v.len() >= 2 && v.len() <= 256 {
                let mid = v.len() / 2;
                let mut d: VecDeque<T> = VecDeque::with_capacity(v.len() + 8);
                for x in &v[mid..] {
                    d.push_back(x.clone());
                }
                for x in v[..mid].iter().rev() {
                    d.push_front(x.clone());
                }
                debug_assert!(!d.as_slices().1.is_empty() || d.len() < 2);
                out.push(d);
            }
        }
        out
    }
    fn ordered() -> bool {
        T::ordered()
    }
}
impl<T: Ty + Clone + Ord> Ty for BinaryHeap<T> {
    fn shape() -> Shape {
        Shape::Bag(Box::new(T::shape()))
    }
    fn small() -> Vec<Self> {
        seqs_of::<T>().into_iter().map(|v| v.into_iter().collect()).collect()
    }
    fn ordered() -> bool {
        false
    }
}
impl<T: Ty + Clone + Ord> Ty for BTreeSet<T> {
    fn shape() -> Shape {
        Shape::Set(Box::new(T::shape()))
    }
    fn small() -> Vec<Self> {
        seqs_of::<T>().into_iter().map(|v| v.into_iter().collect()).collect()
    }
}
impl<T: Ty + Clone + Eq + std::hash::Hash, S: std::hash::BuildHasher + Default> Ty for HashSet<T, S> {
    fn shape() -> Shape {
        Shape::Set(Box::new(T::shape()))
    }
    fn small() -> Vec<Self> {
        seqs_of::<T>().into_iter().map(|v| v.into_iter().collect()).collect()
    }
    fn ordered() -> bool {
        false
    }
}
fn maps_of<K: Ty + Clone, V: Ty + Clone>() -> Vec<Vec<(K, V)>> {
    let ks = K::small();
    let vs = V::small();
    let mut out = vec![vec![]];
    for (i, k) in ks.iter().enumerate() {
        out.push(vec![(k.clone(), vs[i % vs.len()].clone())]);
    }
    out.push(ks.iter().enumerate().map(|(i, k)| (k.clone(), vs[(i * 7 + 1) % vs.len()].clone())).collect());
    if ks.len() >= 2 {
        out.push(vec![(ks[1].clone(), vs[0].clone()), (ks[0].clone(), vs[vs.len() - 1].clone())]);
    }
    out
}
impl<K: Ty + Clone + Ord, V: Ty + Clone> Ty for BTreeMap<K, V> {
    fn shape() -> Shape {
        Shape::Map(Box::new(K::shape()), Box::new(V::shape()))
    }
    fn small() -> Vec<Self> {
        maps_of::<K, V>().into_iter().map(|v| v.into_iter().collect()).collect()
    }
    fn ordered() -> bool {
        V::ordered()
    }
}
impl<K: Ty + Clone + Eq + std::hash::Hash, V: Ty + Clone, S: std::hash::BuildHasher + Default> Ty for HashMap<K, V, S> {
    fn shape() -> Shape {
        Shape::Map(Box::new(K::shape()), Box::new(V::shape()))
    }
    fn small() -> Vec<Self> {
        maps_of::<K, V>().into_iter().map(|v| v.into_iter().collect()).collect()
    }
    fn ordered() -> bool {
        false
    }
}
impl<T: Ty + Clone, const N: usize> Ty for [T; N] {
    fn shape() -> Shape {
        Shape::FixedArray(Box::new(T::shape()), N)
    }
    fn small() -> Vec<Self> {
        let d = T::small();
        let mut out = Vec::new();
        for off in 0..d.len().min(4) {
            out.push(std::array::from_fn(|i| d[(i + off) % d.len()].clone()));
        }
        if N == 0 {
            out.truncate(1);
        }
        out
    }
    fn ordered() -> bool {
        T::ordered()
    }
}

/// product of (reduced) component domains, at most `cap` combinations, varying one component at a time
macro_rules! ty_tuple { ($( ($($T:ident $i:tt)+) )+) => { $(
    impl<$($T: Ty + Clone),+> Ty for ($($T,)+) {
        fn shape() -> Shape { Shape::Tuple(vec![$($T::shape()),+]) }
        fn small() -> Vec<Self> {
            let doms = ($($T::small(),)+);
            let lens = [$(doms.$i.len()),+];
            let mk = |sel: &dyn Fn(usize) -> usize| ($(doms.$i[sel($i)].clone(),)+);
            let mut out = vec![mk(&|_| 0)];
            for j in 0..lens.len() {
                for k in 1..lens[j] {
                    out.push(mk(&|i| if i == j { k } else { 0 }));
                }
            }
            // and one with every component at its last value
            out.push(mk(&|i| lens[i] - 1));
            out
        }
        fn ordered() -> bool { true $(&& $T::ordered())+ }
    }
)+ } }
ty_tuple! {
    (A 0) (A 0 B 1) (A 0 B 1 C 2) (A 0 B 1 C 2 D 3) (A 0 B 1 C 2 D 3 E 4) (A 0 B 1 C 2 D 3 E 4 F 5)
    (A 0 B 1 C 2 D 3 E 4 F 5 G 6) (A 0 B 1 C 2 D 3 E 4 F 5 G 6 H 7) (A 0 B 1 C 2 D 3 E 4 F 5 G 6 H 7 I 8)
    (A 0 B 1 C 2 D 3 E 4 F 5 G 6 H 7 I 8 J 9) (A 0 B 1 C 2 D 3 E 4 F 5 G 6 H 7 I 8 J 9 K 10)
    (A 0 B 1 C 2 D 3 E 4 F 5 G 6 H 7 I 8 J 9 K 10 L 11) (A 0 B 1 C 2 D 3 E 4 F 5 G 6 H 7 I 8 J 9 K 10 L 11 M 12)
    (A 0 B 1 C 2 D 3 E 4 F 5 G 6 H 7 I 8 J 9 K 10 L 11 M 12 N 13) (A 0 B 1 C 2 D 3 E 4 F 5 G 6 H 7 I 8 J 9 K 10 L 11 M 12 N 13 O 14)
    (A 0 B 1 C 2 D 3 E 4 F 5 G 6 H 7 I 8 J 9 K 10 L 11 M 12 N 13 O 14 P 15)
}

fn pairs_of<T: Ty + Clone>() -> Vec<(T, T)> {
    let d = T::small();
    let mut out = Vec::new();
    for a in &d {
        out.push((a.clone(), d[0].clone()));
        out.push((d[d.len() - 1].clone(), a.clone()));
    }
    out
}
impl<T: Ty + Clone> Ty for std::ops::Range<T> {
    fn shape() -> Shape {
        Shape::Fields(vec![T::shape(), T::shape()])
    }
    fn small() -> Vec<Self> {
        pairs_of::<T>().into_iter().map(|(a, b)| a..b).collect()
    }
}
impl<T: Ty + Clone> Ty for std::ops::RangeInclusive<T> {
    fn shape() -> Shape {
        Shape::Fields(vec![T::shape(), T::shape()])
    }
    fn small() -> Vec<Self> {
        pairs_of::<T>().into_iter().map(|(a, b)| a..=b).collect()
    }
}
impl<T: Ty + Clone> Ty for std::ops::RangeFrom<T> {
    fn shape() -> Shape {
        Shape::Fields(vec![T::shape()])
    }
    fn small() -> Vec<Self> {
        T::small().into_iter().map(|a| a..).collect()
    }
}
impl<T: Ty + Clone> Ty for std::ops::RangeTo<T> {
    fn shape() -> Shape {
        Shape::Fields(vec![T::shape()])
    }
    fn small() -> Vec<Self> {
        T::small().into_iter().map(|a| ..a).collect()
    }
}
impl<T: Ty + Clone> Ty for std::ops::RangeToInclusive<T> {
    fn shape() -> Shape {
        Shape::Fields(vec![T::shape()])
    }
    fn small() -> Vec<Self> {
        T::small().into_iter().map(|a| ..=a).collect()
    }
}
impl<T: Ty + Clone> Ty for std::ops::Bound<T> {
    fn shape() -> Shape {
        Shape::Bound(Box::new(T::shape()))
    }
    fn small() -> Vec<Self> {
        let mut v = vec![std::ops::Bound::Unbounded];
        for x in T::small() {
            v.push(std::ops::Bound::Included(x.clone()));
            v.push(std::ops::Bound::Excluded(x));
        }
        v
    }
}
impl Ty for std::time::Duration {
    fn shape() -> Shape {
        Shape::Duration
    }
    fn small() -> Vec<Self> {
        let mut v = Vec::new();
        for s in [0u64, 1, 23, 24, 255, 256, 65536, 0xffff_ffff, 0x1_0000_0000, i64::MAX as u64, u64::MAX] {
            for n in [0u32, 1, 23, 24, 255, 256, 65535, 65536, 999_999_999] {
                v.push(std::time::Duration::new(s, n));
            }
        }
        v
    }
}
impl Ty for std::time::SystemTime {
    fn shape() -> Shape {
        Shape::SystemTime
    }
    fn small() -> Vec<Self> {
        let mut v = Vec::new();
        for s in [0u64, 1, 24, 65536, 0x1_0000_0000, 1u64 << 40] {
            for n in [0u32, 1, 999_999_999] {
                v.push(std::time::UNIX_EPOCH + std::time::Duration::new(s, n));
            }
        }
        v
    }
}
impl Ty for std::net::Ipv4Addr {
    fn shape() -> Shape {
        Shape::ByteArray(4)
    }
    fn small() -> Vec<Self> {
        vec![[0, 0, 0, 0].into(), [127, 0, 0, 1].into(), [255, 255, 255, 255].into(), [1, 2, 3, 4].into()]
    }
}
impl Ty for std::net::Ipv6Addr {
    fn shape() -> Shape {
        Shape::ByteArray(16)
    }
    fn small() -> Vec<Self> {
        // incl. the special forms: loopback, IPv4-mapped (::ffff:a.b.c.d), IPv4-compatible, link-local, multicast
        vec![
            [0u8; 16].into(),
            [0xffu8; 16].into(),
            std::array::from_fn::<u8, 16, _>(|i| i as u8).into(),
            std::net::Ipv6Addr::LOCALHOST,
            std::net::Ipv4Addr::new(1, 2, 3, 4).to_ipv6_mapped(),
            std::net::Ipv4Addr::new(127, 0, 0, 1).to_ipv6_mapped(),
            std::net::Ipv4Addr::new(9, 8, 7, 6).to_ipv6_compatible(),
            std::net::Ipv6Addr::new(0xfe80, 0, 0, 0, 0, 0, 0, 1),
            std::net::Ipv6Addr::new(0xff02, 0, 0, 0, 0, 0, 0, 1),
        ]
    }
}
impl Ty for std::net::IpAddr {
    fn shape() -> Shape {
        Shape::Enum(vec![Shape::ByteArray(4), Shape::ByteArray(16)])
    }
    fn small() -> Vec<Self> {
        let mut v: Vec<Self> = std::net::Ipv4Addr::small().into_iter().map(Into::into).collect();
        v.extend(std::net::Ipv6Addr::small().into_iter().map(std::net::IpAddr::from));
        v
    }
}
impl Ty for std::net::SocketAddrV4 {
    fn shape() -> Shape {
        Shape::Fields(vec![Shape::ByteArray(4), Shape::UInt(16)])
    }
    fn small() -> Vec<Self> {
        let mut v = Vec::new();
        for ip in std::net::Ipv4Addr::small() {
            for p in [0u16, 23, 24, 255, 256, 65535] {
                v.push(std::net::SocketAddrV4::new(ip, p));
            }
        }
        v
    }
}
impl Ty for std::net::SocketAddrV6 {
    fn shape() -> Shape {
        Shape::Fields(vec![Shape::ByteArray(16), Shape::UInt(16)])
    }
    fn small() -> Vec<Self> {
        let mut v = Vec::new();
        for ip in std::net::Ipv6Addr::small() {
            for p in [0u16, 24, 256, 65535] {
                // flow-info and scope-id are not represented (documented exclusion): domain uses 0
                v.push(std::net::SocketAddrV6::new(ip, p, 0, 0));
            }
        }
        v
    }
}
impl Ty for std::net::SocketAddr {
    fn shape() -> Shape {
        Shape::Enum(vec![std::net::SocketAddrV4::shape(), std::net::SocketAddrV6::shape()])
    }
    fn small() -> Vec<Self> {
        let mut v: Vec<Self> = std::net::SocketAddrV4::small().into_iter().map(Into::into).collect();
        v.extend(std::net::SocketAddrV6::small().into_iter().map(std::net::SocketAddr::from));
        v
    }
}
impl Ty for std::path::PathBuf {
    fn shape() -> Shape {
        Shape::Str
    }
    fn small() -> Vec<Self> {
        vec!["".into(), "/".into(), "a/b.txt".into(), "\u{e9}/\u{4e16}".into(), "x".repeat(24).into()]
    }
}
impl Ty for Box<std::path::Path> {
    fn shape() -> Shape {
        Shape::Str
    }
    fn small() -> Vec<Self> {
        std::path::PathBuf::small().into_iter().map(|p| p.into_boxed_path()).collect()
    }
}

// ---------------------------------------------------------------------------------------------
// Type-erased values and types.

/// Result of encoding into a bounded sink.
pub struct SinkOut {
    /// guard regions around the sink's memory are intact
    pub canary_ok: bool,
    pub res: Result<(), EncErr>,
    /// bytes of the sink's buffer (whole capacity)
    pub buf: Vec<u8>,
    /// reported position / number of bytes accepted
    pub pos: usize,
}

pub trait ErasedVal {
    fn model(&self) -> Item;
    fn debug(&self) -> String;
    fn to_vec(&self) -> Result<Vec<u8>, EncErr>;
    fn cbor_len(&self) -> usize;
    fn decode_back(&self, bytes: &[u8]) -> DecOut;
    /// the other public ways to encode / size the same value (each is a separate code path):
    /// to_vec_with, encode, encode_with, Encoder::encode, Encoder::encode_with; len_with
    fn alt_encodings(&self) -> Vec<(&'static str, Result<Vec<u8>, EncErr>)>;
    fn alt_len(&self) -> usize;
    /// `Encode::is_nil` of the value (the derived encoders omit fields for which it is true)
    fn is_nil(&self) -> bool;
    /// the other public ways to decode the type: minicbor::decode, minicbor::decode_with, Decoder::decode_with
    /// (position is None for the slice-level functions)
    fn alt_decodes(&self, bytes: &[u8]) -> Vec<(&'static str, Result<Item, ErrClass>, Option<usize>)>;
    /// encode into `&mut [u8]` of the given capacity
    fn into_slice(&self, cap: usize) -> SinkOut;
    fn into_cursor_slice(&self, cap: usize) -> SinkOut;
    fn into_cursor_box(&self, cap: usize) -> SinkOut;
    /// `Cursor<[u8; N]>` for the capacities that are instantiated (None otherwise)
    fn into_cursor_array(&self, cap: usize) -> Option<SinkOut>;
    /// `Writer<W>` over a capacity-limited std::io::Write accepting at most `chunk` bytes per call
    fn into_io_writer(&self, cap: usize, chunk: usize) -> SinkOut;
}

macro_rules! cursor_arrays {
    ($self:ident, $cap:ident, $($n:literal)*) => {
        match $cap {
            $( $n => {
                let mut c = Cursor::new([0xa5u8; $n]);
                let res = minicbor::encode($self, &mut c).map_err(|e| enc_class(&e));
                let pos = c.position();
                Some(SinkOut { canary_ok: true, res, buf: c.into_inner().to_vec(), pos })
            } )*
            _ => None
        }
    };
}

pub struct V<T> {
    pub v: T,
    /// `Cursor<[u8; N]>` encoders for N in 0..=41, instantiated only for selected types
    pub arr: Option<fn(&T, usize) -> Option<SinkOut>>,
}

/// Encode into `Cursor<[u8; N]>` for the capacity `cap` (0..=41).
pub fn arr_fn<T: Encode<()>>(v: &T, cap: usize) -> Option<SinkOut> {
    cursor_arrays!(v, cap, 0 1 2 3 4 5 6 7 8 9 10 11 12 13 14 15 16 17 18 19 20 21 22 23 24 25 26 27 28 29 30 31 32 33 34 35 36 37 38 39 40 41)
}

pub struct LimitedIo {
    pub buf: Vec<u8>,
    pub cap: usize,
    pub chunk: usize,
    pub interrupted: bool,
}

impl std::io::Write for LimitedIo {
    fn write(&mut self, b: &[u8]) -> std::io::Result<usize> {
        // an odd chunk size marks an interrupting sink: every call at an even fill level is interrupted once
        // (ErrorKind::Interrupted is not an error: std's write_all retries it)
        if self.chunk % 2 == 1 && self.chunk != usize::MAX && !self.interrupted {
            self.interrupted = true;
            return Err(std::io::Error::from(std::io::ErrorKind::Interrupted));
        }
        self.interrupted = false;
        let room = self.cap - self.buf.len();
        let k = b.len().min(self.chunk).min(room);
        if k == 0 && !b.is_empty() {
            return Ok(0);
        }
        self.buf.extend_from_slice(&b[..k]);
        Ok(k)
    }
    fn flush(&mut self) -> std::io::Result<()> {
        Ok(())
    }
}

impl<T> ErasedVal for V<T>
where
    T: Encode<()> + CborLen<()> + for<'b> Decode<'b, ()> + ToModel,
{
    fn model(&self) -> Item {
        self.v.to_model()
    }
    fn debug(&self) -> String {
        let s = self.v.to_model().diag();
        s.chars().take(160).collect()
    }
    fn to_vec(&self) -> Result<Vec<u8>, EncErr> {
        minicbor::to_vec(&self.v).map_err(|e| enc_class(&e))
    }
    fn cbor_len(&self) -> usize {
        minicbor::len(&self.v)
    }
    fn decode_back(&self, bytes: &[u8]) -> DecOut {
        decode_as::<T>(bytes, 0)
    }
    fn alt_encodings(&self) -> Vec<(&'static str, Result<Vec<u8>, EncErr>)> {
        let x = &self.v;
        vec![
            ("to_vec_with", minicbor::to_vec_with(x, &mut ()).map_err(|e| enc_class(&e))),
            ("encode", { let mut b = Vec::new(); minicbor::encode(x, &mut b).map(|_| b).map_err(|e| enc_class(&e)) }),
            ("encode_with", { let mut b = Vec::new(); minicbor::encode_with(x, &mut b, &mut ()).map(|_| b).map_err(|e| enc_class(&e)) }),
            ("Encoder::encode", { let mut e = encode::Encoder::new(Vec::new()); let r = e.encode(x).map(|_| ()).map_err(|e| enc_class(&e)); r.map(|_| e.into_writer()) }),
            ("Encoder::encode_with", { let mut e = encode::Encoder::new(Vec::new()); let r = e.encode_with(x, &mut ()).map(|_| ()).map_err(|e| enc_class(&e)); r.map(|_| e.into_writer()) }),
        ]
    }
    fn alt_len(&self) -> usize {
        minicbor::len_with(&self.v, &mut ())
    }
    fn is_nil(&self) -> bool {
        <T as Encode<()>>::is_nil(&self.v)
    }
    fn alt_decodes(&self, bytes: &[u8]) -> Vec<(&'static str, Result<Item, ErrClass>, Option<usize>)> {
        let mut d = Decoder::new(bytes);
        let a = d.decode_with::<(), T>(&mut ());
        vec![
            ("minicbor::decode", minicbor::decode::<T>(bytes).map(|v| v.to_model()).map_err(|e| classify(&e)), None),
            ("minicbor::decode_with", minicbor::decode_with::<(), T>(bytes, &mut ()).map(|v| v.to_model()).map_err(|e| classify(&e)), None),
            ("Decoder::decode_with", a.map(|v| v.to_model()).map_err(|e| classify(&e)), Some(d.position())),
        ]
    }
    fn into_slice(&self, cap: usize) -> SinkOut {
        let mut mem = vec![0x5au8; cap + 32];
        mem[16..16 + cap].fill(0xa5);
        let (res, rem) = {
            let mut s: &mut [u8] = &mut mem[16..16 + cap];
            let r = minicbor::encode(&self.v, &mut s).map_err(|e| enc_class(&e));
            (r, s.len())
        };
        let canary_ok = mem[..16].iter().chain(&mem[16 + cap..]).all(|b| *b == 0x5a);
        SinkOut { canary_ok, res, buf: mem[16..16 + cap].to_vec(), pos: cap - rem }
    }
    fn into_cursor_slice(&self, cap: usize) -> SinkOut {
        let mut mem = vec![0x5au8; cap + 32];
        mem[16..16 + cap].fill(0xa5);
        let (res, pos) = {
            let mut c = Cursor::new(&mut mem[16..16 + cap]);
            let r = minicbor::encode(&self.v, &mut c).map_err(|e| enc_class(&e));
            (r, c.position())
        };
        let canary_ok = mem[..16].iter().chain(&mem[16 + cap..]).all(|b| *b == 0x5a);
        SinkOut { canary_ok, res, buf: mem[16..16 + cap].to_vec(), pos }
    }
    fn into_cursor_box(&self, cap: usize) -> SinkOut {
        let mut c = Cursor::new(vec![0xa5u8; cap].into_boxed_slice());
        let res = minicbor::encode(&self.v, &mut c).map_err(|e| enc_class(&e));
        let pos = c.position();
        SinkOut { canary_ok: true, res, buf: c.into_inner().into_vec(), pos }
    }
    fn into_cursor_array(&self, cap: usize) -> Option<SinkOut> {
        self.arr.and_then(|f| f(&self.v, cap))
    }
    fn into_io_writer(&self, cap: usize, chunk: usize) -> SinkOut {
        let mut w = minicbor::encode::write::Writer::new(LimitedIo { buf: Vec::new(), cap, chunk, interrupted: false });
        let res = minicbor::encode(&self.v, &mut w).map_err(|e| enc_class(&e));
        let io = w.into_inner();
        let pos = io.buf.len();
        SinkOut { canary_ok: true, res, buf: io.buf, pos }
    }
}

/// Values whose encoding is longer than any internal block or chunk size one could think of (64 KiB, 128 KiB) and
/// not a multiple of it.
pub fn large_values() -> Vec<(&'static str, Box<dyn ErasedVal>)> {
    let mut out: Vec<(&'static str, Box<dyn ErasedVal>)> = Vec::new();
    for n in [65537usize, 131072, 131073, 300_017] {
        let b: Vec<u8> = (0..n).map(|i| (i % 251) as u8).collect();
        out.push(("ByteVec (large)", Box::new(V { v: ByteVec::from(b.clone()), arr: None })));
        out.push(("String (large)", Box::new(V { v: b.iter().map(|x| (b'a' + x % 26) as char).collect::<String>(), arr: None })));
        out.push(("Vec<u16> (large)", Box::new(V { v: b.iter().map(|x| *x as u16 * 3).collect::<Vec<u16>>(), arr: None })));
        out.push(("(u8, ByteVec, u8) (large)", Box::new(V { v: (7u8, ByteVec::from(b), 9u8), arr: None })));
    }
    out
}

/// Decode `T` from `bytes` starting at `pos`.
pub fn decode_as<T: for<'b> Decode<'b, ()> + ToModel>(bytes: &[u8], pos: usize) -> DecOut {
    let mut d = crate::ops::new_dec(bytes, pos);
    let r = d.decode::<T>();
    DecOut { res: r.map(|v| v.to_model()).map_err(|e| classify(&e)), pos: d.position(), borrowed_inside: None }
}

fn inside(buf: &[u8], p: *const u8, len: usize) -> bool {
    let start = buf.as_ptr() as usize;
    let end = start + buf.len();
    let p = p as usize;
    // empty slices may dangle
    len == 0 || (p >= start && p + len <= end)
}

pub fn decode_str_ref(bytes: &[u8], pos: usize) -> DecOut {
    let mut d = crate::ops::new_dec(bytes, pos);
    let r = d.decode::<&str>();
    let inside_ = r.as_ref().ok().map(|s| inside(bytes, s.as_ptr(), s.len()));
    DecOut { res: r.map(|v| v.to_model()).map_err(|e| classify(&e)), pos: d.position(), borrowed_inside: inside_ }
}
pub fn decode_byteslice_ref(bytes: &[u8], pos: usize) -> DecOut {
    let mut d = crate::ops::new_dec(bytes, pos);
    let r = d.decode::<&ByteSlice>();
    let inside_ = r.as_ref().ok().map(|s| inside(bytes, s.as_ptr(), s.len()));
    DecOut { res: r.map(|v| v.to_model()).map_err(|e| classify(&e)), pos: d.position(), borrowed_inside: inside_ }
}
pub fn decode_cstr_ref(bytes: &[u8], pos: usize) -> DecOut {
    let mut d = crate::ops::new_dec(bytes, pos);
    let r = d.decode::<&std::ffi::CStr>();
    let inside_ = r.as_ref().ok().map(|s| inside(bytes, s.as_ptr() as *const u8, s.to_bytes_with_nul().len()));
    DecOut { res: r.map(|v| v.to_model()).map_err(|e| classify(&e)), pos: d.position(), borrowed_inside: inside_ }
}
pub fn decode_path_ref(bytes: &[u8], pos: usize) -> DecOut {
    let mut d = crate::ops::new_dec(bytes, pos);
    let r = d.decode::<&std::path::Path>();
    let inside_ = r.as_ref().ok().map(|s| {
        let b = s.as_os_str().as_encoded_bytes();
        inside(bytes, b.as_ptr(), b.len())
    });
    DecOut { res: r.map(|v| v.to_model()).map_err(|e| classify(&e)), pos: d.position(), borrowed_inside: inside_ }
}

/// A value of a borrowed type: the encoder side works on the reference, the decoder side uses the dedicated function.
pub struct VRef<T: ?Sized + 'static> {
    pub val: &'static T,
    pub dec: fn(&[u8], usize) -> DecOut,
}

impl<T> ErasedVal for VRef<T>
where
    T: ?Sized + Encode<()> + CborLen<()> + ToModel + 'static,
{
    fn model(&self) -> Item {
        self.val.to_model()
    }
    fn debug(&self) -> String {
        let s = self.val.to_model().diag();
        s.chars().take(160).collect()
    }
    fn to_vec(&self) -> Result<Vec<u8>, EncErr> {
        minicbor::to_vec(self.val).map_err(|e| enc_class(&e))
    }
    fn cbor_len(&self) -> usize {
        minicbor::len(self.val)
    }
    fn decode_back(&self, bytes: &[u8]) -> DecOut {
        (self.dec)(bytes, 0)
    }
    fn alt_encodings(&self) -> Vec<(&'static str, Result<Vec<u8>, EncErr>)> {
        let x = self.val;
        vec![
            ("to_vec_with", minicbor::to_vec_with(x, &mut ()).map_err(|e| enc_class(&e))),
            ("encode", { let mut b = Vec::new(); minicbor::encode(x, &mut b).map(|_| b).map_err(|e| enc_class(&e)) }),
            ("encode_with", { let mut b = Vec::new(); minicbor::encode_with(x, &mut b, &mut ()).map(|_| b).map_err(|e| enc_class(&e)) }),
            ("Encoder::encode", { let mut e = encode::Encoder::new(Vec::new()); let r = e.encode(x).map(|_| ()).map_err(|e| enc_class(&e)); r.map(|_| e.into_writer()) }),
            ("Encoder::encode_with", { let mut e = encode::Encoder::new(Vec::new()); let r = e.encode_with(x, &mut ()).map(|_| ()).map_err(|e| enc_class(&e)); r.map(|_| e.into_writer()) }),
        ]
    }
    fn alt_len(&self) -> usize {
        minicbor::len_with(self.val, &mut ())
    }
    fn is_nil(&self) -> bool {
        <T as Encode<()>>::is_nil(self.val)
    }
    fn alt_decodes(&self, _bytes: &[u8]) -> Vec<(&'static str, Result<Item, ErrClass>, Option<usize>)> {
        Vec::new()
    }
    fn into_slice(&self, cap: usize) -> SinkOut {
        let mut mem = vec![0x5au8; cap + 32];
        mem[16..16 + cap].fill(0xa5);
        let (res, rem) = {
            let mut s: &mut [u8] = &mut mem[16..16 + cap];
            let r = minicbor::encode(self.val, &mut s).map_err(|e| enc_class(&e));
            (r, s.len())
        };
        let canary_ok = mem[..16].iter().chain(&mem[16 + cap..]).all(|b| *b == 0x5a);
        SinkOut { canary_ok, res, buf: mem[16..16 + cap].to_vec(), pos: cap - rem }
    }
    fn into_cursor_slice(&self, cap: usize) -> SinkOut {
        let mut mem = vec![0x5au8; cap + 32];
        mem[16..16 + cap].fill(0xa5);
        let (res, pos) = {
            let mut c = Cursor::new(&mut mem[16..16 + cap]);
            let r = minicbor::encode(self.val, &mut c).map_err(|e| enc_class(&e));
            (r, c.position())
        };
        let canary_ok = mem[..16].iter().chain(&mem[16 + cap..]).all(|b| *b == 0x5a);
        SinkOut { canary_ok, res, buf: mem[16..16 + cap].to_vec(), pos }
    }
    fn into_cursor_box(&self, cap: usize) -> SinkOut {
        let mut c = Cursor::new(vec![0xa5u8; cap].into_boxed_slice());
        let res = minicbor::encode(self.val, &mut c).map_err(|e| enc_class(&e));
        let pos = c.position();
        SinkOut { canary_ok: true, res, buf: c.into_inner().into_vec(), pos }
    }
    fn into_cursor_array(&self, _cap: usize) -> Option<SinkOut> {
        None
    }
    fn into_io_writer(&self, cap: usize, chunk: usize) -> SinkOut {
        let mut w = minicbor::encode::write::Writer::new(LimitedIo { buf: Vec::new(), cap, chunk, interrupted: false });
        let res = minicbor::encode(self.val, &mut w).map_err(|e| enc_class(&e));
        let io = w.into_inner();
        let pos = io.buf.len();
        SinkOut { canary_ok: true, res, buf: io.buf, pos }
    }
}

// ---------------------------------------------------------------------------------------------
// The `minicbor::bytes` codec functions (what `#[cbor(with = "minicbor::bytes")]` expands to) over every
// type that implements EncodeBytes / DecodeBytes / CborLenBytes: plain byte containers encoded as CBOR
// byte strings instead of arrays of integers.

pub struct WB<T>(pub T);

impl<T: minicbor::bytes::EncodeBytes<()>> Encode<()> for WB<T> {
    fn encode<W: encode::Write>(&self, e: &mut encode::Encoder<W>, ctx: &mut ()) -> Result<(), encode::Error<W::Error>> {
        minicbor::bytes::encode(&self.0, e, ctx)
    }
    fn is_nil(&self) -> bool {
        minicbor::bytes::is_nil::<(), T>(&self.0)
    }
}
impl<'b, T: minicbor::bytes::DecodeBytes<'b, ()>> Decode<'b, ()> for WB<T> {
    fn decode(d: &mut Decoder<'b>, ctx: &mut ()) -> Result<Self, decode::Error> {
        minicbor::bytes::decode(d, ctx).map(WB)
    }
    fn nil() -> Option<Self> {
        minicbor::bytes::nil::<(), T>().map(WB)
    }
}
impl<T> CborLen<()> for WB<T>
where
    for<'a> &'a T: minicbor::bytes::CborLenBytes<()>,
{
    fn cbor_len(&self, ctx: &mut ()) -> usize {
        minicbor::bytes::cbor_len(&self.0, ctx)
    }
}

/// The byte content of a bytes-codec type (None = the nil value).
pub trait BytesLike: Sized {
    fn content(&self) -> Option<&[u8]>;
    fn bshape() -> Shape;
    fn bsmall() -> Vec<Self>;
}
impl BytesLike for Vec<u8> {
    fn content(&self) -> Option<&[u8]> {
        Some(self)
    }
    fn bshape() -> Shape {
        Shape::Bytes
    }
    fn bsmall() -> Vec<Self> {
        small_bytes()
    }
}
impl BytesLike for ByteVec {
    fn content(&self) -> Option<&[u8]> {
        Some(self)
    }
    fn bshape() -> Shape {
        Shape::Bytes
    }
    fn bsmall() -> Vec<Self> {
        small_bytes().into_iter().map(ByteVec::from).collect()
    }
}
impl BytesLike for std::borrow::Cow<'static, [u8]> {
    fn content(&self) -> Option<&[u8]> {
        Some(self)
    }
    fn bshape() -> Shape {
        Shape::Bytes
    }
    fn bsmall() -> Vec<Self> {
        small_bytes().into_iter().enumerate().map(|(i, v)| if i % 2 == 0 { std::borrow::Cow::Owned(v) } else { std::borrow::Cow::Borrowed(&*Vec::leak(v)) }).collect()
    }
}
impl<const N: usize> BytesLike for [u8; N] {
    fn content(&self) -> Option<&[u8]> {
        Some(self)
    }
    fn bshape() -> Shape {
        Shape::ByteArray(N)
    }
    fn bsmall() -> Vec<Self> {
        <ByteArray<N> as Ty>::small().into_iter().map(|a| a.into()).collect()
    }
}
impl<const N: usize> BytesLike for ByteArray<N> {
    fn content(&self) -> Option<&[u8]> {
        Some(&self[..])
    }
    fn bshape() -> Shape {
        Shape::ByteArray(N)
    }
    fn bsmall() -> Vec<Self> {
        <ByteArray<N> as Ty>::small()
    }
}
impl<T: BytesLike> BytesLike for Option<T> {
    fn content(&self) -> Option<&[u8]> {
        self.as_ref().and_then(|x| x.content())
    }
    fn bshape() -> Shape {
        Shape::Option(Box::new(T::bshape()))
    }
    fn bsmall() -> Vec<Self> {
        let mut v = vec![None];
        v.extend(T::bsmall().into_iter().map(Some));
        v
    }
}
impl<T: BytesLike> ToModel for WB<T> {
    fn to_model(&self) -> Item {
        match self.0.content() {
            Some(b) => Item::bytes(b),
            None => NULL,
        }
    }
}
impl<T: BytesLike> Ty for WB<T> {
    fn shape() -> Shape {
        T::bshape()
    }
    fn small() -> Vec<Self> {
        T::bsmall().into_iter().map(WB).collect()
    }
}

pub fn decode_wb_slice_ref(bytes: &[u8], pos: usize) -> DecOut {
    let mut d = crate::ops::new_dec(bytes, pos);
    let r = d.decode::<WB<&[u8]>>();
    let inside_ = r.as_ref().ok().map(|s| inside(bytes, s.0.as_ptr(), s.0.len()));
    DecOut { res: r.map(|v| Item::bytes(v.0)).map_err(|e| classify(&e)), pos: d.position(), borrowed_inside: inside_ }
}
pub fn decode_wb_opt_slice_ref(bytes: &[u8], pos: usize) -> DecOut {
    let mut d = crate::ops::new_dec(bytes, pos);
    let r = d.decode::<WB<Option<&[u8]>>>();
    let inside_ = r.as_ref().ok().map(|s| s.0.map(|s| inside(bytes, s.as_ptr(), s.len())).unwrap_or(true));
    DecOut { res: r.map(|v| v.0.map(Item::bytes).unwrap_or(NULL)).map_err(|e| classify(&e)), pos: d.position(), borrowed_inside: inside_ }
}
pub fn decode_wb_byteslice_ref(bytes: &[u8], pos: usize) -> DecOut {
    let mut d = crate::ops::new_dec(bytes, pos);
    let r = d.decode::<WB<&ByteSlice>>();
    let inside_ = r.as_ref().ok().map(|s| inside(bytes, s.0.as_ptr(), s.0.len()));
    DecOut { res: r.map(|v| Item::bytes(v.0)).map_err(|e| classify(&e)), pos: d.position(), borrowed_inside: inside_ }
}
impl ToModel for WB<&'static [u8]> {
    fn to_model(&self) -> Item {
        Item::bytes(self.0)
    }
}
impl ToModel for WB<Option<&'static [u8]>> {
    fn to_model(&self) -> Item {
        self.0.map(Item::bytes).unwrap_or(NULL)
    }
}
impl ToModel for WB<&'static ByteSlice> {
    fn to_model(&self) -> Item {
        Item::bytes(self.0)
    }
}

pub struct TypeEntry {
    pub name: &'static str,
    pub shape: Shape,
    pub ordered: bool,
    pub size_of: usize,
    /// element size used by the allocation bound (size of the largest element type held in a growable container)
    pub elem_size: usize,
    pub decode: fn(&[u8], usize) -> DecOut,
    pub raw: fn(&[u8], usize) -> Raw,
    pub values: fn() -> Vec<Box<dyn ErasedVal>>,
    pub borrowed: bool,
    /// does `Decode::nil()` return Some for this type (the derived decoders then treat an absent field as that value)?
    pub nil_some: fn() -> bool,
}

fn vals<T>() -> Vec<Box<dyn ErasedVal>>
where
    T: Ty + Encode<()> + CborLen<()> + for<'b> Decode<'b, ()> + ToModel + 'static,
{
    T::small().into_iter().map(|v| Box::new(V { v, arr: None }) as Box<dyn ErasedVal>).collect()
}

/// like `vals`, with the fixed-array cursors instantiated
fn vals_arr<T>() -> Vec<Box<dyn ErasedVal>>
where
    T: Ty + Encode<()> + CborLen<()> + for<'b> Decode<'b, ()> + ToModel + 'static,
{
    T::small().into_iter().map(|v| Box::new(V { v, arr: Some(arr_fn::<T>) }) as Box<dyn ErasedVal>).collect()
}

fn leak<T: ?Sized>(b: Box<T>) -> &'static T {
    Box::leak(b)
}

macro_rules! entry {
    ($v:ident, $name:expr, $t:ty) => {
        entry!($v, $name, $t, 8)
    };
    ($v:ident, $name:expr, $t:ty, $elem:expr) => {
        $v.push(TypeEntry {
            name: $name,
            shape: <$t as Ty>::shape(),
            ordered: <$t as Ty>::ordered(),
            size_of: std::mem::size_of::<$t>(),
            elem_size: $elem,
            decode: decode_as::<$t>,
            raw: raw_as::<$t>,
            values: vals::<$t>,
            borrowed: false,
            nil_some: || <$t as Decode<()>>::nil().is_some(),
        })
    };
}

type FixedHasher = std::hash::BuildHasherDefault<std::collections::hash_map::DefaultHasher>;

/// The table of concrete instantiations (every paired Encode/Decode impl at least once).
pub fn type_table() -> Vec<TypeEntry> {
    use std::num::*;
    use std::ops::*;
    let mut v: Vec<TypeEntry> = Vec::new();
    entry!(v, "bool", bool);
    entry!(v, "u8", u8);
    v.last_mut().unwrap().values = vals_arr::<u8>;
    entry!(v, "u16", u16);
    entry!(v, "u32", u32);
    entry!(v, "u64", u64);
    v.last_mut().unwrap().values = vals_arr::<u64>;
    entry!(v, "usize", usize);
    entry!(v, "i8", i8);
    entry!(v, "i16", i16);
    entry!(v, "i32", i32);
    v.last_mut().unwrap().values = vals_arr::<i32>;
    entry!(v, "i64", i64);
    entry!(v, "isize", isize);
    entry!(v, "f32", f32);
    entry!(v, "f64", f64);
    entry!(v, "char", char);
    entry!(v, "String", String);
    v.last_mut().unwrap().values = vals_arr::<String>;
    entry!(v, "Box<str>", Box<str>);
    entry!(v, "Cow<str>", std::borrow::Cow<'static, str>);
    entry!(v, "Cow<[u16]>", std::borrow::Cow<'static, [u16]>, 2);
    entry!(v, "Cow<ByteSlice>", std::borrow::Cow<'static, ByteSlice>);
    entry!(v, "Cow<CStr>", std::borrow::Cow<'static, std::ffi::CStr>);
    entry!(v, "Cow<Path>", std::borrow::Cow<'static, std::path::Path>);
    entry!(v, "CString", std::ffi::CString);
    entry!(v, "ByteVec", ByteVec);
    entry!(v, "ByteArray<0>", ByteArray<0>);
    entry!(v, "ByteArray<4>", ByteArray<4>);
    entry!(v, "ByteArray<16>", ByteArray<16>);
    entry!(v, "ByteArray<24>", ByteArray<24>);
    entry!(v, "ByteArray<256>", ByteArray<256>);
    entry!(v, "ByteArray<65536>", ByteArray<65536>);
    entry!(v, "bytes-codec Vec<u8>", WB<Vec<u8>>);
    entry!(v, "bytes-codec ByteVec", WB<ByteVec>);
    entry!(v, "bytes-codec Cow<[u8]>", WB<std::borrow::Cow<'static, [u8]>>);
    entry!(v, "bytes-codec [u8;0]", WB<[u8; 0]>);
    entry!(v, "bytes-codec [u8;4]", WB<[u8; 4]>);
    entry!(v, "bytes-codec [u8;24]", WB<[u8; 24]>);
    entry!(v, "bytes-codec ByteArray<4>", WB<ByteArray<4>>);
    entry!(v, "bytes-codec Option<Vec<u8>>", WB<Option<Vec<u8>>>);
    entry!(v, "bytes-codec Option<[u8;4]>", WB<Option<[u8; 4]>>);
    entry!(v, "bytes-codec Option<Cow<[u8]>>", WB<Option<std::borrow::Cow<'static, [u8]>>>);
    entry!(v, "Option<u8>", Option<u8>);
    v.last_mut().unwrap().values = vals_arr::<Option<u8>>;
    entry!(v, "Option<String>", Option<String>);
    entry!(v, "Option<()>", Option<()>);
    entry!(v, "Option<Vec<u8>>", Option<Vec<u8>>);
    entry!(v, "Result<u8,String>", Result<u8, String>);
    entry!(v, "Result<(),i64>", Result<(), i64>);
    entry!(v, "Option<Result<u8,String>>", Option<Result<u8, String>>);
    entry!(v, "Box<u16>", Box<u16>);
    entry!(v, "()", ());
    entry!(v, "PhantomData<u8>", std::marker::PhantomData<u8>);
    entry!(v, "(u8,)", (u8,));
    entry!(v, "(u8,i8)", (u8, i8));
    entry!(v, "(u8,String,bool)", (u8, String, bool));
    v.last_mut().unwrap().values = vals_arr::<(u8, String, bool)>;
    entry!(v, "(u8,u8,u8,u8)", (u8, u8, u8, u8));
    entry!(v, "tuple5", (bool, u8, i8, bool, u8));
    entry!(v, "tuple6", (bool, u8, i8, bool, u8, i8));
    entry!(v, "tuple7", (bool, u8, i8, bool, u8, i8, bool));
    entry!(v, "tuple8", (bool, u8, i8, bool, u8, i8, bool, u8));
    entry!(v, "tuple9", (bool, u8, i8, bool, u8, i8, bool, u8, i8));
    entry!(v, "tuple10", (bool, u8, i8, bool, u8, i8, bool, u8, i8, bool));
    entry!(v, "tuple11", (bool, u8, i8, bool, u8, i8, bool, u8, i8, bool, u8));
    entry!(v, "tuple12", (bool, u8, i8, bool, u8, i8, bool, u8, i8, bool, u8, i8));
    // the remaining rows of the tuple impl tables (arity 13 - 16), neighbouring components of different types
    entry!(v, "tuple13", (u8, bool, i8, u8, bool, i8, u8, bool, i8, u8, bool, i8, u8));
    entry!(v, "tuple14", (u8, bool, i8, u8, bool, i8, u8, bool, i8, u8, bool, i8, u8, bool));
    entry!(v, "tuple15", (u8, bool, i8, u8, bool, i8, u8, bool, i8, u8, bool, i8, u8, bool, i8));
    entry!(v, "tuple16", (u8, bool, i8, u8, bool, i8, u8, bool, i8, u8, bool, i8, u8, bool, i8, u8));
    entry!(v, "tuple13", (bool, u8, i8, bool, u8, i8, bool, u8, i8, bool, u8, i8, bool));
    entry!(v, "tuple14", (bool, u8, i8, bool, u8, i8, bool, u8, i8, bool, u8, i8, bool, u8));
    entry!(v, "tuple15", (bool, u8, i8, bool, u8, i8, bool, u8, i8, bool, u8, i8, bool, u8, i8));
    entry!(v, "tuple16", (bool, u8, i8, bool, u8, i8, bool, u8, i8, bool, u8, i8, bool, u8, i8, u16));
    entry!(v, "[u8;0]", [u8; 0]);
    entry!(v, "[u8;1]", [u8; 1]);
    entry!(v, "[u8;3]", [u8; 3]);
    v.last_mut().unwrap().values = vals_arr::<[u8; 3]>;
    entry!(v, "[u8;24]", [u8; 24]);
    // more elements than an 8- / 16-bit element counter holds
    entry!(v, "Box<Option<u8>>", Box<Option<u8>>);
    entry!(v, "Box<Option<String>>", Box<Option<String>>);
    entry!(v, "[u8;256]", [u8; 256]);
    entry!(v, "[u8;65536]", [u8; 65536]);
    entry!(v, "[String;3]", [String; 3], 24);
    entry!(v, "[Option<u8>;3]", [Option<u8>; 3]);
    entry!(v, "Vec<u8>", Vec<u8>);
    v.last_mut().unwrap().values = vals_arr::<Vec<u8>>;
    entry!(v, "Vec<String>", Vec<String>, 24);
    entry!(v, "Vec<Option<Vec<u8>>>", Vec<Option<Vec<u8>>>, 24);
    entry!(v, "VecDeque<u16>", VecDeque<u16>);
    entry!(v, "LinkedList<i8>", LinkedList<i8>, 24);
    entry!(v, "BinaryHeap<u8>", BinaryHeap<u8>);
    entry!(v, "BTreeSet<i16>", BTreeSet<i16>, 24);
    entry!(v, "HashSet<u8>", HashSet<u8>, 24);
    entry!(v, "HashSet<String,Fixed>", HashSet<String, FixedHasher>, 48);
    entry!(v, "BTreeMap<u8,bool>", BTreeMap<u8, bool>, 24);
    v.last_mut().unwrap().values = vals_arr::<BTreeMap<u8, bool>>;
    entry!(v, "BTreeMap<String,(u8,Option<i64>)>", BTreeMap<String, (u8, Option<i64>)>, 64);
    entry!(v, "Vec<BTreeMap<u8,u8>>", Vec<BTreeMap<u8, u8>>, 64);
    entry!(v, "BTreeMap<u8,BTreeMap<u8,bool>>", BTreeMap<u8, BTreeMap<u8, bool>>, 64);
    entry!(v, "BTreeMap<u8,Vec<u8>>", BTreeMap<u8, Vec<u8>>, 64);
    entry!(v, "Vec<HashMap<u8,u8>>", Vec<HashMap<u8, u8>>, 64);
    entry!(v, "HashMap<u8,String>", HashMap<u8, String>, 64);
    entry!(v, "HashMap<i8,u8,Fixed>", HashMap<i8, u8, FixedHasher>, 24);
    entry!(v, "Range<u8>", Range<u8>);
    entry!(v, "RangeFrom<i16>", RangeFrom<i16>);
    entry!(v, "RangeTo<u32>", RangeTo<u32>);
    entry!(v, "RangeToInclusive<i8>", RangeToInclusive<i8>);
    entry!(v, "RangeInclusive<u64>", RangeInclusive<u64>);
    entry!(v, "Bound<u8>", Bound<u8>);
    entry!(v, "Bound<String>", Bound<String>);
    entry!(v, "Duration", std::time::Duration);
    v.last_mut().unwrap().values = vals_arr::<std::time::Duration>;
    entry!(v, "SystemTime", std::time::SystemTime);
    entry!(v, "Ipv4Addr", std::net::Ipv4Addr);
    entry!(v, "Ipv6Addr", std::net::Ipv6Addr);
    entry!(v, "IpAddr", std::net::IpAddr);
    entry!(v, "SocketAddrV4", std::net::SocketAddrV4);
    entry!(v, "SocketAddrV6", std::net::SocketAddrV6);
    entry!(v, "SocketAddr", std::net::SocketAddr);
    entry!(v, "PathBuf", std::path::PathBuf);
    entry!(v, "Box<Path>", Box<std::path::Path>);
    entry!(v, "NonZeroU8", NonZeroU8);
    entry!(v, "NonZeroU16", NonZeroU16);
    entry!(v, "NonZeroU32", NonZeroU32);
    entry!(v, "NonZeroU64", NonZeroU64);
    entry!(v, "NonZeroUsize", NonZeroUsize);
    entry!(v, "NonZeroI8", NonZeroI8);
    entry!(v, "NonZeroI16", NonZeroI16);
    entry!(v, "NonZeroI32", NonZeroI32);
    entry!(v, "NonZeroI64", NonZeroI64);
    entry!(v, "NonZeroIsize", NonZeroIsize);
    entry!(v, "Wrapping<u16>", Wrapping<u16>);
    entry!(v, "Cell<i32>", std::cell::Cell<i32>);
    entry!(v, "RefCell<String>", std::cell::RefCell<String>);
    entry!(v, "AtomicBool", AtomicBool);
    entry!(v, "AtomicU8", AtomicU8);
    entry!(v, "AtomicU16", AtomicU16);
    entry!(v, "AtomicU32", AtomicU32);
    entry!(v, "AtomicU64", AtomicU64);
    entry!(v, "AtomicUsize", AtomicUsize);
    entry!(v, "AtomicI8", AtomicI8);
    entry!(v, "AtomicI16", AtomicI16);
    entry!(v, "AtomicI32", AtomicI32);
    entry!(v, "AtomicI64", AtomicI64);
    entry!(v, "AtomicIsize", AtomicIsize);
    entry!(v, "Int", Int);
    v.last_mut().unwrap().values = vals_arr::<Int>;
    entry!(v, "Tagged<0,u8>", Tagged<0, u8>);
    entry!(v, "Tagged<24,String>", Tagged<24, String>);
    v.last_mut().unwrap().values = vals_arr::<Tagged<24, String>>;
    entry!(v, "Tagged<4294967296,i8>", Tagged<4294967296, i8>);
    entry!(v, "Tagged<1,Vec<Tagged<2,u8>>>", Tagged<1, Vec<Tagged<2, u8>>>);
    // borrowed types
    v.push(TypeEntry {
        name: "&str",
        shape: Shape::Str,
        ordered: true,
        size_of: 16,
        elem_size: 8,
        decode: decode_str_ref,
        raw: |b, p| {
            let o = decode_str_ref(b, p);
            Raw { ok: o.res.is_ok(), pos: o.pos, anomaly: if o.borrowed_inside == Some(false) { Some("borrowed result outside the input") } else { None } }
        },
        values: || small_strings().into_iter().map(|s| Box::new(VRef::<str> { val: leak(s.into_boxed_str()), dec: decode_str_ref }) as Box<dyn ErasedVal>).collect(),
        borrowed: true,
        nil_some: || <&str as Decode<()>>::nil().is_some(),
    });
    v.push(TypeEntry {
        name: "&ByteSlice",
        shape: Shape::Bytes,
        ordered: true,
        size_of: 16,
        elem_size: 8,
        decode: decode_byteslice_ref,
        raw: |b, p| {
            let o = decode_byteslice_ref(b, p);
            Raw { ok: o.res.is_ok(), pos: o.pos, anomaly: if o.borrowed_inside == Some(false) { Some("borrowed result outside the input") } else { None } }
        },
        values: || {
            small_bytes()
                .into_iter()
                .map(|s| {
                    let l: &'static [u8] = leak(s.into_boxed_slice());
                    let b: &'static ByteSlice = l.into();
                    Box::new(VRef::<ByteSlice> { val: b, dec: decode_byteslice_ref }) as Box<dyn ErasedVal>
                })
                .collect()
        },
        borrowed: true,
        nil_some: || <&ByteSlice as Decode<()>>::nil().is_some(),
    });
    v.push(TypeEntry {
        name: "&CStr",
        shape: Shape::CStr,
        ordered: true,
        size_of: 16,
        elem_size: 8,
        decode: decode_cstr_ref,
        raw: |b, p| {
            let o = decode_cstr_ref(b, p);
            Raw { ok: o.res.is_ok(), pos: o.pos, anomaly: if o.borrowed_inside == Some(false) { Some("borrowed result outside the input") } else { None } }
        },
        values: || {
            std::ffi::CString::small()
                .into_iter()
                .map(|s| Box::new(VRef::<std::ffi::CStr> { val: leak(s.into_boxed_c_str()), dec: decode_cstr_ref }) as Box<dyn ErasedVal>)
                .collect()
        },
        borrowed: true,
        nil_some: || <&std::ffi::CStr as Decode<()>>::nil().is_some(),
    });
    v.push(TypeEntry {
        name: "&Path",
        shape: Shape::Str,
        ordered: true,
        size_of: 16,
        elem_size: 8,
        decode: decode_path_ref,
        raw: |b, p| {
            let o = decode_path_ref(b, p);
            Raw { ok: o.res.is_ok(), pos: o.pos, anomaly: if o.borrowed_inside == Some(false) { Some("borrowed result outside the input") } else { None } }
        },
        values: || {
            std::path::PathBuf::small()
                .into_iter()
                .map(|s| Box::new(VRef::<std::path::Path> { val: leak(s.into_boxed_path()), dec: decode_path_ref }) as Box<dyn ErasedVal>)
                .collect()
        },
        borrowed: true,
        nil_some: || <&std::path::Path as Decode<()>>::nil().is_some(),
    });
    macro_rules! wb_borrowed {
        ($name:expr, $shape:expr, $dec:ident, $nil:expr, $vals:expr) => {
            v.push(TypeEntry {
                name: $name,
                shape: $shape,
                ordered: true,
                size_of: 16,
                elem_size: 8,
                decode: $dec,
                raw: |b, p| {
                    let o = $dec(b, p);
                    Raw { ok: o.res.is_ok(), pos: o.pos, anomaly: if o.borrowed_inside == Some(false) { Some("borrowed result outside the input") } else { None } }
                },
                values: $vals,
                borrowed: true,
                nil_some: $nil,
            });
        };
    }
    wb_borrowed!("bytes-codec &[u8]", Shape::Bytes, decode_wb_slice_ref, || <WB<&[u8]> as Decode<()>>::nil().is_some(), || {
        small_bytes()
            .into_iter()
            .map(|s| {
                let l: &'static [u8] = leak(s.into_boxed_slice());
                Box::new(VRef::<WB<&'static [u8]>> { val: leak(Box::new(WB(l))), dec: decode_wb_slice_ref }) as Box<dyn ErasedVal>
            })
            .collect()
    });
    wb_borrowed!("bytes-codec Option<&[u8]>", Shape::Option(Box::new(Shape::Bytes)), decode_wb_opt_slice_ref, || <WB<Option<&[u8]>> as Decode<()>>::nil().is_some(), || {
        let mut out: Vec<Box<dyn ErasedVal>> = vec![Box::new(VRef::<WB<Option<&'static [u8]>>> { val: leak(Box::new(WB(None))), dec: decode_wb_opt_slice_ref })];
        for s in small_bytes() {
            let l: &'static [u8] = leak(s.into_boxed_slice());
            out.push(Box::new(VRef::<WB<Option<&'static [u8]>>> { val: leak(Box::new(WB(Some(l)))), dec: decode_wb_opt_slice_ref }));
        }
        out
    });
    wb_borrowed!("bytes-codec &ByteSlice", Shape::Bytes, decode_wb_byteslice_ref, || <WB<&ByteSlice> as Decode<()>>::nil().is_some(), || {
        small_bytes()
            .into_iter()
            .map(|s| {
                let l: &'static [u8] = leak(s.into_boxed_slice());
                let b: &'static ByteSlice = l.into();
                Box::new(VRef::<WB<&'static ByteSlice>> { val: leak(Box::new(WB(b))), dec: decode_wb_byteslice_ref }) as Box<dyn ErasedVal>
            })
            .collect()
    });
    v
}

/// `minicbor::data::Tag` decodes only the tag head; handled by the accessor table, listed here for the codec checks.
pub fn tag_values() -> Vec<Tag> {
    ubounds(64).into_iter().map(Tag::new).collect()
}
