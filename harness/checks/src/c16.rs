//! C16: AsyncWriter delivers whole frames in order under short writes and cancel + sync.
//!
//! Same explorer as C15 over a scripted `AsyncWrite` whose answers are
//! {accept k of n, Pending, transient error, accept 0}; the caller may drop a
//! pending `write` (or `sync`) future and then drives `sync` to completion
//! before the next `write`, as the property's precondition requires.

use crate::io_common::*;
use futures_io::AsyncWrite;
use mcx::explore::{explore_shard, replay, SharedChooser};
use mcx::{Report, Tier};
use minicbor::encode::{self, Encode, Encoder, Write};
use minicbor_io::AsyncWriter;
use serde_json::json;
use std::cell::RefCell;
use std::collections::{BTreeMap, HashSet};
use std::future::Future;
use std::io;
use std::pin::Pin;
use std::rc::Rc;
use std::task::{Context, Poll, Waker};

#[derive(Debug, Clone, Copy)]
pub struct Limits {
    pub p: u32,
    pub e: u32,
    pub d: u32,
    /// max "accept 0 bytes" answers
    pub z: u32,
    pub b: u32,
}

#[derive(Debug, Clone, PartialEq, Eq)]
pub enum Val {
    Arr(Vec<u8>),
    /// refuses to encode before writing anything
    FailEnc,
    /// writes two bytes into the encoder, then fails
    PartialFail,
    /// encodes successfully to zero bytes (as `()`-like marker types with a hand-written impl do): a frame with an
    /// empty payload, i.e. the four prefix bytes 00 00 00 00 and a returned length of 0
    Nothing,
}

impl<C> Encode<C> for Val {
    fn encode<W: Write>(&self, e: &mut Encoder<W>, ctx: &mut C) -> Result<(), encode::Error<W::Error>> {
        match self {
            Val::Arr(v) => v.encode(e, ctx),
            Val::FailEnc => Err(encode::Error::message("verif: value refuses to encode")),
            Val::PartialFail => {
                e.array(2)?.u8(1)?;
                Err(encode::Error::message("verif: value fails half-way"))
            }
            Val::Nothing => Ok(()),
        }
    }
}

impl Val {
    fn name(&self) -> String {
        match self {
            Val::Arr(v) if v.len() > 32 => format!("big{}", v.len()),
            Val::Arr(v) => format!("{:?}", v),
            Val::FailEnc => "FailEnc".into(),
            Val::PartialFail => "PartialFail".into(),
            Val::Nothing => "Nothing".into(),
        }
    }
    /// model: payload bytes (independent reference encoding of an array of small u8)
    fn payload(&self) -> Option<Vec<u8>> {
        match self {
            Val::Arr(v) => Some(array_payload(v)),
            Val::Nothing => Some(Vec::new()),
            _ => None,
        }
    }
}

struct SinkState {
    coarse: bool,
    received: Vec<u8>,
    consecutive_pending: u32,
    errors: u32,
    zeros: u32,
    last_poll_pending: bool,
    poll_writes: u64,
    lim: Limits,
    ch: SharedChooser,
}

struct Sink(Rc<RefCell<SinkState>>);

impl AsyncWrite for Sink {
    fn poll_write(self: Pin<&mut Self>, _cx: &mut Context<'_>, buf: &[u8]) -> Poll<io::Result<usize>> {
        let mut s = self.0.borrow_mut();
        s.poll_writes += 1;
        if s.poll_writes > 2000 {
            panic!("HORIZON: the sink was polled more than 2000 times in one execution (livelock: no progress towards completion)");
        }
        s.last_poll_pending = false;
        let n = buf.len();
        // options: accept n, accept n-1 .. 1 (free), Pending (1), transient error (1), accept 0 (1)
        let mut menu = size_menu(n, s.coarse);
        let accept_opts = menu.n;
        let can_pend = s.consecutive_pending < s.lim.p;
        let can_err = s.errors < s.lim.e;
        let can_zero = s.zeros < s.lim.z && n > 0;
        if can_pend {
            menu.push(1);
        }
        if can_err {
            menu.push(1);
        }
        if can_zero {
            menu.push(1);
        }
        let c = s.ch.borrow_mut().choose("poll_write", menu.costs());
        if c < accept_opts {
            let k = menu.sizes[c];
            s.received.extend_from_slice(&buf[..k]);
            s.consecutive_pending = 0;
            return Poll::Ready(Ok(k));
        }
        let mut idx = accept_opts;
        if can_pend {
            if c == idx {
                s.consecutive_pending += 1;
                s.last_poll_pending = true;
                return Poll::Pending;
            }
            idx += 1;
        }
        if can_err {
            if c == idx {
                s.errors += 1;
                s.consecutive_pending = 0;
                return Poll::Ready(Err(transient_error()));
            }
        }
        s.zeros += 1;
        s.consecutive_pending = 0;
        Poll::Ready(Ok(0))
    }
    fn poll_flush(self: Pin<&mut Self>, _cx: &mut Context<'_>) -> Poll<io::Result<()>> {
        // a flush may be Pending too (a suspension point like any other: the caller may drop the future there)
        let mut s = self.0.borrow_mut();
        if s.consecutive_pending < s.lim.p {
            let c = s.ch.borrow_mut().choose("poll_flush: ready / pending", &[0, 1]);
            if c == 1 {
                s.consecutive_pending += 1;
                s.last_poll_pending = true;
                return Poll::Pending;
            }
        }
        s.consecutive_pending = 0;
        s.last_poll_pending = false;
        Poll::Ready(Ok(()))
    }
    fn poll_close(self: Pin<&mut Self>, _cx: &mut Context<'_>) -> Poll<io::Result<()>> {
        Poll::Ready(Ok(()))
    }
}

#[derive(Debug, Clone)]
pub struct Scenario {
    pub values: Vec<Val>,
    pub max_len: Option<u32>,
    /// call sync() explicitly after every completed write and on the fresh writer
    pub idle_syncs: bool,
    /// construct the writer with `with_buffer` and a recycled buffer (stale content, spare capacity)
    pub ctor: u8,
    /// after value #i is done, `set_max_len(m)` for good (a limit lowered or raised on a writer that has been used)
    pub relimit: Option<(usize, u32)>,
}

impl Scenario {
    fn json(&self) -> serde_json::Value {
        json!({"values": self.values.iter().map(|v| v.name()).collect::<Vec<_>>(), "max_len": self.max_len, "idle_syncs": self.idle_syncs, "constructor": self.ctor, "relimit": self.relimit.map(|(i, m)| vec![i as u64, m as u64])})
    }
}

pub struct Obs {
    pub drops: u32,
    pub sink_len: usize,
    pub errors_seen: u32,
    pub keys: Vec<u64>,
}

fn hash64<T: std::hash::Hash>(t: &T) -> u64 {
    use std::hash::Hasher;
    let mut h = std::collections::hash_map::DefaultHasher::new();
    t.hash(&mut h);
    h.finish()
}

enum Done<T> {
    Ready(T),
    Dropped,
}

/// Poll a future to completion, offering "drop it" after every Pending.
fn drive<T>(
    mut fut: Pin<Box<dyn Future<Output = T> + '_>>,
    st: &Rc<RefCell<SinkState>>,
    ch: &SharedChooser,
    drops: &mut u32,
    max_drops: u32,
    what: &'static str,
) -> Result<Done<T>, String> {
    let mut cx = Context::from_waker(Waker::noop());
    let mut polls = 0;
    loop {
        polls += 1;
        if polls > 400 {
            return Err(format!("HORIZON: one {} future was polled 400 times without completing", what));
        }
        match fut.as_mut().poll(&mut cx) {
            Poll::Ready(x) => return Ok(Done::Ready(x)),
            Poll::Pending => {
                if !st.borrow().last_poll_pending {
                    return Err(format!("the {} future returned Pending although the sink did not (lost wake-up)", what));
                }
                let c = if *drops < max_drops { ch.borrow_mut().choose("after-pending: poll again / drop future", &[0, 1]) } else { 0 };
                if c == 1 {
                    *drops += 1;
                    return Ok(Done::Dropped);
                }
            }
        }
    }
}

pub fn run_once(sc: &Scenario, lim: Limits, ch: SharedChooser, obs_out: &mut Option<Obs>) -> Result<(), String> {
    let st = Rc::new(RefCell::new(SinkState {
        coarse: sc.values.iter().any(|v| matches!(v, Val::Arr(a) if a.len() > 24)),
        received: Vec::new(),
        consecutive_pending: 0,
        errors: 0,
        zeros: 0,
        last_poll_pending: false,
        poll_writes: 0,
        lim,
        ch: ch.clone(),
    }));
    let mut writer = if sc.ctor != 0 { AsyncWriter::with_buffer(Sink(st.clone()), dirty_buffer(sc.ctor)) } else { AsyncWriter::new(Sink(st.clone())) };
    let mut max_len = match sc.max_len {
        Some(m) => {
            writer.set_max_len(m);
            m as usize
        }
        None => 512 * 1024,
    };
    let mut model: Vec<u8> = Vec::new();
    let mut drops = 0u32;
    let mut errors_seen = 0u32;
    let mut keys = Vec::new();
    let check_idle = |model: &Vec<u8>, st: &Rc<RefCell<SinkState>>, when: &str| -> Result<(), String> {
        let s = st.borrow();
        if s.received != *model {
            return Err(format!("{}: sink holds {} but the model (complete frames of all written values) is {}", when, refmodel::hex(&s.received), refmodel::hex(model)));
        }
        Ok(())
    };
    // sync on an idle writer writes nothing
    macro_rules! idle_sync {
        ($when:expr) => {{
            let before = st.borrow().poll_writes;
            let r = drive(Box::pin(writer.sync()), &st, &ch, &mut drops, 0, "sync")?;
            match r {
                Done::Ready(Ok(())) => {}
                Done::Ready(Err(e)) => return Err(format!("{}: sync on an idle writer failed: {:?}", $when, classify_err(e))),
                Done::Dropped => unreachable!(),
            }
            let after = st.borrow().poll_writes;
            if after != before {
                return Err(format!("{}: sync on an idle writer called poll_write {} time(s)", $when, after - before));
            }
            check_idle(&model, &st, $when)?;
        }};
    }
    if sc.idle_syncs {
        idle_sync!("fresh writer");
    }
    for (vi, v) in sc.values.iter().enumerate() {
        if let Some((i, m)) = sc.relimit {
            if vi == i + 1 {
                writer.set_max_len(m);
                max_len = m as usize;
            }
        }
        let payload = v.payload();
        let armed = matches!(&payload, Some(p) if p.len() <= max_len);
        let frame: Vec<u8> = match &payload {
            Some(p) => {
                let mut f = (p.len() as u32).to_be_bytes().to_vec();
                f.extend_from_slice(p);
                f
            }
            None => vec![],
        };
        let before = st.borrow().received.clone();
        let r = drive(Box::pin(writer.write(v.clone())), &st, &ch, &mut drops, lim.d, "write")?;
        let mut need_sync = false;
        match r {
            Done::Ready(Ok(n)) => {
                if !armed {
                    return Err(format!("value #{} ({}) must not be written (encode failure or over max_len) but write returned Ok({})", vi, v.name(), n));
                }
                if n != payload.as_ref().unwrap().len() {
                    return Err(format!("write of value #{} returned {} but the payload is {} bytes", vi, n, payload.as_ref().unwrap().len()));
                }
                model.extend_from_slice(&frame);
                check_idle(&model, &st, "after a completed write")?;
            }
            Done::Ready(Err(e)) => {
                let c = classify_err(e);
                if !armed {
                    let want = if payload.is_none() { Res::EncodeErr } else { Res::InvalidLen };
                    if c != want {
                        return Err(format!("value #{} ({}): write failed with {:?}, expected {:?}", vi, v.name(), c, want));
                    }
                    if st.borrow().received != before {
                        return Err(format!("value #{} ({}) was rejected but the sink received bytes: {}", vi, v.name(), refmodel::hex(&st.borrow().received[before.len()..])));
                    }
                    // the writer must be idle: sync writes nothing
                    idle_sync!("after a rejected value");
                    continue;
                }
                match c {
                    Res::Transient | Res::WriteZero => {
                        errors_seen += 1;
                        need_sync = true
                    }
                    other => return Err(format!("write of value #{} failed with {:?}", vi, other)),
                }
            }
            Done::Dropped => {
                if !armed {
                    return Err(format!("value #{} ({}) cannot be written, yet its write future was pending on the sink", vi, v.name()));
                }
                need_sync = true;
            }
        }
        if need_sync {
            // precondition of the property: drive sync to completion before the next write
            let mut rounds = 0;
            loop {
                rounds += 1;
                if rounds > 20 {
                    return Err("HORIZON: sync did not complete after 20 attempts".to_string());
                }
                {
                    // while the frame is in flight the sink holds a prefix of model ++ frame
                    let s = st.borrow();
                    let mut full = model.clone();
                    full.extend_from_slice(&frame);
                    if !(s.received.len() >= model.len() && full.starts_with(&s.received)) {
                        return Err(format!("in flight: sink holds {} which is not a prefix-extension of {} within {}", refmodel::hex(&s.received), refmodel::hex(&model), refmodel::hex(&full)));
                    }
                    keys.push(hash64(&(writer.verif_state(), s.received.len(), vi, s.errors, s.zeros, drops)));
                }
                if sc.ctor != 0 {
                    // a frame is in flight: neither the setter nor flush() may disturb it (constructor 4 keeps the
                    // default limit untouched: no setter call at all)
                    if sc.ctor != 4 {
                        writer.set_max_len(0);
                        writer.set_max_len(max_len as u32);
                    }
                    match drive(Box::pin(writer.flush()), &st, &ch, &mut drops, 0, "flush")? {
                        Done::Ready(Ok(())) => {}
                        Done::Ready(Err(e)) => return Err(format!("flush() while a frame is in flight failed: {:?}", classify_err(e))),
                        Done::Dropped => unreachable!(),
                    }
                }
                let r = drive(Box::pin(writer.sync()), &st, &ch, &mut drops, lim.d, "sync")?;
                match r {
                    Done::Ready(Ok(())) => break,
                    Done::Ready(Err(e)) => match classify_err(e) {
                        Res::Transient | Res::WriteZero => {
                            errors_seen += 1;
                            continue;
                        }
                        other => return Err(format!("sync failed with {:?}", other)),
                    },
                    Done::Dropped => continue,
                }
            }
            model.extend_from_slice(&frame);
            check_idle(&model, &st, "after cancel/error + completed sync")?;
        }
        {
            let s = st.borrow();
            keys.push(hash64(&(writer.verif_state(), s.received.len(), vi, s.errors, s.zeros, drops)));
        }
        if sc.idle_syncs {
            idle_sync!("after a completed value");
        }
    }
    // accept-0 answers must have surfaced as write-zero errors: every injected zero/transient is one error seen
    {
        let s = st.borrow();
        if s.errors + s.zeros != errors_seen {
            return Err(format!("{} transient errors and {} zero-length accepts were injected but {} errors were reported", s.errors, s.zeros, errors_seen));
        }
    }
    *obs_out = Some(Obs { drops, sink_len: st.borrow().received.len(), errors_seen, keys });
    Ok(())
}

pub fn scenarios(tier: Tier) -> (Vec<Scenario>, Limits, String) {
    let vals = vec![Val::Arr(vec![5]), Val::Arr(vec![]), Val::Arr(vec![1, 2]), Val::FailEnc, Val::PartialFail, Val::Nothing];
    let (max_vals, lim) = match tier {
        Tier::Quick => (2, Limits { p: 1, e: 1, d: 2, z: 1, b: 3 }),
        Tier::Thorough => (2, Limits { p: 2, e: 2, d: 2, z: 1, b: 4 }),
    };
    let mut seqs: Vec<Vec<Val>> = vec![vec![]];
    let mut all: Vec<Vec<Val>> = vec![vec![]];
    for _ in 0..max_vals {
        let mut next = Vec::new();
        for s in &seqs {
            for v in &vals {
                let mut t = s.clone();
                t.push(v.clone());
                next.push(t);
            }
        }
        all.extend(next.iter().cloned());
        seqs = next;
    }
    let mut out = Vec::new();
    for s in all {
        for ml in [None, Some(2u32), Some(3u32)] {
            for idle in [false, true] {
                if idle && ml.is_some() {
                    continue;
                }
                out.push(Scenario { values: s.clone(), max_len: ml, idle_syncs: idle, ctor: 0, relimit: None });
            }
        }
        // the recycled-buffer constructor: all sequences in the thorough tier, those of <= 1 value (and the pairs starting with a failing value) in the quick tier
        if tier == Tier::Thorough || s.len() <= 1 || matches!(s[0], Val::FailEnc | Val::PartialFail) {
            out.push(Scenario { values: s.clone(), max_len: None, idle_syncs: true, ctor: 1, relimit: None });
            if s.len() <= 1 {
                out.push(Scenario { values: s.clone(), max_len: None, idle_syncs: false, ctor: 2, relimit: None });
                out.push(Scenario { values: s.clone(), max_len: None, idle_syncs: false, ctor: 3, relimit: None });
            }
        }
    }
    for big in large_frames() {
        let v = Val::Arr(big.value.clone().unwrap());
        let l = big.payload.len() as u32;
        let huge = l > 1000;
        if huge && tier == Tier::Quick && l != 65536 && l < 500_000 {
            continue;
        }
        if l >= 500_000 {
            out.push(Scenario { values: vec![v.clone(), Val::Arr(vec![5])], max_len: None, idle_syncs: false, ctor: 0, relimit: None });
            // a recycled buffer with more capacity than the default maximum does not raise the limit
            out.push(Scenario { values: vec![v.clone(), Val::Arr(vec![5])], max_len: None, idle_syncs: false, ctor: 4, relimit: None });
            continue;
        }
        let seqs = if huge || tier == Tier::Quick { vec![vec![v.clone()]] } else { vec![vec![v.clone()], vec![Val::Arr(vec![5]), v.clone()], vec![v.clone(), Val::FailEnc]] };
        for seq in seqs {
            out.push(Scenario { values: seq.clone(), max_len: None, idle_syncs: false, ctor: 0, relimit: None });
            out.push(Scenario { values: seq.clone(), max_len: Some(l), idle_syncs: true, ctor: 1, relimit: None });
            out.push(Scenario { values: seq.clone(), max_len: Some(l - 1), idle_syncs: false, ctor: 0, relimit: None });
        }
    }
    // a limit above the default: both values around 512 KiB are written; limits at the top of the u32 range
    for big in large_frames().into_iter().filter(|f| f.payload.len() >= 500_000) {
        let v = Val::Arr(big.value.clone().unwrap());
        out.push(Scenario { values: vec![v], max_len: Some(600_000), idle_syncs: false, ctor: 0, relimit: None });
    }
    for m in [0x7fff_ffffu32, 0x8000_0000, u32::MAX - 4, u32::MAX - 3, u32::MAX] {
        out.push(Scenario { values: vec![Val::Arr(vec![5])], max_len: Some(m), idle_syncs: false, ctor: 0, relimit: None });
        out.push(Scenario { values: vec![Val::Arr(vec![]), Val::Arr(vec![5])], max_len: None, idle_syncs: false, ctor: 1, relimit: Some((0, m)) });
    }
    // the limit changed on a writer that has been used: lowered after a larger frame (the second value must be refused),
    // lowered to exactly the second value's size, raised
    {
        let big = Val::Arr(large_frames()[2].value.clone().unwrap()); // 257 payload bytes
        let small = Val::Arr(vec![1, 2]); // 3 payload bytes
        let tiny = Val::Arr(vec![5]); // 2 payload bytes
        for (vals, re) in [
            (vec![big.clone(), small.clone()], (0usize, 2u32)),
            (vec![big.clone(), small.clone()], (0, 3)),
            (vec![small.clone(), tiny.clone()], (0, 1)),
            (vec![small.clone(), tiny.clone(), small.clone()], (0, 2)),
            (vec![tiny.clone(), small.clone()], (0, 2)),
        ] {
            out.push(Scenario { values: vals.clone(), max_len: None, idle_syncs: false, ctor: 0, relimit: Some(re) });
            out.push(Scenario { values: vals.clone(), max_len: Some(300), idle_syncs: false, ctor: 1, relimit: Some(re) });
        }
        out.push(Scenario { values: vec![small.clone(), tiny.clone()], max_len: Some(2), idle_syncs: false, ctor: 0, relimit: Some((0, 3)) });
    }
    // largest scenarios first so that the dynamic sharding balances
    out.sort_by_key(|s: &Scenario| std::cmp::Reverse(s.values.iter().map(|v| v.payload().map(|p| p.len() + 4).unwrap_or(0)).sum::<usize>()));
    let bound = format!(
        "0..={} values over {} value kinds (3 encodable arrays of 5..7 frame bytes, 2 failing encoders, 1 value that encodes to zero bytes), max_len in {{default, 2, 3}}, plus values with payloads of 255..65537 bytes and of 512 KiB / 512 KiB + 1 (the default maximum; deviation budget 2) (writes of more than 32 bytes accepted whole or, as one deviation each, 1 / half / all-but-one bytes); AsyncWriter::new and ::with_buffer(recycled buffer: stale bytes / spare capacity / 640 KiB of capacity); set_max_len lowered / raised after a value on a used writer (11 scenarios); limits 600000 (with values of 512 KiB and 512 KiB + 1) and 2^31-1 .. u32::MAX; set_max_len(0)+restore and flush() while a frame is in flight (with_buffer scenarios); sink: all accept sizes (free), <= {} consecutive Pending, <= {} transient errors, <= {} zero-length accepts; caller: <= {} dropped write/sync futures; total deviation budget {}",
        max_vals, vals.len(), lim.p, lim.e, lim.z, lim.d, lim.b
    );
    (out, lim, bound)
}

pub fn run(r: &Report) {
    let (scs, lim, bound) = scenarios(r.tier);
    r.space("write-sync-schedules", true, &bound, 4);
    r.assume("write is never re-issued after a cancellation without a completed sync (documented to discard the remainder)");
    const FIRST: usize = 12;
    // distinct quiescent states over the whole exploration (merged across shards)
    let all_states: std::sync::Mutex<HashSet<u64>> = std::sync::Mutex::new(HashSet::new());
    mcx::par::run_shards(
        scs.len() * FIRST * FIRST,
        |shard| {
            // one scenario is split by its first two choices
            let i = shard / (FIRST * FIRST);
            let first = ((shard / FIRST) % FIRST) as u32;
            let second = (shard % FIRST) as u32;
            let sc = &scs[i];
            let mut outcomes: BTreeMap<String, u64> = BTreeMap::new();
            let mut states: HashSet<u64> = HashSet::new();
            let mut nontrivial = 0u64;
            mcx::slot::case("c16-scenario", sc.json().to_string().as_bytes());
            let t0 = std::time::Instant::now();
            let (stats, fail) = explore_shard(if sc.values.iter().any(|v| matches!(v, Val::Arr(a) if a.len() > 100_000)) { lim.b.min(2) } else { lim.b }, &[first, second], FIRST as u32, |ch| {
                mcx::slot::beat();
                let mut obs = None;
                let res = match mcx::par::guard(|| run_once(sc, lim, ch, &mut obs)) {
                    Ok(x) => x,
                    Err(p) => Err(format!("panic: {}", p)),
                };
                if let Some(o) = obs {
                    *outcomes.entry(format!("{} drops, {} errors reported", o.drops, o.errors_seen)).or_default() += 1;
                    if o.sink_len > 0 {
                        nontrivial += 1;
                    }
                    states.extend(o.keys);
                }
                res
            });
            if std::env::var("VERIF_TIMING").is_ok() && t0.elapsed().as_millis() > 300 {
                eprintln!("TIMING {} ms, {} executions, shard {} of {}", t0.elapsed().as_millis(), stats.executions, first, sc.json());
            }
            r.add("write-sync-schedules", stats.executions, nontrivial.min(stats.executions));
            r.add_states("write-sync-schedules", 0, stats.choice_points);
            all_states.lock().unwrap().extend(states);
            r.outcomes("write-sync-schedules", &outcomes);
            if i % 41 == 0 && first == 0 && second == 0 {
                r.sample("write-sync-schedules", json!({"scenario": sc.json(), "executions": stats.executions, "max_choice_points": stats.max_trace_len}));
            }
            if let Some((choices, labels, msg)) = fail {
                let again = || {
                    let mut o = None;
                    replay(&choices, |ch| match mcx::par::guard(|| run_once(sc, lim, ch, &mut o)) {
                        Ok(x) => x,
                        Err(p) => Err(format!("panic: {}", p)),
                    })
                    .1
                };
                let a = again();
                let b = again();
                if a != Err(msg.clone()) || b != Err(msg.clone()) {
                    r.machinery_error(format!("nondeterministic replay of a failing schedule: {:?} / {:?} / {:?}", msg, a, b));
                }
                r.fail(
                    "write-sync-schedules",
                    None,
                    json!({"scenario": sc.json(), "limits": {"p": lim.p, "e": lim.e, "d": lim.d, "z": lim.z, "b": lim.b}, "choices": choices, "schedule": labels}),
                    msg,
                );
            }
        },
        crate::hang_handler(r.property.clone()),
    );
    r.add_states("write-sync-schedules", all_states.lock().unwrap().len() as u64, 0);
}

pub fn replay_case(case: &serde_json::Value) -> Result<(), String> {
    let sc = &case["scenario"];
    let values: Vec<Val> = sc["values"]
        .as_array()
        .unwrap()
        .iter()
        .map(|x| match x.as_str().unwrap() {
            "FailEnc" => Val::FailEnc,
            "PartialFail" => Val::PartialFail,
            "Nothing" => Val::Nothing,
            s if s.starts_with("big") => {
                let n: usize = s[3..].parse().unwrap();
                Val::Arr(large_frames().into_iter().find(|f| f.value.as_ref().unwrap().len() == n).unwrap().value.unwrap())
            }
            s => Val::Arr(serde_json::from_str::<Vec<u8>>(s).unwrap()),
        })
        .collect();
    let scen = Scenario { values, max_len: sc["max_len"].as_u64().map(|x| x as u32), idle_syncs: sc["idle_syncs"].as_bool().unwrap_or(false), ctor: sc["constructor"].as_u64().unwrap_or(0) as u8, relimit: sc["relimit"].as_array().map(|a| (a[0].as_u64().unwrap() as usize, a[1].as_u64().unwrap() as u32)) };
    let l = &case["limits"];
    let g = |k: &str| l[k].as_u64().unwrap() as u32;
    let lim = Limits { p: g("p"), e: g("e"), d: g("d"), z: g("z"), b: g("b") };
    let choices: Vec<u32> = case["choices"].as_array().unwrap().iter().map(|x| x.as_u64().unwrap() as u32).collect();
    let mut o = None;
    let (labels, res) = replay(&choices, |ch| run_once(&scen, lim, ch, &mut o));
    for l in labels {
        println!("  {}", l);
    }
    res
}
