//! C04: typed decoding agrees with the RFC 8949 data model on every well-formed encoding.
//!
//! (A) all item trees up to a node bound x all head-width assignments x suffixes x every
//!     typed accessor / iterator / ~125 target types, judged by `refmodel::shape::decode_ref`;
//! (B) type-directed re-framings (wider heads, indefinite containers, chunked strings) of the
//!     encodings of every small-domain value, decoded as that type;
//! (C) every strict prefix of every encoding from (A) and (B) with the matching operation.

use crate::ops::*;
use crate::types::*;
use mcx::{Report, Tier};
use minicbor::decode::info::Size;
use refmodel::enumerate::*;
use refmodel::shape::{canon, decode_ref, model_eq, Shape, Verdict};
use refmodel::*;
use serde_json::json;
use std::collections::BTreeMap;

pub struct AnyOp {
    pub name: &'static str,
    pub kind: OpKind,
    pub run: fn(&[u8], usize) -> DecOut,
}

pub fn all_ops() -> Vec<AnyOp> {
    let mut v: Vec<AnyOp> = accessor_ops().into_iter().map(|o| AnyOp { name: o.name, kind: o.kind, run: o.run }).collect();
    for e in type_table() {
        v.push(AnyOp { name: e.name, kind: OpKind::Shaped(e.shape.clone()), run: e.decode });
    }
    v
}

struct Expect {
    verdict: Verdict,
    /// position after a successful call
    pos: usize,
}

fn expect(kind: &OpKind, item: &Item, item_len: usize) -> Expect {
    match kind {
        OpKind::Shaped(s) => Expect { verdict: decode_ref(s, item), pos: item_len },
        OpKind::ArrayHead => match item {
            Item::Array(v, Len::Def(w)) => Expect { verdict: Verdict::MustOk(Item::uint(v.len() as u64)), pos: 1 + w.extra() },
            Item::Array(_, Len::Indef) => Expect { verdict: Verdict::MustOk(NULL), pos: 1 },
            _ => Expect { verdict: Verdict::MustErr, pos: 0 },
        },
        OpKind::MapHead => match item {
            Item::Map(v, Len::Def(w)) => Expect { verdict: Verdict::MustOk(Item::uint(v.len() as u64)), pos: 1 + w.extra() },
            Item::Map(_, Len::Indef) => Expect { verdict: Verdict::MustOk(NULL), pos: 1 },
            _ => Expect { verdict: Verdict::MustErr, pos: 0 },
        },
        OpKind::TagHead => match item {
            Item::Tag(t, w, _) => Expect { verdict: Verdict::MustOk(Item::uint(*t)), pos: 1 + w.extra() },
            _ => Expect { verdict: Verdict::MustErr, pos: 0 },
        },
        OpKind::Datatype => Expect { verdict: Verdict::MustOk(NULL), pos: 0 },
    }
}

/// Compare one call with the expectation. Returns Err(description) on disagreement.
fn judge(op: &AnyOp, ex: &Expect, item: &Item, out: &DecOut) -> Result<(), String> {
    let value_ok = |m: &Item, v: &Item| -> bool {
        match &op.kind {
            OpKind::Shaped(s) => model_eq(&canon(s, m), v),
            OpKind::Datatype => match m {
                Item::Text(t, _) => datatype_ok(item, std::str::from_utf8(t).unwrap_or("")),
                _ => false,
            },
            _ => m == v,
        }
    };
    match (&ex.verdict, &out.res) {
        (Verdict::MustOk(v), Ok(m)) => {
            if !value_ok(m, v) {
                return Err(format!("returned {} but the data model assigns {}", m.diag(), if op.kind == OpKind::Datatype { "a different type".to_string() } else { v.diag() }));
            }
            if out.pos != ex.pos {
                return Err(format!("returned the right value but left the position at {} instead of {}", out.pos, ex.pos));
            }
            if out.borrowed_inside == Some(false) {
                return Err("borrowed result does not point into the input".into());
            }
            Ok(())
        }
        (Verdict::MustOk(v), Err(c)) => Err(format!("failed with {:?}; the item has the matching shape and denotes {}", c, v.diag())),
        (Verdict::MustErr, Ok(m)) => Err(format!("returned {} for an item that cannot denote a value of the target", m.diag())),
        (Verdict::MustErr, Err(_)) => Ok(()),
        (Verdict::May(_), Err(_)) => Ok(()),
        (Verdict::May(v), Ok(m)) => {
            if !value_ok(m, v) {
                return Err(format!("returned {}; the only admissible value is {}", m.diag(), v.diag()));
            }
            if out.pos != ex.pos {
                return Err(format!("returned the admissible value but left the position at {} instead of {}", out.pos, ex.pos));
            }
            Ok(())
        }
    }
}

const SUFFIXES: [&[u8]; 3] = [&[], &[0x00], &[0xff]];

struct Counters {
    prefix_evals: u64,
    evals: u64,
    nontrivial: u64,
    outcomes: BTreeMap<String, u64>,
}

/// Run every op on one encoding (with suffixes) and its strict prefixes.
fn check_encoding(r: &Report, sub: &str, ops: &[AnyOp], item: &Item, c: &mut Counters, sizes: bool) {
    let enc = item.to_bytes();
    let mut buf = Vec::with_capacity(enc.len() + 1);
    for op in ops {
        let ex = expect(&op.kind, item, enc.len());
        let mut must_ok = false;
        match &ex.verdict {
            Verdict::MustOk(_) => {
                must_ok = true;
                *c.outcomes.entry("must-ok".into()).or_default() += 1
            }
            Verdict::MustErr => *c.outcomes.entry("must-err".into()).or_default() += 1,
            Verdict::May(_) => *c.outcomes.entry("may".into()).or_default() += 1,
        }
        for suf in SUFFIXES {
            buf.clear();
            buf.extend_from_slice(&enc);
            buf.extend_from_slice(suf);
            mcx::slot::case(op.name, &buf);
            c.evals += 1;
            match mcx::par::guard(|| (op.run)(&buf, 0)) {
                Ok(out) => {
                    if out.res.is_ok() {
                        c.nontrivial += 1;
                    }
                    if let Err(msg) = judge(op, &ex, item, &out) {
                        r.fail(sub, None, json!({"op": op.name, "input_hex": hex(&buf), "item": item.diag()}), msg);
                    }
                }
                Err(p) => r.fail(sub, None, json!({"op": op.name, "input_hex": hex(&buf), "item": item.diag()}), format!("panicked on well-formed input: {}", p)),
            }
        }
        if must_ok {
            // (C) every strict prefix fails with the end-of-input class
            let limit = match op.kind {
                OpKind::Shaped(_) => enc.len(),
                OpKind::Datatype => 1,
                _ => ex.pos,
            };
            for k in 0..limit {
                c.prefix_evals += 1;
                match mcx::par::guard(|| (op.run)(&enc[..k], 0)) {
                    Ok(out) => match out.res {
                        Err(ErrClass::EndOfInput) => {}
                        other => r.fail(
                            "strict-prefixes",
                            None,
                            json!({"op": op.name, "input_hex": hex(&enc[..k]), "prefix_of": hex(&enc), "item": item.diag()}),
                            format!("a strict prefix of a valid encoding gave {:?} instead of the end-of-input error", other.map(|m| m.diag())),
                        ),
                    },
                    Err(p) => r.fail("strict-prefixes", None, json!({"op": op.name, "input_hex": hex(&enc[..k])}), format!("panicked: {}", p)),
                }
            }
        }
    }
    if sizes {
        // Size::head / Size::tail
        let (hl, size) = head_info(item);
        c.evals += 2;
        match Size::head(enc[0]) {
            Ok(n) if n == hl => {}
            o => r.fail(sub, None, json!({"op": "Size::head", "input_hex": hex(&enc), "item": item.diag()}), format!("returned {:?}, the head has {} bytes", o.map_err(|e| e.to_string()), hl)),
        }
        match Size::tail(&enc[..hl]) {
            Ok(s) if s == size => {}
            // a map of n entries may be reported as n entries or 2n items
            Ok(Size::Items(n)) if matches!((item, size), (Item::Map(..), Size::Items(m)) if n == 2 * m) => {}
            o => r.fail(sub, None, json!({"op": "Size::tail", "input_hex": hex(&enc[..hl]), "item": item.diag()}), format!("returned {:?}, expected {:?}", o.map_err(|e| e.to_string()), size)),
        }
    }
}

pub fn run(r: &Report) {
    let thorough = r.tier == Tier::Thorough;
    let ops = all_ops();
    r.note("operations", json!(ops.len()));
    r.space("strict-prefixes", true, "every strict prefix of every encoding of sub-spaces A and B, decoded with each operation whose verdict on the full encoding is must-ok", 0);

    // ---- (A) trees x width assignments x all ops
    {
        let sub = "A-trees-all-ops";
        let (n_all_widths, n_dev) = if thorough { (4usize, 5usize) } else { (3usize, 4usize) };
        r.space(
            sub,
            true,
            &format!("all item trees <= {} nodes (12-leaf alphabet) x every head-width assignment, and all trees of {} nodes (7-leaf alphabet) in preferred form and with each single width/framing deviation; x suffix in {{none, 00, ff}} x {} operations", n_all_widths, n_dev, ops.len()),
            3,
        );
        let full = trees_up_to(n_all_widths, &Alphabet::full());
        let medium_all = trees_by_size(n_dev, &Alphabet::medium());
        let medium: &Vec<Item> = &medium_all[n_dev];
        let total = full.len() + medium.len();
        let shards = 1024usize.min(total.max(1));
        mcx::par::run_shards(
            shards,
            |s| {
                let mut c = Counters { prefix_evals: 0, evals: 0, nontrivial: 0, outcomes: BTreeMap::new() };
                let mut encs = 0u64;
                let mut i = s;
                while i < total {
                    if i < full.len() {
                        for v in all_width_assignments(&full[i]) {
                            check_encoding(r, sub, &ops, &v, &mut c, true);
                            encs += 1;
                        }
                    } else {
                        let t = &medium[i - full.len()];
                        for v in deviations_up_to(t, 1, true, false) {
                            check_encoding(r, sub, &ops, &v, &mut c, false);
                            encs += 1;
                        }
                    }
                    i += shards;
                }
                r.add(sub, c.evals, c.nontrivial);
                r.add("strict-prefixes", c.prefix_evals, c.prefix_evals);
                r.outcome("strict-prefixes", "end-of-input", c.prefix_evals);
                r.add_states(sub, encs, c.evals);
                r.outcomes(sub, &c.outcomes);
            },
            crate::hang_handler(r.property.clone()),
        );
        r.note("A_trees", json!({"all_widths_trees": full.len(), "single_deviation_trees": medium.len()}));
        r.sample(sub, json!({"item": full[full.len() / 3].diag(), "input_hex": hex(&full[full.len() / 3].to_bytes()), "ops": ops.len()}));
        r.sample(sub, json!({"item": medium[medium.len() / 2].diag(), "input_hex": hex(&medium[medium.len() / 2].to_bytes())}));
    }

    // ---- (A') the same operations started in the middle of the input and through a probe
    {
        let sub = "mid-stream-and-probe";
        r.space(
            sub,
            true,
            &format!("all item trees <= 3 nodes (12-leaf alphabet) in shortest heads and with each single width/framing deviation, behind a 1-byte and a 3-byte leading item x suffix in {{none, ff}} x {} operations: the call on a decoder moved to the item, and the same call on `probe()` of that decoder, must give the result of the call on a fresh decoder (value, error class, borrowed-ness) with the position shifted by the lead; the probe must leave its parent in place", ops.len()),
            2,
        );
        let trees = trees_up_to(3, &Alphabet::full());
        let leads: [&[u8]; 2] = [&[0x05], &[0x82, 0x01, 0x61]];
        let sufs: [&[u8]; 2] = [&[], &[0xff]];
        let shards = 256usize.min(trees.len().max(1));
        mcx::par::run_shards(
            shards,
            |s| {
                let mut evals = 0u64;
                let mut nontrivial = 0u64;
                let mut encs = 0u64;
                let mut i = s;
                while i < trees.len() {
                    for v in deviations_up_to(&trees[i], 1, true, false) {
                        let enc = v.to_bytes();
                        encs += 1;
                        for op in &ops {
                            for suf in sufs {
                                let mut plain = enc.clone();
                                plain.extend_from_slice(suf);
                                mcx::slot::case(op.name, &plain);
                                let base = match mcx::par::guard(|| (op.run)(&plain, 0)) {
                                    Ok(o) => o,
                                    Err(_) => continue, // judged by sub-space A
                                };
                                for lead in leads {
                                    let mut b = lead.to_vec();
                                    b.extend_from_slice(&plain);
                                    for probe in [false, true] {
                                        evals += 1;
                                        mcx::slot::case(op.name, &b);
                                        let got = mcx::par::guard(|| {
                                            set_via_probe(probe);
                                            let o = (op.run)(&b, lead.len());
                                            set_via_probe(false);
                                            o
                                        });
                                        set_via_probe(false);
                                        let how = if probe { "on probe() of a decoder at that position" } else { "on a decoder moved to that position" };
                                        match got {
                                            Ok(o) => {
                                                if o.res.is_ok() {
                                                    nontrivial += 1;
                                                }
                                                let same = match (&o.res, &base.res) {
                                                    (Ok(a), Ok(b)) => match &op.kind {
                                                        OpKind::Shaped(sh) => model_eq(&canon(sh, a), &canon(sh, b)),
                                                        _ => a == b,
                                                    },
                                                    (Err(a), Err(b)) => a == b,
                                                    _ => false,
                                                };
                                                if !same || o.pos != base.pos + lead.len() || o.borrowed_inside != base.borrowed_inside {
                                                    r.fail(
                                                        sub,
                                                        None,
                                                        json!({"op": op.name, "input_hex": hex(&b), "start": lead.len(), "item": v.diag(), "via_probe": probe}),
                                                        format!("{}: {:?} at position {} (borrowed inside the input: {:?}); on a fresh decoder over the item alone: {:?} at position {} (+{}) ({:?})", how, o.res.as_ref().map(|m| m.diag()), o.pos, o.borrowed_inside, base.res.as_ref().map(|m| m.diag()), base.pos, lead.len(), base.borrowed_inside),
                                                    );
                                                }
                                            }
                                            Err(p) => r.fail(sub, None, json!({"op": op.name, "input_hex": hex(&b), "start": lead.len(), "item": v.diag(), "via_probe": probe}), format!("{}: panicked: {}", how, p)),
                                        }
                                    }
                                }
                            }
                        }
                    }
                    i += shards;
                }
                r.add(sub, evals, nontrivial);
                r.add_states(sub, encs, evals);
                r.outcome(sub, "Ok on both", nontrivial);
                r.outcome(sub, "error on both", evals - nontrivial);
            },
            crate::hang_handler(r.property.clone()),
        );
        r.sample(sub, json!({"input_hex": "05 8101", "start": 1, "op": "array_iter()", "via_probe": true}));
    }

    // ---- (A'') wide items: more elements / bytes / chunks than an 8- or 16-bit counter holds
    {
        let sub = "long-items";
        r.space(
            sub,
            true,
            &format!("arrays and maps (definite and indefinite) of n elements, byte and text strings of n bytes, chunked strings of n one-byte chunks, for n in {{255, 256, 257, 65535, 65536, 65537}}, x suffix in {{none, ff}} x {} operations, and the last 3 strict prefixes of each", ops.len()),
            2,
        );
        let mut items: Vec<Item> = Vec::new();
        for n in [255usize, 256, 257, 65535, 65536, 65537] {
            let elems: Vec<Item> = (0..n).map(|i| Item::uint((i % 3) as u64)).collect();
            items.push(Item::array(elems.clone()));
            items.push(Item::Array(elems, Len::Indef));
            let entries: Vec<(Item, Item)> = (0..n).map(|i| (Item::uint(i as u64), Item::uint((i % 2) as u64))).collect();
            items.push(Item::map(entries.clone()));
            items.push(Item::Map(entries, Len::Indef));
            let payload: Vec<u8> = (0..n).map(|i| b'a' + (i % 26) as u8).collect();
            items.push(Item::bytes(&payload));
            items.push(Item::Text(payload.clone(), StrForm::Def(W::min_for(n as u64))));
            items.push(Item::Bytes(payload.clone(), StrForm::Indef(vec![(1, W::Imm); n])));
            items.push(Item::Text(payload.clone(), StrForm::Indef(vec![(1, W::Imm); n])));
            // the elements of a fixed-size array / the fields of Duration, Range, SocketAddr: zeros
            items.push(Item::array(vec![Item::uint(0); n]));
            items.push(Item::Array(vec![Item::uint(0); n], Len::Indef));
        }
        mcx::par::run_shards(
            items.len(),
            |i| {
                let item = &items[i];
                let enc = item.to_bytes();
                let mut evals = 0u64;
                let mut nontrivial = 0u64;
                let short = format!("{} ({} bytes)", item.diag().chars().take(40).collect::<String>(), enc.len());
                for op in &ops {
                    let ex = expect(&op.kind, item, enc.len());
                    for suf in [&[][..], &[0xff][..]] {
                        let mut buf = enc.clone();
                        buf.extend_from_slice(suf);
                        mcx::slot::case(op.name, &buf[..buf.len().min(64)]);
                        evals += 1;
                        match mcx::par::guard(|| (op.run)(&buf, 0)) {
                            Ok(out) => {
                                if out.res.is_ok() {
                                    nontrivial += 1;
                                }
                                if let Err(msg) = judge(op, &ex, item, &out) {
                                    r.fail(sub, None, json!({"op": op.name, "item": short, "input_hex_prefix": hex(&buf[..16])}), msg.chars().take(300).collect::<String>());
                                }
                            }
                            Err(p) => r.fail(sub, None, json!({"op": op.name, "item": short, "input_hex_prefix": hex(&buf[..16])}), format!("panicked on well-formed input: {}", p)),
                        }
                    }
                    if matches!(ex.verdict, Verdict::MustOk(_)) && matches!(op.kind, OpKind::Shaped(_)) {
                        for cut in 1..=3usize {
                            evals += 1;
                            match mcx::par::guard(|| (op.run)(&enc[..enc.len() - cut], 0)) {
                                Ok(out) => match out.res {
                                    Err(ErrClass::EndOfInput) => {}
                                    other => r.fail("strict-prefixes", None, json!({"op": op.name, "item": short, "removed_bytes": cut}), format!("a strict prefix of a valid encoding gave {:?} instead of the end-of-input error", other.map(|m| m.diag().chars().take(60).collect::<String>()))),
                                },
                                Err(p) => r.fail("strict-prefixes", None, json!({"op": op.name, "item": short, "removed_bytes": cut}), format!("panicked: {}", p)),
                            }
                        }
                    }
                }
                r.add(sub, evals, nontrivial);
                r.add_states(sub, 1, evals);
                r.outcome(sub, "Ok", nontrivial);
                r.outcome(sub, "Err", evals - nontrivial);
            },
            crate::hang_handler(r.property.clone()),
        );
        r.sample(sub, json!({"item": "[0, 1, 2, 0, ..] (65536 elements)", "op": "[u8;65536]"}));
    }

    // ---- (B) type-directed re-framings
    {
        let sub = "B-type-directed";
        let k = 2;
        r.space(sub, true, &format!("every small-domain value of every type of the table with an encoding <= 48 bytes: all re-framings with <= {} deviations (each head at each wider width, each array/map indefinite, each string split into 1-3 chunks), decoded as that type", k), 2);
        let table = type_table();
        mcx::par::run_shards(
            table.len(),
            |i| {
                let e = &table[i];
                let op = AnyOp { name: e.name, kind: OpKind::Shaped(e.shape.clone()), run: e.decode };
                let mut c = Counters { prefix_evals: 0, evals: 0, nontrivial: 0, outcomes: BTreeMap::new() };
                let mut encs = 0u64;
                for v in (e.values)() {
                    let model = v.model();
                    let blen = model.to_bytes().len();
                    if blen > 48 {
                        continue;
                    }
                    let kk = if blen > 14 { 1 } else { k };
                    for variant in deviations_up_to(&model, kk, true, true) {
                        // the variant denotes the same value: it can never be must-err for its own type
                        if let Verdict::MustErr = decode_ref(&e.shape, &variant) {
                            r.machinery_error(format!("reference relation rejects a re-framing of a value of {}: {}", e.name, variant.diag()));
                            continue;
                        }
                        check_encoding(r, sub, std::slice::from_ref(&op), &variant, &mut c, false);
                        encs += 1;
                    }
                }
                r.add(sub, c.evals, c.nontrivial);
                r.add("strict-prefixes", c.prefix_evals, c.prefix_evals);
                r.outcome("strict-prefixes", "end-of-input", c.prefix_evals);
                r.add_states(sub, encs, c.evals);
                r.outcomes(sub, &c.outcomes);
                if i % 23 == 0 {
                    r.sample(sub, json!({"type": e.name, "encodings": encs}));
                }
                // near-miss shapes: one element / byte / entry more or fewer, neighbouring major type or tag
                let mut c2 = Counters { prefix_evals: 0, evals: 0, nontrivial: 0, outcomes: BTreeMap::new() };
                let mut n2 = 0u64;
                let mut seen = std::collections::HashSet::new();
                for v in (e.values)() {
                    let model = v.model();
                    if model.to_bytes().len() > 48 {
                        continue;
                    }
                    for miss in near_misses(&model) {
                        if seen.insert(miss.clone()) {
                            check_encoding(r, "C-near-miss-shapes", std::slice::from_ref(&op), &miss, &mut c2, false);
                            n2 += 1;
                        }
                    }
                }
                r.add("C-near-miss-shapes", c2.evals, c2.nontrivial);
                r.add_states("C-near-miss-shapes", n2, c2.evals);
                r.outcomes("C-near-miss-shapes", &c2.outcomes);
            },
            crate::hang_handler(r.property.clone()),
        );
    }
    r.space("C-near-miss-shapes", true, "every small-domain value of every type of the table (encoding <= 48 bytes): all single near-miss shapes (one string byte / array element / map entry more or fewer, array<->map, bytes<->text, neighbouring major type, bumped or removed tag, null<->undefined, wider float), decoded as that type; the reference relation decides must-ok / must-err / may", 2);
    r.assume("verdict 'may' (API-documented restriction or leniency: definite-only strings/tuples, skipped surplus elements, simple() on false/true/null/undefined) accepts an error or exactly the data-model value");
    let _ = Shape::Unit;
}
