//! C12: floating-point values survive bit-exactly; half precision converts per IEEE 754.

use mcx::{Report, Tier};
use minicbor::{Decoder, Encoder};
use refmodel::float::*;
use refmodel::*;
use serde_json::json;

fn dec3(b: &[u8]) -> (Option<u32>, Option<u32>, Option<u64>, [usize; 3]) {
    let mut d = Decoder::new(b);
    let a = d.f16().ok().map(|x| x.to_bits());
    let p0 = d.position();
    let mut d = Decoder::new(b);
    let f = d.f32().ok().map(|x| x.to_bits());
    let p1 = d.position();
    let mut d = Decoder::new(b);
    let g = d.f64().ok().map(|x| x.to_bits());
    let p2 = d.position();
    (a, f, g, [p0, p1, p2])
}

fn eq32(got: Option<u32>, want: u32) -> bool {
    match got {
        Some(g) => g == want || (f32_is_nan(g) && f32_is_nan(want)),
        None => false,
    }
}
fn eq64(got: Option<u64>, want: u64) -> bool {
    match got {
        Some(g) => g == want || (f64_is_nan(g) && f64_is_nan(want)),
        None => false,
    }
}

fn check_f32_item(r: &Report, sub: &str, b: u32) -> u64 {
    let mut buf = [0u8; 6];
    buf[0] = 0xfa;
    buf[1..5].copy_from_slice(&b.to_be_bytes());
    buf[5] = 0xff;
    let (a, f, g, pos) = dec3(&buf);
    // same width: identical bits incl. NaN payload; wider: exact; narrower accessor: refuse
    if f != Some(b) || pos[1] != 5 {
        r.fail(sub, None, json!({"item_hex": hex(&buf[..5]), "accessor": "f32()"}), format!("returned {:?} at position {}", f.map(|x| format!("{:08x}", x)), pos[1]));
    }
    if !eq64(g, f32_to_f64(b)) || pos[2] != 5 {
        r.fail(sub, None, json!({"item_hex": hex(&buf[..5]), "accessor": "f64()"}), format!("returned {:?}, exact widening is {:016x}", g.map(|x| format!("{:016x}", x)), f32_to_f64(b)));
    }
    if a.is_some() {
        r.fail(sub, None, json!({"item_hex": hex(&buf[..5]), "accessor": "f16()"}), "a single-precision item was accepted by the half-precision accessor");
    }
    // the Decode impls are their own code path (a row of a macro table): they must agree with the accessors
    let t32 = minicbor::decode::<f32>(&buf[..5]).ok().map(|x| x.to_bits());
    let t64 = minicbor::decode::<f64>(&buf[..5]).ok().map(|x| x.to_bits());
    if t32 != f || !eq64(t64, f32_to_f64(b)) {
        r.fail(sub, None, json!({"item_hex": hex(&buf[..5]), "call": "decode::<f32> / decode::<f64>"}), format!("returned {:?} / {:?}; the accessors return {:?} / {:?}", t32.map(|x| format!("{:08x}", x)), t64.map(|x| format!("{:016x}", x)), f.map(|x| format!("{:08x}", x)), g.map(|x| format!("{:016x}", x))));
    }
    // encode: f32() writes the identical pattern
    let mut out = [0u8; 8];
    let used = {
        let mut s: &mut [u8] = &mut out[..];
        Encoder::new(&mut s).f32(f32::from_bits(b)).unwrap();
        8 - s.len()
    };
    if out[..used] != buf[..5] {
        r.fail(sub, None, json!({"f32_bits": format!("{:08x}", b), "call": "Encoder::f32"}), format!("wrote {}", hex(&out[..used])));
    }
    // the other public ways to write / read a single: the Encode impl, Token::F32, and the serde bridge
    let mut out2 = [0u8; 8];
    let used2 = {
        let mut s: &mut [u8] = &mut out2[..];
        minicbor::encode(minicbor::data::Token::F32(f32::from_bits(b)), &mut s).unwrap();
        8 - s.len()
    };
    if out2[..used2] != buf[..5] {
        r.fail(sub, None, json!({"f32_bits": format!("{:08x}", b), "call": "encode(Token::F32)"}), format!("wrote {}", hex(&out2[..used2])));
    }
    let mut out3 = [0u8; 8];
    let used3 = {
        let mut ser = minicbor_serde::Serializer::new(&mut out3[..]);
        serde::Serialize::serialize(&f32::from_bits(b), &mut ser).unwrap();
        8 - ser.encoder().writer().len()
    };
    if out3[..used3] != buf[..5] {
        r.fail(sub, None, json!({"f32_bits": format!("{:08x}", b), "call": "serde Serializer (f32)"}), format!("wrote {}", hex(&out3[..used3])));
    }
    let s32 = minicbor_serde::from_slice::<f32>(&buf[..5]).ok().map(|x| x.to_bits());
    let s64 = minicbor_serde::from_slice::<f64>(&buf[..5]).ok().map(|x| x.to_bits());
    if s32 != Some(b) || !eq64(s64, f32_to_f64(b)) {
        r.fail(sub, None, json!({"item_hex": hex(&buf[..5]), "call": "serde from_slice::<f32 / f64>"}), format!("returned {:?} / {:?}", s32.map(|x| format!("{:08x}", x)), s64.map(|x| format!("{:016x}", x))));
    }
    9
}

fn check_f16_encode(r: &Report, sub: &str, c: u32) -> u64 {
    let mut out = [0u8; 8];
    let used = {
        let mut s: &mut [u8] = &mut out[..];
        Encoder::new(&mut s).f16(f32::from_bits(c)).unwrap();
        8 - s.len()
    };
    let ok = if f32_is_nan(c) {
        used == 3 && out[0] == 0xf9 && f16_is_nan(u16::from_be_bytes([out[1], out[2]]))
    } else {
        let want = f32_to_f16(c);
        used == 3 && out[0] == 0xf9 && u16::from_be_bytes([out[1], out[2]]) == want
    };
    if !ok {
        r.fail(sub, None, json!({"f32_bits": format!("{:08x}", c), "call": "Encoder::f16"}), format!("wrote {}; round-to-nearest-even gives f9{:04x}", hex(&out[..used]), f32_to_f16(c)));
    }
    // Token::F16 is the explicit half-precision encoding too
    let mut out2 = [0u8; 8];
    let used2 = {
        let mut s: &mut [u8] = &mut out2[..];
        minicbor::encode(minicbor::data::Token::F16(f32::from_bits(c)), &mut s).unwrap();
        8 - s.len()
    };
    if out2[..used2] != out[..used] {
        r.fail(sub, None, json!({"f32_bits": format!("{:08x}", c), "call": "encode(Token::F16)"}), format!("wrote {} where Encoder::f16 writes {}", hex(&out2[..used2]), hex(&out[..used])));
    }
    2
}

pub fn run(r: &Report) {
    let thorough = r.tier == Tier::Thorough;
    // ---- half items
    {
        let sub = "half-items";
        r.space(sub, true, "all 65536 half-precision items through f16(), f32(), f64(), and decode::<f32/f64>", 2);
        let mut n = 0u64;
        for h in 0..=u16::MAX {
            let b = [0xf9, (h >> 8) as u8, h as u8, 0x00];
            let (a, f, g, pos) = dec3(&b);
            let w32 = f16_to_f32(h);
            let w64 = f16_to_f64(h);
            n += 3;
            if !eq32(a, w32) || !eq32(f, w32) || !eq64(g, w64) || pos != [3, 3, 3] {
                r.fail(sub, None, json!({"item_hex": hex(&b[..3])}), format!("f16()={:?} f32()={:?} f64()={:?} positions {:?}; the pattern denotes f32 {:08x} / f64 {:016x}", a.map(|x| format!("{:08x}", x)), f.map(|x| format!("{:08x}", x)), g.map(|x| format!("{:016x}", x)), pos, w32, w64));
            }
            // typed decode agrees with the accessors
            let t32 = minicbor::decode::<f32>(&b).ok().map(|x| x.to_bits());
            let t64 = minicbor::decode::<f64>(&b).ok().map(|x| x.to_bits());
            if t32 != f || t64 != g {
                r.fail(sub, None, json!({"item_hex": hex(&b[..3])}), "decode::<f32/f64> disagrees with the accessor");
            }
            // exactness of explicit half encoding for half-representable values
            if !f16_is_nan(h) {
                let out = {
                    let mut e = Encoder::new(Vec::new());
                    e.f16(f32::from_bits(w32)).unwrap();
                    e.into_writer()
                };
                n += 1;
                if out != b[..3] {
                    r.fail(sub, None, json!({"half": format!("{:04x}", h), "call": "Encoder::f16"}), format!("a half-representable value was written as {}", hex(&out)));
                }
            }
        }
        r.add(sub, n, n);
        r.outcome(sub, "finite/inf", 65536 - 2046);
        r.outcome(sub, "nan", 2046);
        r.sample(sub, json!({"item_hex": "f90001", "f32": "33800000"}));
    }
    // ---- single items + f16 rounding
    {
        let sub = "single-items";
        r.space(
            sub,
            true,
            if thorough { "all 2^32 single-precision patterns: f32() identical bits, f64() exact widening, f16() refuses, Encoder::f32 identical, Encoder::f16 equals round-to-nearest-even" } else { "all 512 sign/exponent values x mantissas with <= 2 set bits, <= 2 clear bits, or only the top/bottom 6 bits varying; plus the neighbourhood of every half value (value, adjacent singles, midpoints +- 1 ulp)" },
            1,
        );
        let shards = 256usize;
        let mants: Vec<u32> = {
            let mut m: Vec<u32> = vec![0];
            for a in 0..23 {
                for b in 0..23 {
                    m.push((1 << a) | (1 << b));
                    m.push(0x7f_ffff & !((1 << a) | (1 << b)));
                }
            }
            for x in 0..64u32 {
                m.push(x);
                m.push(x << 17);
            }
            m.sort_unstable();
            m.dedup();
            m
        };
        mcx::par::run_shards(
            shards,
            |s| {
                let mut n = 0u64;
                mcx::slot::case("single-items", &[s as u8]);
                if thorough {
                    let per = (1u64 << 32) / shards as u64;
                    for b in (s as u64 * per)..((s as u64 + 1) * per) {
                        if b % (1 << 20) == 0 {
                            mcx::slot::beat();
                        }
                        n += check_f32_item(r, sub, b as u32);
                        n += check_f16_encode(r, sub, b as u32);
                    }
                } else {
                    // sign/exponent values 2s, 2s+1
                    for se in [2 * s as u32, 2 * s as u32 + 1] {
                        for m in &mants {
                            let b = (se << 23) | m;
                            n += check_f32_item(r, sub, b);
                            n += check_f16_encode(r, sub, b);
                        }
                    }
                    let per = 65536 / shards;
                    for h in (s * per)..((s + 1) * per) {
                        let h = h as u16;
                        if f16_is_nan(h) {
                            continue;
                        }
                        let base = f16_to_f32(h);
                        let mut cands = vec![base, base.wrapping_add(1), base.wrapping_sub(1)];
                        let h2 = h.wrapping_add(1);
                        if !f16_is_nan(h2) && (h & 0x7fff) < 0x7c00 && (h & 0x8000) == (h2 & 0x8000) {
                            let next = f16_to_f32(h2);
                            let mid = (f32::from_bits(base) / 2.0 + f32::from_bits(next) / 2.0).to_bits();
                            cands.extend([mid, mid.wrapping_add(1), mid.wrapping_sub(1)]);
                        }
                        // overflow boundary: 65520 is the tie between the largest half and infinity
                        if (h & 0x7fff) == 0x7bff {
                            let tie = 65520.0f32.to_bits() | ((h as u32 & 0x8000) << 16);
                            cands.extend([tie, tie + 1, tie - 1, 0x7f7f_ffff | ((h as u32 & 0x8000) << 16)]);
                        }
                        for c in cands {
                            n += check_f16_encode(r, sub, c);
                        }
                    }
                }
                r.add(sub, n, n);
                r.outcome(sub, "checked", n);
            },
            crate::hang_handler(r.property.clone()),
        );
        r.sample(sub, json!({"item_hex": "fa7fc00001", "f32()": "7fc00001 (payload kept)", "f64()": "NaN"}));
    }
    // ---- double items
    {
        let sub = "double-items";
        r.space(sub, true, if thorough { "all 4096 sign/exponent values x ~600 boundary mantissas, plus every single-representable value with a 16-bit stride" } else { "all 4096 sign/exponent values x ~120 boundary mantissas" }, 1);
        let mut mants: Vec<u64> = vec![0, 1, (1 << 52) - 1, 1 << 51, (1 << 51) | 1, 1 << 29, (1 << 29) - 1, (1 << 29) + 1, 1 << 28, 1 << 42, (1 << 42) - 1];
        for a in 0..52 {
            mants.push(1 << a);
            mants.push(((1u64 << 52) - 1) & !(1 << a));
        }
        if thorough {
            for a in 0..52 {
                for b in (0..52).step_by(5) {
                    mants.push((1 << a) | (1 << b));
                }
            }
        }
        mants.sort_unstable();
        mants.dedup();
        let shards = 64usize;
        mcx::par::run_shards(
            shards,
            |s| {
                let mut n = 0u64;
                let mut one = |b: u64| {
                    let mut buf = [0u8; 10];
                    buf[0] = 0xfb;
                    buf[1..9].copy_from_slice(&b.to_be_bytes());
                    buf[9] = 0x00;
                    let (a, f, g, pos) = dec3(&buf);
                    n += 3;
                    if g != Some(b) || pos[2] != 9 {
                        r.fail(sub, None, json!({"item_hex": hex(&buf[..9]), "accessor": "f64()"}), format!("returned {:?} at {}", g.map(|x| format!("{:016x}", x)), pos[2]));
                    }
                    if a.is_some() || f.is_some() {
                        r.fail(sub, None, json!({"item_hex": hex(&buf[..9])}), format!("a double-precision item was accepted by a narrower accessor: f16()={:?} f32()={:?}", a, f));
                    }
                    // the Decode impls and the serde bridge: same value for f64, refusal for f32
                    let t64 = minicbor::decode::<f64>(&buf[..9]).ok().map(|x| x.to_bits());
                    let t32 = minicbor::decode::<f32>(&buf[..9]).ok().map(|x| x.to_bits());
                    let s64 = minicbor_serde::from_slice::<f64>(&buf[..9]).ok().map(|x| x.to_bits());
                    let s32 = minicbor_serde::from_slice::<f32>(&buf[..9]).ok().map(|x| x.to_bits());
                    if t64 != Some(b) || s64 != Some(b) || t32.is_some() || s32.is_some() {
                        r.fail(sub, None, json!({"item_hex": hex(&buf[..9]), "call": "decode::<f64 / f32>, serde from_slice::<f64 / f32>"}), format!("returned {:?} / {:?} / {:?} / {:?}; a double item denotes exactly its pattern as f64 and is never an f32", t64.map(|x| format!("{:016x}", x)), t32.map(|x| format!("{:08x}", x)), s64.map(|x| format!("{:016x}", x)), s32.map(|x| format!("{:08x}", x))));
                    }
                    let out = {
                        let mut o = [0u8; 12];
                        let used = {
                            let mut sl: &mut [u8] = &mut o[..];
                            Encoder::new(&mut sl).f64(f64::from_bits(b)).unwrap();
                            12 - sl.len()
                        };
                        (o, used)
                    };
                    n += 1;
                    if out.0[..out.1] != buf[..9] {
                        r.fail(sub, None, json!({"f64_bits": format!("{:016x}", b), "call": "Encoder::f64"}), format!("wrote {}", hex(&out.0[..out.1])));
                    }
                };
                let per = 4096 / shards as u64;
                for se in (s as u64 * per)..((s as u64 + 1) * per) {
                    for m in &mants {
                        one((se << 52) | m);
                    }
                }
                if thorough {
                    let per = (1u64 << 32) / shards as u64;
                    for x in ((s as u64 * per)..((s as u64 + 1) * per)).step_by(65521) {
                        one(f32_to_f64(x as u32));
                    }
                }
                r.add(sub, n, n);
                r.outcome(sub, "checked", n);
            },
            crate::hang_handler(r.property.clone()),
        );
        r.sample(sub, json!({"item_hex": "fb7ff0000000000001", "f64()": "identical bits", "f32()": "Err"}));
    }
    r.assume("NaN payloads are required to survive only at unchanged width; across widths NaN must stay NaN");
}
