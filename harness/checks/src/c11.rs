//! C11: token streams are faithful: tokenise and re-encode is the identity.

use mcx::{Report, Tier};
use minicbor::data::{Int, Tag, Token};
use minicbor::{Decoder, Encoder};
use refmodel::enumerate::*;
use refmodel::float::*;
use refmodel::*;
use serde_json::json;

/// Reference token: the data-model value of one head.
#[derive(Debug, Clone, PartialEq)]
pub enum RefTok {
    Int(i128),
    Bytes(Vec<u8>),
    Text(Vec<u8>),
    Array(u64),
    Map(u64),
    Tag(u64),
    Simple(u8),
    Bool(bool),
    Null,
    Undefined,
    F16(u32),
    F32(u32),
    F64(u64),
    BeginBytes,
    BeginText,
    BeginArray,
    BeginMap,
    Break,
}

fn feq32(a: u32, b: u32) -> bool {
    a == b || (f32_is_nan(a) && f32_is_nan(b))
}

pub fn tok_eq(a: &RefTok, b: &RefTok) -> bool {
    match (a, b) {
        (RefTok::F16(x), RefTok::F16(y)) => feq32(*x, *y),
        _ => a == b,
    }
}

/// Pre-order head list of an item.
pub fn ref_tokens(i: &Item, out: &mut Vec<RefTok>) {
    match i {
        Item::Uint(n, _) => out.push(RefTok::Int(*n as i128)),
        Item::Nint(n, _) => out.push(RefTok::Int(-1 - *n as i128)),
        Item::Bytes(d, StrForm::Def(_)) => out.push(RefTok::Bytes(d.clone())),
        Item::Text(d, StrForm::Def(_)) => out.push(RefTok::Text(d.clone())),
        Item::Bytes(d, StrForm::Indef(c)) => {
            out.push(RefTok::BeginBytes);
            let mut o = 0;
            for (n, _) in c {
                out.push(RefTok::Bytes(d[o..o + n].to_vec()));
                o += n;
            }
            out.push(RefTok::Break)
        }
        Item::Text(d, StrForm::Indef(c)) => {
            out.push(RefTok::BeginText);
            let mut o = 0;
            for (n, _) in c {
                out.push(RefTok::Text(d[o..o + n].to_vec()));
                o += n;
            }
            out.push(RefTok::Break)
        }
        Item::Array(v, l) => {
            match l {
                Len::Def(_) => out.push(RefTok::Array(v.len() as u64)),
                Len::Indef => out.push(RefTok::BeginArray),
            }
            for x in v {
                ref_tokens(x, out)
            }
            if let Len::Indef = l {
                out.push(RefTok::Break)
            }
        }
        Item::Map(v, l) => {
            match l {
                Len::Def(_) => out.push(RefTok::Map(v.len() as u64)),
                Len::Indef => out.push(RefTok::BeginMap),
            }
            for (k, x) in v {
                ref_tokens(k, out);
                ref_tokens(x, out)
            }
            if let Len::Indef = l {
                out.push(RefTok::Break)
            }
        }
        Item::Tag(t, _, inner) => {
            out.push(RefTok::Tag(*t));
            ref_tokens(inner, out)
        }
        Item::Simple(20) => out.push(RefTok::Bool(false)),
        Item::Simple(21) => out.push(RefTok::Bool(true)),
        Item::Simple(22) => out.push(RefTok::Null),
        Item::Simple(23) => out.push(RefTok::Undefined),
        Item::Simple(s) => out.push(RefTok::Simple(*s)),
        Item::Float(b, FW::F16) => out.push(RefTok::F16(f16_to_f32(*b as u16))),
        Item::Float(b, FW::F32) => out.push(RefTok::F32(*b as u32)),
        Item::Float(b, FW::F64) => out.push(RefTok::F64(*b)),
    }
}

pub fn to_ref(t: &Token) -> RefTok {
    match *t {
        Token::Bool(b) => RefTok::Bool(b),
        Token::U8(n) => RefTok::Int(n as i128),
        Token::U16(n) => RefTok::Int(n as i128),
        Token::U32(n) => RefTok::Int(n as i128),
        Token::U64(n) => RefTok::Int(n as i128),
        Token::I8(n) => RefTok::Int(n as i128),
        Token::I16(n) => RefTok::Int(n as i128),
        Token::I32(n) => RefTok::Int(n as i128),
        Token::I64(n) => RefTok::Int(n as i128),
        Token::Int(n) => RefTok::Int(i128::from(n)),
        Token::F16(x) => RefTok::F16(x.to_bits()),
        Token::F32(x) => RefTok::F32(x.to_bits()),
        Token::F64(x) => RefTok::F64(x.to_bits()),
        Token::Bytes(b) => RefTok::Bytes(b.to_vec()),
        Token::String(s) => RefTok::Text(s.as_bytes().to_vec()),
        Token::Array(n) => RefTok::Array(n),
        Token::Map(n) => RefTok::Map(n),
        Token::Tag(t) => RefTok::Tag(t.as_u64()),
        Token::Simple(s) => RefTok::Simple(s),
        Token::Break => RefTok::Break,
        Token::Null => RefTok::Null,
        Token::Undefined => RefTok::Undefined,
        Token::BeginBytes => RefTok::BeginBytes,
        Token::BeginString => RefTok::BeginText,
        Token::BeginArray => RefTok::BeginArray,
        Token::BeginMap => RefTok::BeginMap,
    }
}

/// Tokenise `input` (a sequence of well-formed items), compare with the reference head list
/// and check that re-encoding the tokens gives `want_bytes`.
fn check_stream(r: &Report, sub: &str, items: &[&Item], evals: &mut u64) -> bool {
    let mut input = Vec::new();
    let mut want = Vec::new();
    let mut reft = Vec::new();
    for i in items {
        encode(i, &mut input);
        encode(&i.shortest_heads(), &mut want);
        ref_tokens(i, &mut reft);
    }
    mcx::slot::case("tokens", &input);
    *evals += 1;
    let case = || json!({"input_hex": hex(&input), "items": items.iter().map(|i| i.diag()).collect::<Vec<_>>()});
    let toks: Vec<Token> = match mcx::par::guard(|| Decoder::new(&input).tokens().collect::<Result<Vec<Token>, _>>()) {
        Ok(Ok(t)) => t,
        Ok(Err(e)) => {
            r.fail(sub, None, case(), format!("tokenising a well-formed input failed: {}", e));
            return false;
        }
        Err(p) => {
            r.fail(sub, None, case(), format!("tokeniser panicked: {}", p));
            return false;
        }
    };
    let got: Vec<RefTok> = toks.iter().map(to_ref).collect();
    if got.len() != reft.len() || !got.iter().zip(&reft).all(|(a, b)| tok_eq(a, b)) {
        r.fail(sub, None, case(), format!("tokens {:?} differ from the head list of the parsed items {:?}", toks, reft));
        return false;
    }
    let mut e = Encoder::new(Vec::new());
    if let Err(err) = e.tokens(&toks) {
        r.fail(sub, None, case(), format!("re-encoding the tokens failed: {}", err));
        return false;
    }
    let out = e.into_writer();
    if out != want {
        r.fail(sub, None, case(), format!("re-encoding the tokens gave {}, expected {} ({})", hex(&out), hex(&want), if want == input { "the input itself" } else { "the same items with shortest heads" }));
        return false;
    }
    // a tokenizer started in the middle of the input (after the first item was consumed through the decoder)
    // yields exactly the tokens of the rest, through every way of constructing it
    if items.len() >= 2 {
        let mut first = Vec::new();
        ref_tokens(items[0], &mut first);
        let rest = &reft[first.len()..];
        let same = |toks: &[Token]| toks.len() == rest.len() && toks.iter().map(to_ref).zip(rest).all(|(a, b)| tok_eq(&a, b));
        *evals += 3;
        let mut d = Decoder::new(&input);
        if d.skip().is_err() {
            r.fail(sub, None, case(), "skip() over the first item failed");
            return false;
        }
        let mid = d.position();
        let owned: Result<Vec<Token>, _> = minicbor::decode::Tokenizer::from(d.clone()).collect();
        let borrowed: Result<Vec<Token>, _> = minicbor::decode::Tokenizer::from(&mut d).collect();
        let after_borrowed = d.position();
        let mut d2 = Decoder::new(&input);
        d2.set_position(mid);
        let via_tokens: Result<Vec<Token>, _> = d2.tokens().collect();
        for (how, got) in [("Tokenizer::from(decoder)", &owned), ("Tokenizer::from(&mut decoder)", &borrowed), ("decoder.tokens()", &via_tokens)] {
            match got {
                Ok(t) if same(t) => {}
                other => {
                    r.fail(sub, None, case(), format!("{} after the first item was consumed (position {}) gave {:?}, the rest of the input has the tokens {:?}", how, mid, other.as_ref().map_err(|e| e.to_string()), rest));
                    return false;
                }
            }
        }
        if after_borrowed != input.len() || d2.position() != input.len() {
            r.fail(sub, None, case(), format!("after a borrowed tokenizer ran to the end the decoder is at {} / {}, the input has {} bytes", after_borrowed, d2.position(), input.len()));
            return false;
        }
    }
    true
}

fn token_alphabet() -> Vec<Token<'static>> {
    let mut v = vec![Token::Bool(false), Token::Bool(true), Token::Null, Token::Undefined, Token::Break, Token::BeginBytes, Token::BeginString, Token::BeginArray, Token::BeginMap];
    for n in [0u8, 23, 24, 255] {
        v.push(Token::U8(n));
    }
    for n in [0u16, 255, 256, 65535] {
        v.push(Token::U16(n));
    }
    for n in [0u32, 65535, 65536, u32::MAX] {
        v.push(Token::U32(n));
    }
    for n in [0u64, u32::MAX as u64, 1 << 32, u64::MAX] {
        v.push(Token::U64(n));
    }
    for n in [-1i8, -24, -25, -128, 0, 127] {
        v.push(Token::I8(n));
    }
    for n in [-129i16, -256, -257, i16::MIN, i16::MAX] {
        v.push(Token::I16(n));
    }
    for n in [-65537i32, i32::MIN, i32::MAX] {
        v.push(Token::I32(n));
    }
    for n in [-(1i64 << 32) - 1, i64::MIN, i64::MAX] {
        v.push(Token::I64(n));
    }
    for n in [-(1i128 << 64), -(1i128 << 63) - 1, (1i128 << 64) - 1, -1, 0] {
        v.push(Token::Int(Int::try_from(n).unwrap()));
    }
    for h in [0x0000u16, 0x8000, 0x3c00, 0x0001, 0x7bff, 0x7c00, 0xfc00, 0x7e00, 0xfe01] {
        v.push(Token::F16(f32::from_bits(f16_to_f32(h))));
    }
    for b in [0u32, 0x3fc0_0000, 0x7f80_0000, 0x7fc0_0001, 0x0000_0001] {
        v.push(Token::F32(f32::from_bits(b)));
    }
    for b in [0u64, 0x3ff8_0000_0000_0000, 0xfff0_0000_0000_0000, 0x7ff8_0000_0000_0001] {
        v.push(Token::F64(f64::from_bits(b)));
    }
    let b24: &'static [u8] = Box::leak(vec![7u8; 24].into_boxed_slice());
    let s24: &'static str = Box::leak("y".repeat(24).into_boxed_str());
    v.extend([Token::Bytes(&[]), Token::Bytes(&[200, 1, 2]), Token::Bytes(b24), Token::String(""), Token::String("a"), Token::String(s24)]);
    // every head-width boundary of the length / tag argument, on both sides
    for n in [0u64, 23, 24, 255, 256, 65535, 65536, 0x7fff_ffff, 0x8000_0000, 0xffff_ffff, 1 << 32, u64::MAX] {
        v.push(Token::Array(n));
        v.push(Token::Map(n));
        v.push(Token::Tag(Tag::new(n)));
    }
    // 20..=31 included: whatever bytes the encoder chooses for them (see the C03 finding), the token must come back
    for n in [0u8, 19, 20, 23, 24, 31, 32, 255] {
        v.push(Token::Simple(n));
    }
    v
}

pub fn run(r: &Report) {
    let thorough = r.tier == Tier::Thorough;
    // ---- (1) well-formed item sequences
    {
        let sub = "item-sequences";
        let n1 = if thorough { 6 } else { 5 };
        r.space(sub, true, &format!("all single items <= {} nodes (12-leaf alphabet) in preferred heads and with every head-width assignment for <= 3 nodes; all ordered pairs of items <= 2 nodes; all 65536 half items except signalling NaNs; all well-formed simple values", n1), 1);
        let alpha = Alphabet::full();
        // text leaves must be valid UTF-8 here: tokenisation validates text
        let singles: Vec<Item> = trees_up_to(n1, &alpha).into_iter().filter(|i| i.utf8_ok()).collect();
        let small: Vec<Item> = trees_up_to(2, &alpha).into_iter().filter(|i| i.utf8_ok()).collect();
        let tiny: Vec<Item> = trees_up_to(3, &alpha).into_iter().filter(|i| i.utf8_ok()).collect();
        let shards = 256usize;
        mcx::par::run_shards(
            shards,
            |s| {
                let mut evals = 0u64;
                let mut ok = 0u64;
                let mut i = s;
                while i < singles.len() {
                    if check_stream(r, sub, &[&singles[i]], &mut evals) {
                        ok += 1;
                    }
                    i += shards;
                }
                let mut i = s;
                while i < tiny.len() {
                    for v in all_width_assignments(&tiny[i]) {
                        if check_stream(r, sub, &[&v], &mut evals) {
                            ok += 1;
                        }
                    }
                    i += shards;
                }
                let mut i = s;
                while i < small.len() {
                    for b in &small {
                        if check_stream(r, sub, &[&small[i], b], &mut evals) {
                            ok += 1;
                        }
                    }
                    i += shards;
                }
                // half floats and simple values
                let per = 65536 / shards;
                for h in (s * per)..((s + 1) * per) {
                    let h = h as u16;
                    if f16_is_snan(h) {
                        continue;
                    }
                    if check_stream(r, sub, &[&Item::f16(h)], &mut evals) {
                        ok += 1;
                    }
                }
                if s == 0 {
                    for x in (0u16..=255).map(|x| x as u8).filter(|x| *x < 24 || *x >= 32) {
                        if check_stream(r, sub, &[&Item::Simple(x)], &mut evals) {
                            ok += 1;
                        }
                    }
                    // integers and tag numbers over the 64-bit boundary lattice, at every admissible width
                    for n in lattice64() {
                        for w in W::admissible(n) {
                            for it in [Item::Uint(n, *w), Item::Nint(n, *w), Item::Tag(n, *w, Box::new(Item::uint(0)))] {
                                if check_stream(r, sub, &[&it], &mut evals) {
                                    ok += 1;
                                }
                            }
                        }
                    }
                    // strings at the length boundaries
                    for len in [23usize, 24, 255, 256, 65535, 65536] {
                        let b = Item::bytes(&vec![7u8; len]);
                        let t = Item::text(&"q".repeat(len));
                        for it in [b, t] {
                            if check_stream(r, sub, &[&it], &mut evals) {
                                ok += 1;
                            }
                        }
                    }
                }
                r.add(sub, evals, ok);
                r.outcome(sub, "streams", evals);
            },
            crate::hang_handler(r.property.clone()),
        );
        r.sample(sub, json!({"input_hex": "9f18188101ff", "tokens": "[BeginArray, U8(24), Array(1), U8(1), Break]"}));
    }
    // ---- (2) token sequences
    {
        let sub = "token-sequences";
        let alpha = token_alphabet();
        let depth = if thorough { 4 } else { 3 };
        r.space(sub, true, &format!("all token sequences of length <= {} over a {}-token alphabet (every variant with boundary payloads, Simple(20..=31) included)", depth, alpha.len()), 1);
        let na = alpha.len();
        mcx::par::run_shards(
            na * na,
            |s| {
                let (a, b) = (s / na, s % na);
                let mut evals = 0u64;
                let mut ok = 0u64;
                let mut seqs: Vec<Vec<Token>> = Vec::new();
                if b == 0 {
                    seqs.push(vec![alpha[a]]);
                }
                seqs.push(vec![alpha[a], alpha[b]]);
                for c in 0..na {
                    seqs.push(vec![alpha[a], alpha[b], alpha[c]]);
                    if depth >= 4 {
                        for d in 0..na {
                            seqs.push(vec![alpha[a], alpha[b], alpha[c], alpha[d]]);
                        }
                    }
                }
                for toks in seqs {
                    evals += 1;
                    let mut e = Encoder::new(Vec::new());
                    if e.tokens(&toks).is_err() {
                        r.fail(sub, None, json!({"tokens": format!("{:?}", toks)}), "encoding the tokens failed");
                        continue;
                    }
                    let bytes = e.into_writer();
                    mcx::slot::case("token-seq", &bytes);
                    let back: Vec<Token> = match mcx::par::guard(|| Decoder::new(&bytes).tokens().collect::<Result<Vec<Token>, _>>()) {
                        Ok(Ok(t)) => t,
                        other => {
                            r.fail(sub, None, json!({"tokens": format!("{:?}", toks), "encoded_hex": hex(&bytes)}), format!("tokenising the encoded tokens failed: {:?}", other.map(|x| x.map(|_| ()).map_err(|e| e.to_string()))));
                            continue;
                        }
                    };
                    let a: Vec<RefTok> = toks.iter().map(to_ref).collect();
                    let b: Vec<RefTok> = back.iter().map(to_ref).collect();
                    if a.len() != b.len() || !a.iter().zip(&b).all(|(x, y)| tok_eq(x, y)) {
                        r.fail(sub, None, json!({"tokens": format!("{:?}", toks), "encoded_hex": hex(&bytes)}), format!("tokenised back as {:?}", back));
                        continue;
                    }
                    ok += 1;
                }
                r.add(sub, evals, ok);
                r.outcome(sub, "sequences", evals);
            },
            crate::hang_handler(r.property.clone()),
        );
        r.sample(sub, json!({"tokens": "[I16(-129), Array(24), F16(1.0)]", "encoded_hex": "3880 9818 f93c00"}));
    }
    // ---- (3) arbitrary bytes: termination count
    {
        let sub = "arbitrary-bytes";
        let maxlen = 3;
        r.space(sub, true, &format!("all byte strings of length <= {} and the hostile heads: at most one item per input byte, at most one error and only as the last item, then None on two further calls", maxlen), 2);
        let hs = hostile_heads();
        let shards = 256usize;
        mcx::par::run_shards(
            shards,
            |s| {
                let mut evals = 0u64;
                let mut clean = 0u64;
                let mut errs = 0u64;
                let mut check = |b: &[u8]| {
                    evals += 1;
                    mcx::slot::case("tokens-arbitrary", b);
                    let mut d = Decoder::new(b);
                    let mut it = d.tokens();
                    let mut n = 0usize;
                    let mut nerr = 0usize;
                    let mut bad: Option<String> = None;
                    loop {
                        match it.next() {
                            None => break,
                            Some(Ok(_)) => {
                                if nerr > 0 {
                                    bad = Some("a token followed an error".into());
                                }
                                n += 1
                            }
                            Some(Err(_)) => {
                                nerr += 1;
                                n += 1
                            }
                        }
                        if n > b.len() {
                            bad = Some(format!("more than {} items from {} bytes", b.len(), b.len()));
                            break;
                        }
                    }
                    if bad.is_none() && (it.next().is_some() || it.next().is_some()) {
                        bad = Some("the iterator yielded again after None".into());
                    }
                    if nerr > 1 {
                        bad = Some(format!("{} errors yielded", nerr));
                    }
                    if nerr == 0 {
                        clean += 1
                    } else {
                        errs += 1
                    }
                    if let Some(m) = bad {
                        r.fail(sub, None, json!({"input_hex": hex(b)}), m);
                    }
                };
                for n in 0..=maxlen {
                    for_each_bytes(n, if n == 0 { if s == 0 { 0..1 } else { 0..0 } } else { s..s + 1 }, |b| check(b));
                }
                let mut i = s;
                while i < hs.len() {
                    check(&hs[i]);
                    i += shards;
                }
                r.add(sub, evals, clean);
                r.outcome(sub, "tokenised completely", clean);
                r.outcome(sub, "ended with an error", errs);
            },
            crate::hang_handler(r.property.clone()),
        );
        r.sample(sub, json!({"input_hex": "8218", "items": "Array(2), then end of input"}));
    }
    r.assume("tokens are compared by the data-model value of their head (integers numerically, floats by bits at the token's own width, NaN payload of halves not required to survive f16 -> f32 -> f16)");
}
