//! Checks over the generated derive schemas: C07 (derived part), C08, C09, C10, C13 (derived part).
//!
//! Every schema of `refmodel::schema::enumerate_schemas` was compiled into a real derived
//! type by the gen_derive shard crates; the same schema value is interpreted here by the
//! reference encoder / decoder, so generated code and oracle cannot drift.

use derive_rt::{DecRes, Entry, ErrClass};
use mcx::Report;
use refmodel::enumerate::deviations_up_to_ex;
use refmodel::schema::*;
use refmodel::*;
use serde_json::json;
use std::collections::BTreeMap;

pub struct Ctx {
    pub all: Vec<Schema>,
    pub pairs: Vec<Pair>,
    pub entries: Vec<Entry>,
}

pub fn ctx() -> Ctx {
    #[cfg(feature = "derive-family")]
    let (thorough, entries) = (gen_derive::THOROUGH, gen_derive::entries());
    #[cfg(not(feature = "derive-family"))]
    let (thorough, entries): (bool, Vec<derive_rt::Entry>) = (false, Vec::new());
    let (all, pairs) = enumerate_with_pairs(thorough);
    assert_eq!(all.len(), entries.len(), "generated entry table and interpreted schema list differ");
    for (s, e) in all.iter().zip(&entries) {
        assert_eq!(s.id, e.id);
    }
    Ctx { all, pairs, entries }
}

/// A compact Rust-like rendering of a schema for messages.
pub fn describe(s: &Schema, all: &[Schema]) -> String {
    fn fields(fs: &[FieldS], all: &[Schema]) -> String {
        fs.iter()
            .map(|f| {
                if f.skip {
                    return "#[cbor(skip)] u8".to_string();
                }
                let ty = match &f.ty {
                    FTy::Nested(j) => format!("T{}", j),
                    FTy::OptNested(j) => format!("Option<T{}>", j),
                    t => format!("{:?}", t),
                };
                let _ = all;
                format!("#[{}({})]{} {}", if f.borrow { "b" } else { "n" }, f.idx, f.tag.map(|t| format!(" #[tag({})]", t)).unwrap_or_default(), ty)
            })
            .collect::<Vec<_>>()
            .join(", ")
    }
    let enc = |e: &Option<Enc>| match e {
        None => "",
        Some(Enc::Array) => "#[cbor(array)] ",
        Some(Enc::Map) => "#[cbor(map)] ",
    };
    match &s.kind {
        Kind::Struct(st) => format!("T{} (attribute style {}): {}{}{}struct {:?} {{ {} }}", s.id, s.id % 3, enc(&st.enc), st.tag.map(|t| format!("#[tag({})] ", t)).unwrap_or_default(), if st.transparent { "#[transparent] " } else { "" }, st.shape, fields(&st.fields, all)),
        Kind::Enum(e) => format!(
            "T{} (attribute style {}): {}{}{}enum {{ {} }}",
            s.id,
            s.id % 3,
            enc(&e.enc),
            e.tag.map(|t| format!("#[tag({})] ", t)).unwrap_or_default(),
            if e.index_only { "#[index_only] " } else { "" },
            e.variants.iter().map(|v| format!("#[n({})] {}{}{:?}({})", v.idx, enc(&v.enc), v.tag.map(|t| format!("#[tag({})] ", t)).unwrap_or_default(), v.shape, fields(&v.fields, all))).collect::<Vec<_>>().join(" | ")
        ),
    }
}

fn gv(v: &GenVal) -> String {
    let s = format!("{:?}", v);
    s.chars().take(200).collect()
}

fn checked_schemas(c: &Ctx) -> Vec<&Schema> {
    c.all.iter().filter(|s| !s.helper).collect()
}

fn family_counts(r: &Report, sub: &str, c: &Ctx) {
    let mut m: BTreeMap<&str, u64> = BTreeMap::new();
    for s in checked_schemas(c) {
        *m.entry(s.family).or_default() += 1;
    }
    for (k, v) in m {
        r.outcome(sub, &format!("schemas in {}", k), v);
    }
}

// ---------------------------------------------------------------------------------------------

/// The value domain of a schema; for definitions with more than 40 fields in one container every 128th value is
/// kept (plus the first 4): the domain varies one field at a time, which is what the small definitions are for.
fn thin_values(s: &Schema, all: &[Schema]) -> Vec<GenVal> {
    let vals = values(s, all);
    let wide = match &s.kind {
        Kind::Struct(st) => st.fields.len() > 40,
        Kind::Enum(e) => e.variants.iter().any(|v| v.fields.len() > 40),
    };
    if !wide {
        return vals;
    }
    vals.into_iter().enumerate().filter(|(i, _)| *i < 4 || i % 128 == 0).map(|(_, v)| v).collect()
}

pub fn c07(r: &Report) {
    let c = ctx();
    let sub = "derived-types";
    r.space(sub, true, &format!("{} compiled type definitions of the schema grammar (index sets/gaps/order, array/map at type, enum and variant level, tags at every level, every field type incl. custom nil-aware codecs, transparent, skip, index_only, nesting, 23/24/25 fields) x all presence combinations of optional fields x boundary field values", checked_schemas(&c).len()), 2);
    family_counts(r, sub, &c);
    let ss = checked_schemas(&c);
    mcx::par::run_shards(
        ss.len(),
        |i| {
            let s = ss[i];
            let e = &c.entries[s.id];
            let vals = thin_values(s, &c.all);
            let mut ok = 0u64;
            for v in &vals {
                mcx::slot::case("derived-len", format!("T{}", s.id).as_bytes());
                let res = mcx::par::guard(|| ((e.to_vec)(v), (e.len)(v)));
                let (bytes, len) = match res {
                    Ok((Ok(b), l)) => (b, l),
                    Ok((Err(_), _)) => continue,
                    Err(p) => {
                        r.fail(sub, None, json!({"schema": describe(s, &c.all), "value": gv(v)}), format!("panicked: {}", p));
                        continue;
                    }
                };
                if len != bytes.len() {
                    r.fail(sub, None, json!({"schema": describe(s, &c.all), "value": gv(v), "encoded_hex": hex(&bytes)}), format!("len() = {} but the encoder writes {} bytes", len, bytes.len()));
                    continue;
                }
                // exact fit / one short
                let mut buf = vec![0u8; len];
                let fit = (e.encode_slice)(v, &mut buf);
                if fit != (Ok(()), len) || buf != bytes {
                    r.fail(sub, None, json!({"schema": describe(s, &c.all), "value": gv(v)}), format!("encoding into exactly len() = {} bytes gave {:?}", len, fit));
                    continue;
                }
                if len > 0 {
                    let mut short = vec![0u8; len - 1];
                    let res = (e.encode_slice)(v, &mut short);
                    if res.0 != Err(true) {
                        r.fail(sub, None, json!({"schema": describe(s, &c.all), "value": gv(v)}), format!("encoding into len()-1 bytes gave {:?} instead of a write error", res));
                        continue;
                    }
                }
                ok += 1;
            }
            r.add(sub, vals.len() as u64, ok);
            r.add_states(sub, vals.len() as u64, 3 * vals.len() as u64);
            if i % 199 == 0 {
                r.sample(sub, json!({"schema": describe(s, &c.all), "values": vals.len()}));
            }
        },
        crate::hang_handler(r.property.clone()),
    );
}

pub fn c08(r: &Report) {
    let c = ctx();
    let sub = "wire-format";
    r.space(sub, true, &format!("{} compiled type definitions x all presence combinations x boundary values: bytes must equal the preferred serialisation of the documented format computed by the schema interpreter (names, declaration order and n/b never enter the interpreter)", checked_schemas(&c).len()), 2);
    family_counts(r, sub, &c);
    r.assume("where the documentation is silent the reference follows the evidently intended behaviour: a tagged optional field that is None but lies below the highest present index of an array is written as tag(null)");
    let ss = checked_schemas(&c);
    mcx::par::run_shards(
        ss.len(),
        |i| {
            let s = ss[i];
            let e = &c.entries[s.id];
            let vals = thin_values(s, &c.all);
            let mut ok = 0u64;
            for v in &vals {
                mcx::slot::case("derived-encode", format!("T{}", s.id).as_bytes());
                let bytes = match mcx::par::guard(|| (e.to_vec)(v)) {
                    Ok(Ok(b)) => b,
                    other => {
                        r.fail(sub, None, json!({"schema": describe(s, &c.all), "value": gv(v)}), format!("encoding failed: {:?}", other.map(|x| x.map(|_| ()))));
                        continue;
                    }
                };
                let want_item = schema_encode(s, &c.all, v);
                let want = want_item.to_bytes();
                if bytes != want {
                    let got = match parse(&bytes) {
                        Ok((i, u)) if u == bytes.len() => i.diag(),
                        o => format!("{:?}", o.map(|x| x.0.diag())),
                    };
                    r.fail(sub, None, json!({"schema": describe(s, &c.all), "value": gv(v)}), format!("wrote {} = {}, the documented format is {} = {}", hex(&bytes), got, hex(&want), want_item.diag()));
                    continue;
                }
                ok += 1;
            }
            r.add(sub, vals.len() as u64, ok);
            if i % 173 == 0 {
                if let Some(v) = vals.last() {
                    r.sample(sub, json!({"schema": describe(s, &c.all), "value": gv(v), "encoded_hex": (e.to_vec)(v).map(|b| hex(&b)).unwrap_or_default()}));
                }
            }
        },
        crate::hang_handler(r.property.clone()),
    );
}

/// Does the actual decoding result agree with the reference verdict?
fn agree(expected: &SVerdict, actual: &DecRes, len: usize) -> Result<(), String> {
    match (expected, actual) {
        (SVerdict::May, _) => Ok(()),
        (SVerdict::Ok(g), DecRes::Ok(a, pos, borrowed)) => {
            if a != g {
                return Err(format!("decoded {:?}, the documented result is {:?}", a, g));
            }
            if *pos != len {
                return Err(format!("decoded the right value but consumed {} of {} bytes", pos, len));
            }
            if !borrowed {
                return Err("a borrowing field (&str, &[u8] or #[b] Cow) does not point into the input".into());
            }
            Ok(())
        }
        (SVerdict::Ok(g), DecRes::Err(c, pos)) => Err(format!("failed with {:?} at position {}, the documented result is {:?}", c, pos, g)),
        (SVerdict::Err(k), DecRes::Ok(a, _, _)) => Err(format!("returned {:?} although the input must be rejected ({:?})", a, k)),
        (SVerdict::Err(_), DecRes::Err(_, _)) => Ok(()),
    }
}

/// Single-point negative mutations of an encoding: each tag bumped / removed, each array
/// truncated by its last element, each map entry removed, each small unsigned bumped to an unused value.
fn negatives(i: &Item) -> Vec<Item> {
    let mut out = Vec::new();
    match i {
        Item::Tag(t, w, inner) => {
            out.push(Item::tag(if *t == u64::MAX { *t - 1 } else { *t + 1 }, (**inner).clone()));
            out.push((**inner).clone());
            for n in negatives(inner) {
                out.push(Item::Tag(*t, *w, Box::new(n)));
            }
        }
        Item::Array(v, _) => {
            if !v.is_empty() {
                out.push(Item::array(v[..v.len() - 1].to_vec()));
                out.push(Item::array(v[1..].to_vec()));
            }
            for k in 0..v.len() {
                for n in negatives(&v[k]) {
                    let mut v2 = v.clone();
                    v2[k] = n;
                    out.push(Item::array(v2));
                }
                if let Item::Uint(n, _) = &v[k] {
                    if k == 0 && v.len() == 2 {
                        // plausibly an enum index: replace by an unused one
                        let mut v2 = v.clone();
                        v2[0] = Item::uint(n + 77);
                        out.push(Item::array(v2));
                    }
                }
            }
        }
        Item::Map(v, _) => {
            for k in 0..v.len() {
                let mut v2 = v.clone();
                v2.remove(k);
                out.push(Item::map(v2));
                for n in negatives(&v[k].1) {
                    let mut v2 = v.clone();
                    v2[k].1 = n;
                    out.push(Item::map(v2));
                }
                // unknown key instead of the known one
                if let Item::Uint(n, _) = &v[k].0 {
                    let mut v2 = v.clone();
                    v2[k].0 = Item::uint(n + 1000);
                    out.push(Item::map(v2));
                }
            }
        }
        Item::Uint(n, _) => out.push(Item::uint(n + 77)),
        _ => {}
    }
    out
}

pub fn c09(r: &Report) {
    let c = ctx();
    let sub = "round-trip";
    r.space(
        sub,
        true,
        &format!("{} compiled type definitions x values; every encoding decoded as produced, with a trailing byte, and in every re-framing with <= 2 deviations (each array/map indefinite, each head at each wider width; 1 deviation above 12 bytes)", checked_schemas(&c).len()),
        2,
    );
    let neg = "negative-cases";
    r.space(neg, true, "single-point damage to every encoding: each tag bumped and removed, each array shortened at either end, each map entry removed or re-keyed, enum index replaced by an unused one; the reference decoder decides whether the result must be an error or a (different) value", 2);
    family_counts(r, sub, &c);
    let ss = checked_schemas(&c);
    mcx::par::run_shards(
        ss.len(),
        |i| {
            let s = ss[i];
            let e = &c.entries[s.id];
            let vals = thin_values(s, &c.all);
            let mut evals = 0u64;
            let mut ok = 0u64;
            let mut nevals = 0u64;
            let mut nerr = 0u64;
            for v in &vals {
                mcx::slot::case("derived-roundtrip", format!("T{}", s.id).as_bytes());
                let bytes = match mcx::par::guard(|| (e.to_vec)(v)) {
                    Ok(Ok(b)) => b,
                    _ => {
                        r.fail(sub, None, json!({"schema": describe(s, &c.all), "value": gv(v)}), "encoding failed");
                        continue;
                    }
                };
                let want = normalise(s, &c.all, v);
                let item = match parse(&bytes) {
                    Ok((it, u)) if u == bytes.len() => it,
                    _ => {
                        r.fail(sub, None, json!({"schema": describe(s, &c.all), "value": gv(v), "encoded_hex": hex(&bytes)}), "the derived encoder's output is not one well-formed item");
                        continue;
                    }
                };
                // round trip proper: the subject's own output must denote the value under the documented rules
                match schema_decode(s, &c.all, &item) {
                    SVerdict::Ok(g) if g == want => {}
                    other => {
                        r.fail(sub, None, json!({"schema": describe(s, &c.all), "value": gv(v), "encoded_hex": hex(&bytes), "encoded": item.diag()}), format!("the derived encoder's output does not denote the value: reading it by the documented rules gives {:?}", other));
                        continue;
                    }
                }
                let k = if bytes.len() <= 12 { 2 } else { 1 };
                for variant in deviations_up_to_ex(&item, k, true, true, false) {
                    let enc = variant.to_bytes();
                    let expected = schema_decode(s, &c.all, &variant);
                    if let SVerdict::Ok(g) = &expected {
                        if *g != want {
                            r.machinery_error(format!("reference decoder disagrees with the encoded value for {}: {:?} vs {:?}", describe(s, &c.all), g, want));
                            continue;
                        }
                    }
                    if let SVerdict::Err(k) = &expected {
                        r.machinery_error(format!("reference decoder rejects a re-framing of a valid encoding ({:?}) for {}: {}", k, describe(s, &c.all), variant.diag()));
                        continue;
                    }
                    for suffix in [&[][..], &[0x00][..]] {
                        let mut input = enc.clone();
                        input.extend_from_slice(suffix);
                        evals += 1;
                        let actual = match mcx::par::guard(|| (e.decode)(&input)) {
                            Ok(a) => a,
                            Err(p) => {
                                r.fail(sub, None, json!({"schema": describe(s, &c.all), "input_hex": hex(&input)}), format!("decoder panicked: {}", p));
                                continue;
                            }
                        };
                        match agree(&expected, &actual, enc.len()) {
                            Ok(()) => ok += 1,
                            Err(m) => r.fail(sub, None, json!({"schema": describe(s, &c.all), "value": gv(v), "input_hex": hex(&input), "input": variant.diag()}), m),
                        }
                    }
                }
                for bad in negatives(&item) {
                    let enc = bad.to_bytes();
                    let expected = schema_decode(s, &c.all, &bad);
                    nevals += 1;
                    if matches!(expected, SVerdict::Err(_)) {
                        nerr += 1;
                    }
                    let actual = match mcx::par::guard(|| (e.decode)(&enc)) {
                        Ok(a) => a,
                        Err(p) => {
                            r.fail(neg, None, json!({"schema": describe(s, &c.all), "input_hex": hex(&enc)}), format!("decoder panicked: {}", p));
                            continue;
                        }
                    };
                    if let Err(m) = agree(&expected, &actual, enc.len()) {
                        r.fail(neg, None, json!({"schema": describe(s, &c.all), "damaged_input_hex": hex(&enc), "damaged_input": bad.diag(), "original": item.diag()}), m);
                    }
                }
            }
            r.add(sub, evals, ok);
            r.add(neg, nevals, nerr);
            r.outcome(sub, "decoded equal", ok);
            r.outcome(sub, "not judged or failed", evals - ok);
            r.outcome(neg, "must be rejected", nerr);
            r.outcome(neg, "still decodable", nevals - nerr);
            if i % 211 == 0 {
                r.sample(sub, json!({"schema": describe(s, &c.all), "values": vals.len(), "decodes": evals}));
            }
        },
        crate::hang_handler(r.property.clone()),
    );
}

pub fn c10(r: &Report) {
    // which built-in types count as "absent-able": the derived codecs consult only Encode::is_nil / Decode::nil
    {
        let sub = "builtin-nilability";
        r.space(sub, true, "every instantiation of the type table: Decode::nil() is Some exactly for the Option types (so a missing field of any other type is an error), and Encode::is_nil(v) is true exactly for None (so no other value is ever left out)", 1);
        let table = crate::types::type_table();
        let mut n = 0u64;
        let mut ok = 0u64;
        for e in &table {
            let optional = matches!(e.shape, refmodel::shape::Shape::Option(_));
            n += 1;
            if (e.nil_some)() == optional {
                ok += 1;
            } else {
                r.fail(sub, None, json!({"type": e.name}), format!("Decode::nil() is {} for a type that is {}optional: a field of this type that is missing from the input would {}", if optional { "None" } else { "Some" }, if optional { "" } else { "not " }, if optional { "be an error instead of None" } else { "be accepted instead of reported as a missing value" }));
            }
            // the two directions agree: a type has a nil value to decode an absent field to exactly if one of its
            // values is left out by the encoder
            let vals = (e.values)();
            let some_value_is_nil = vals.iter().any(|v| v.is_nil());
            let has_none = optional && vals.iter().any(|v| v.model() == refmodel::NULL);
            n += 1;
            // (an optional type whose small domain happens to hold no None is not judged)
            if (optional && !has_none) || some_value_is_nil == (e.nil_some)() {
                ok += 1;
            } else {
                r.fail(sub, None, json!({"type": e.name}), format!("Encode::is_nil() is true for some value: {}, Decode::nil() is Some: {} - a derived encoder would leave the field out and the derived decoder would report it missing (or the other way round)", some_value_is_nil, (e.nil_some)()));
            }
            for v in vals {
                n += 1;
                let none = optional && v.model() == refmodel::NULL;
                if v.is_nil() == none {
                    ok += 1;
                } else {
                    r.fail(sub, None, json!({"type": e.name, "value": v.debug()}), format!("Encode::is_nil() is {} for this value: a derived encoder would {}", v.is_nil(), if none { "write an absent optional value" } else { "leave a present value out" }));
                }
            }
        }
        r.add(sub, n, ok);
        r.outcome(sub, "types and values", n);
        r.sample(sub, json!({"type": "Vec<u8>", "nil": "None", "is_nil([])": false}));
    }
    let c = ctx();
    let sub = "version-pairs";
    r.space(
        sub,
        true,
        &format!("{} (old, new) schema pairs produced by the documented-compatible edits (add/drop optional fields at gap and new-highest indices from a 10-type menu incl. tagged, nested, enum, custom-codec and indefinite-array types; add variants to enums behind optional fields, regular and index_only; unit variant -> tuple/struct variant with optional fields; two-edit combinations), both encodings, both directions x all values of the writer", c.pairs.len()),
        2,
    );
    let pairs = &c.pairs;
    mcx::par::run_shards(
        pairs.len() * 2,
        |k| {
            let p = &pairs[k / 2];
            let forward = k % 2 == 0; // forward: old writes, new reads
            let (w, rd) = if forward { (p.old, p.new) } else { (p.new, p.old) };
            let (ws, rs) = (&c.all[w], &c.all[rd]);
            let vals = values(ws, &c.all);
            let mut evals = 0u64;
            let mut ok = 0u64;
            let mut outcomes: BTreeMap<String, u64> = BTreeMap::new();
            for v in &vals {
                mcx::slot::case("compat", format!("T{}->T{}", w, rd).as_bytes());
                let bytes = match (c.entries[w].to_vec)(v) {
                    Ok(b) => b,
                    Err(_) => continue,
                };
                // the expectation is computed on the documented encoding of the writer's value, never on the
                // bytes the subject produced: a writer that deviates from the format must not redefine the oracle
                let item = schema_encode(ws, &c.all, v);
                let expected = schema_decode(rs, &c.all, &item);
                // documented-compatible pairs always decode; the incompatible direction (reader needs a
                // mandatory field the writer lacks) must fail
                let reader_needs_more = !p.compatible && forward;
                match (&expected, reader_needs_more) {
                    (SVerdict::Err(_), false) => {
                        r.machinery_error(format!("reference decoder rejects a documented-compatible pair: {} ({}), writer {}, reader {}, value {:?}", p.edit, if forward { "old->new" } else { "new->old" }, describe(ws, &c.all), describe(rs, &c.all), v));
                        continue;
                    }
                    (SVerdict::Ok(_), true) => {
                        r.machinery_error(format!("reference decoder accepts an incompatible pair: {}", p.edit));
                        continue;
                    }
                    _ => {}
                }
                *outcomes.entry(match &expected { SVerdict::Ok(_) => "decodes".to_string(), SVerdict::Err(k) => format!("rejected ({:?})", k), SVerdict::May => "not judged".to_string() }).or_default() += 1;
                evals += 1;
                let actual = match mcx::par::guard(|| (c.entries[rd].decode)(&bytes)) {
                    Ok(a) => a,
                    Err(pn) => {
                        r.fail(sub, None, json!({"edit": p.edit, "writer": describe(ws, &c.all), "reader": describe(rs, &c.all), "input_hex": hex(&bytes)}), format!("decoder panicked: {}", pn));
                        continue;
                    }
                };
                match agree(&expected, &actual, bytes.len()) {
                    Ok(()) => ok += 1,
                    Err(m) => r.fail(
                        sub,
                        None,
                        json!({"edit": p.edit, "direction": if forward { "old writes, new reads" } else { "new writes, old reads" }, "writer": describe(ws, &c.all), "reader": describe(rs, &c.all), "writer_value": gv(v), "input_hex": hex(&bytes), "input": item.diag()}),
                        m,
                    ),
                }
            }
            r.add(sub, evals, ok);
            r.add_states(sub, 1, evals);
            r.outcomes(sub, &outcomes);
            if k % 97 == 0 {
                r.sample(sub, json!({"edit": p.edit, "writer": describe(ws, &c.all), "reader": describe(rs, &c.all), "values": vals.len()}));
            }
        },
        crate::hang_handler(r.property.clone()),
    );
    // the documented leniencies must also hold when the unknown field has arbitrary content
    {
        let sub = "unknown-field-content";
        r.space(sub, true, "readers of the base schemas given an extra field (array position / map key unknown to them) holding each of a menu of items (scalars, nested definite/indefinite containers, tags, chunked strings)", 1);
        let menu: Vec<Item> = vec![
            Item::uint(7), NULL, Item::text("zz"), Item::bytes(&[1, 2]), Item::array(vec![Item::uint(1), Item::Array(vec![Item::uint(2)], Len::Indef)]),
            Item::Map(vec![(Item::uint(0), Item::Array(vec![], Len::Indef))], Len::Indef), Item::tag(5, Item::array(vec![NULL])), Item::Text(b"ab".to_vec(), StrForm::Indef(vec![(1, W::Imm), (1, W::Imm)])), Item::f64(1.5f64.to_bits()), Item::Simple(32),
            // "whatever their content": the extremes of every scalar kind
            Item::uint(u64::MAX), Item::nint(u64::MAX), Item::nint(1 << 63), Item::nint((1 << 63) - 1), Item::Nint(0, W::W8), Item::f16(0x7e00), Item::f32(0x7fc0_0001), Item::Simple(255), Item::Simple(0), UNDEFINED,
            Item::tag(u64::MAX, Item::uint(0)), Item::bytes(&[0xff; 24]), Item::Bytes(vec![], StrForm::Indef(vec![])), Item::array(vec![]), Item::map(vec![]),
        ];
        let mut n = 0u64;
        let mut ok = 0u64;
        for p in pairs.iter().filter(|p| p.compatible) {
            let rs = &c.all[p.old];
            let st = match &rs.kind {
                Kind::Struct(st) => st,
                _ => continue,
            };
            for v in values(rs, &c.all) {
                let base = schema_encode(rs, &c.all, &v);
                for extra in &menu {
                    // append an unknown trailing position / an unknown key 99
                    let with_extra = match (&base, st.enc.unwrap_or(Enc::Array)) {
                        (Item::Array(items, _), Enc::Array) => {
                            let mut it = items.clone();
                            // pad to beyond the highest index the reader knows
                            while it.len() < 5 {
                                it.push(NULL);
                            }
                            it.push(extra.clone());
                            Item::array(it)
                        }
                        (Item::Map(es, _), Enc::Map) => {
                            let mut es = es.clone();
                            es.insert(0, (Item::uint(99), extra.clone()));
                            Item::map(es)
                        }
                        _ => continue,
                    };
                    let bytes = with_extra.to_bytes();
                    let expected = schema_decode(rs, &c.all, &with_extra);
                    n += 1;
                    let actual = match mcx::par::guard(|| (c.entries[rs.id].decode)(&bytes)) {
                        Ok(a) => a,
                        Err(pn) => {
                            r.fail(sub, None, json!({"reader": describe(rs, &c.all), "input_hex": hex(&bytes)}), format!("decoder panicked: {}", pn));
                            continue;
                        }
                    };
                    match agree(&expected, &actual, bytes.len()) {
                        Ok(()) => ok += 1,
                        Err(m) => r.fail(sub, None, json!({"reader": describe(rs, &c.all), "input_hex": hex(&bytes), "input": with_extra.diag()}), m),
                    }
                }
            }
        }
        r.add(sub, n, ok);
        r.outcome(sub, "decoded", ok);
    }
}

pub fn c13(r: &Report) {
    let c = ctx();
    let sub = "derived-values-into-slices";
    r.space(sub, true, "every value of every compiled schema with an encoding <= 40 bytes x every capacity 0..=len+1 of a `&mut [u8]` between guard regions: success iff it fits, otherwise a write error with a prefix of the encoding left behind and an untouched tail", 2);
    let ss = checked_schemas(&c);
    mcx::par::run_shards(
        ss.len(),
        |i| {
            let s = ss[i];
            let e = &c.entries[s.id];
            let mut n = 0u64;
            let mut fits = 0u64;
            for v in values(s, &c.all) {
                let bytes = match (e.to_vec)(&v) {
                    Ok(b) if b.len() <= 40 => b,
                    _ => continue,
                };
                for cap in 0..=bytes.len() + 1 {
                    let mut mem = vec![0x5au8; cap + 32];
                    mem[16..16 + cap].fill(0xa5);
                    mcx::slot::case("derived-sink", &bytes);
                    let res = mcx::par::guard(|| (e.encode_slice)(&v, &mut mem[16..16 + cap]));
                    n += 1;
                    let case = || json!({"schema": describe(s, &c.all), "value": gv(&v), "capacity": cap, "encoding_hex": hex(&bytes)});
                    let (res, written) = match res {
                        Ok(x) => x,
                        Err(p) => {
                            r.fail(sub, None, case(), format!("panicked: {}", p));
                            continue;
                        }
                    };
                    if mem[..16].iter().chain(&mem[16 + cap..]).any(|b| *b != 0x5a) {
                        r.fail(sub, None, case(), "bytes outside the sink were modified");
                        continue;
                    }
                    let body = &mem[16..16 + cap];
                    let ok = if bytes.len() <= cap {
                        fits += 1;
                        res == Ok(()) && written == bytes.len() && body[..written] == bytes[..] && body[written..].iter().all(|b| *b == 0xa5)
                    } else {
                        res == Err(true) && written <= cap && body[..written] == bytes[..written] && body[written..].iter().all(|b| *b == 0xa5)
                    };
                    if !ok {
                        r.fail(sub, None, case(), format!("returned {:?} with {} bytes accepted; sink holds {}", res, written, hex(body)));
                    }
                }
            }
            r.add(sub, n, fits);
            r.outcome(sub, "fits", fits);
            r.outcome(sub, "write error", n - fits);
        },
        crate::hang_handler(r.property.clone()),
    );
    r.sample(sub, json!({"schema": "struct { #[n(0)] u8, #[n(2)] Option<u8> }", "value": "(1, Some(24))", "encoding_hex": "8301f61818", "capacity": 3, "expected": "write error, 3 bytes accepted: 8301f6"}));
}
