//! Checks over the generated derive schemas (C07-C10). Filled in once the generator exists.

use mcx::Report;

pub fn c07(_r: &Report) {}

pub fn c13(_r: &Report) {}
