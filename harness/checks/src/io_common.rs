//! Shared pieces of the framed-I/O checks (C14, C15, C16): frame alphabet,
//! list-of-values reference model and result classification.

use minicbor_io::Error;
use std::io;

/// What one top-level `read` call returned, reduced to what the properties talk about.
#[derive(Debug, Clone, PartialEq, Eq, Hash)]
pub enum Res {
    Val(Vec<u8>),
    DecodeErr,
    CleanEnd,
    UnexpectedEof,
    InvalidLen,
    Transient,
    WriteZero,
    EncodeErr,
    OtherIo(String),
}

pub const TRANSIENT_MSG: &str = "verif-transient";

/// The transient error the sources / sinks inject: a layered error (an outer kind wrapping an `io::Error` of another
/// kind), as timeout or TLS adapters produce. The error a call reports must be this error, not its cause.
pub fn transient_error() -> io::Error {
    io::Error::new(io::ErrorKind::TimedOut, io::Error::new(io::ErrorKind::NotConnected, TRANSIENT_MSG))
}

pub fn classify_read(r: Result<Option<Vec<u8>>, Error>) -> Res {
    match r {
        Ok(Some(v)) => Res::Val(v),
        Ok(None) => Res::CleanEnd,
        Err(e) => classify_err(e),
    }
}

pub fn classify_err(e: Error) -> Res {
    match e {
        Error::Decode(_) => Res::DecodeErr,
        Error::Encode(_) => Res::EncodeErr,
        Error::InvalidLen => Res::InvalidLen,
        Error::Io(e) => {
            if e.kind() == io::ErrorKind::UnexpectedEof {
                Res::UnexpectedEof
            } else if e.kind() == io::ErrorKind::WriteZero {
                Res::WriteZero
            } else if e.kind() == io::ErrorKind::TimedOut && e.to_string().contains(TRANSIENT_MSG) {
                Res::Transient
            } else {
                Res::OtherIo(format!("{:?}", e.kind()))
            }
        }
        other => Res::OtherIo(format!("{}", other)),
    }
}

/// One frame on the wire: a declared length and the payload bytes that follow.
#[derive(Debug, Clone, PartialEq, Eq)]
pub struct Frame {
    pub declared: u32,
    pub payload: Vec<u8>,
    /// what decoding the payload as `Vec<u8>` must give (None = a decode error)
    pub value: Option<Vec<u8>>,
    pub name: &'static str,
}

impl Frame {
    pub fn wire(&self) -> Vec<u8> {
        let mut v = self.declared.to_be_bytes().to_vec();
        v.extend_from_slice(&self.payload);
        v
    }
}

/// The payload alphabet. All payloads are read as `Vec<u8>` (a CBOR array of u8).
pub fn frame_kinds() -> Vec<Frame> {
    let f = |name, payload: &[u8], value: Option<&[u8]>| Frame {
        declared: payload.len() as u32,
        payload: payload.to_vec(),
        value: value.map(|v| v.to_vec()),
        name,
    };
    vec![
        f("[5]", &[0x81, 0x05], Some(&[5])),
        f("[]", &[0x80], Some(&[])),
        f("[1,2]", &[0x82, 0x01, 0x02], Some(&[1, 2])),
        f("undecodable(ff)", &[0xff], None),
        f("mismatch(00)", &[0x00], None),
        f("empty-payload", &[], None),
    ]
}

/// A frame whose declared length exceeds what follows (always placed last in a stream).
pub fn hostile_frames() -> Vec<Frame> {
    vec![
        Frame { declared: 0xffff_ffff, payload: vec![0x80], value: None, name: "declared-4GiB" },
        Frame { declared: 0x7fff_ffff, payload: vec![], value: None, name: "declared-2GiB" },
        Frame { declared: 512 * 1024 + 1, payload: vec![0x80, 0x80], value: None, name: "declared-default-max+1" },
    ]
}

/// A declared length of 2^31 with nothing behind it: with the limit raised to u32::MAX it is within the limit, so the
/// stream ends inside the frame (thorough tier only: the reader has to provide a 2 GiB buffer before it can notice).
pub fn frame_2_pow_31() -> Frame {
    Frame { declared: 0x8000_0000, payload: vec![], value: None, name: "declared-2^31" }
}

#[derive(Debug, Clone, PartialEq, Eq)]
pub struct Expected {
    /// results of the frames that are complete and within the limit, in order
    pub values: Vec<Res>,
    /// what the first call after them returns
    pub terminal: Res,
    /// largest buffer the reader may legitimately hold while producing these results
    pub max_frame: usize,
}

/// The list-of-values reference model of a framed stream: `avail` bytes of the
/// concatenated frames are delivered, then the stream ends.
pub fn model(frames: &[Frame], avail: usize, max_len: usize) -> Expected {
    model_limits(frames, avail, &|_| max_len)
}

/// The same with a limit that may change between frames (`limit(i)` is in force when frame `i` is read).
pub fn model_limits(frames: &[Frame], avail: usize, limit: &dyn Fn(usize) -> usize) -> Expected {
    let mut values = Vec::new();
    let mut o = 0usize;
    let mut max_frame = 0usize;
    for (fi, f) in frames.iter().enumerate() {
        let max_len = limit(fi);
        let rem = avail.saturating_sub(o);
        if rem == 0 {
            return Expected { values, terminal: Res::CleanEnd, max_frame };
        }
        if rem < 4 {
            return Expected { values, terminal: Res::UnexpectedEof, max_frame };
        }
        if f.declared as usize > max_len {
            return Expected { values, terminal: Res::InvalidLen, max_frame };
        }
        max_frame = max_frame.max(f.declared as usize);
        if rem < 4 + f.declared as usize {
            return Expected { values, terminal: Res::UnexpectedEof, max_frame };
        }
        assert_eq!(f.declared as usize, f.payload.len(), "only the last frame may be hostile");
        values.push(match &f.value {
            Some(v) => Res::Val(v.clone()),
            None => Res::DecodeErr,
        });
        o += 4 + f.declared as usize;
    }
    Expected { values, terminal: Res::CleanEnd, max_frame }
}

/// All frame sequences of `min..=max` frames from `kinds` whose wire length is at most `max_bytes`.
pub fn frame_sequences(kinds: &[Frame], min: usize, max: usize, max_bytes: usize) -> Vec<Vec<Frame>> {
    let mut out = Vec::new();
    let mut cur: Vec<Vec<Frame>> = vec![vec![]];
    if min == 0 {
        out.push(vec![]);
    }
    for n in 1..=max {
        let mut next = Vec::new();
        for s in &cur {
            for k in kinds {
                let mut t = s.clone();
                t.push(k.clone());
                let len: usize = t.iter().map(|f| 4 + f.payload.len()).sum();
                if len <= max_bytes {
                    next.push(t);
                }
            }
        }
        if n >= min {
            out.extend(next.iter().cloned());
        }
        cur = next;
    }
    out
}

pub fn wire(frames: &[Frame]) -> Vec<u8> {
    frames.iter().flat_map(|f| f.wire()).collect()
}

pub fn describe(frames: &[Frame]) -> Vec<&'static str> {
    frames.iter().map(|f| f.name).collect()
}

/// Transfer-size menu for a read / write of at most `maxk` bytes. Index 0 is the default (everything).
/// Ordinary scenarios (`coarse == false`, streams of at most 32 bytes): every size `maxk, maxk-1, .., 1`,
/// all free - short reads and writes are ordinary behaviour and are enumerated exhaustively.
/// Large-frame scenarios (`coarse == true`): transfers of up to 4 bytes (the length prefix) still offer
/// every size for free; longer ones offer `maxk, 1, maxk/2, maxk-1`, each short one costing one deviation.
pub fn size_menu(maxk: usize, coarse: bool) -> Menu {
    let mut m = Menu { n: 0, sizes: [0; 36], costs: [0; 40], total: 0 };
    if maxk == 0 {
        m.n = 1;
    } else if !coarse || maxk <= 4 {
        assert!(maxk <= 36, "exhaustive transfer sizes are only offered for transfers of at most 36 bytes");
        for (i, k) in (1..=maxk).rev().enumerate() {
            m.sizes[i] = k;
        }
        m.n = maxk;
    } else {
        m.sizes[0] = maxk;
        m.n = 1;
        for k in [1, maxk / 2, maxk - 1] {
            if !m.sizes[..m.n].contains(&k) {
                m.sizes[m.n] = k;
                m.costs[m.n] = 1;
                m.n += 1;
            }
        }
    }
    m.total = m.n;
    m
}

/// The options of one transfer: `sizes[..n]` with their costs, followed by the extra outcomes pushed with `push`.
pub struct Menu {
    pub n: usize,
    pub sizes: [usize; 36],
    pub costs: [u8; 40],
    pub total: usize,
}

impl Menu {
    /// add one more option (Pending, an error, ..) of the given cost; returns its index
    pub fn push(&mut self, cost: u8) -> usize {
        self.costs[self.total] = cost;
        self.total += 1;
        self.total - 1
    }
    pub fn costs(&self) -> &[u8] {
        &self.costs[..self.total]
    }
}

/// A recycled buffer handed to `with_buffer`. Kind 1: stale content (7 bytes) and spare capacity; kind 2: empty with
/// spare capacity (`Vec::with_capacity`); kind 3: two stale bytes (shorter than a length prefix); kind 4: empty with
/// 640 KiB of capacity.
pub fn dirty_buffer(kind: u8) -> Vec<u8> {
    if kind == 4 {
        // empty, with more capacity than the default maximum frame length: the capacity of a recycled buffer must not
        // raise the limit
        return Vec::with_capacity(640 * 1024);
    }
    let mut v = Vec::with_capacity(64);
    match kind {
        1 => v.extend_from_slice(&[0xde, 0xad, 0xbe, 0xef, 0x81, 0x05, 0x00]),
        2 => {}
        _ => v.extend_from_slice(&[0x81, 0x05]),
    }
    v
}

/// The constructors a scenario can use: 0 = `new`, 1..=3 = `with_buffer(dirty_buffer(kind))`. Scenarios built with
/// `with_buffer` also call `set_max_len(smaller)` + `set_max_len(original)` at every quiescent point where a frame may
/// be in flight (a setter must not disturb a frame whose length was already accepted).
pub const CTORS_ALL: [u8; 5] = [0, 1, 2, 3, 4];

/// Reference encoding of a `Vec<u8>` value: a definite array of unsigned integers, shortest heads.
pub fn array_payload(v: &[u8]) -> Vec<u8> {
    let mut p = refmodel::preferred_head(4, v.len() as u64);
    p.reserve(v.len());
    for x in v {
        if *x < 24 {
            p.push(*x);
        } else {
            p.extend_from_slice(&[0x18, *x]);
        }
    }
    p
}

/// Frames whose payload length crosses a byte boundary of the 4-byte length prefix.
pub fn large_frames() -> Vec<Frame> {
    let mut out = Vec::new();
    for (name, plen) in [("payload-255", 255usize), ("payload-256", 256), ("payload-257", 257), ("payload-65535", 65535), ("payload-65536", 65536), ("payload-65537", 65537), ("payload-524288", 512 * 1024), ("payload-524289", 512 * 1024 + 1)] {
        // elements < 24 take one byte each; the array head takes 2 (len < 256) or 3 bytes
        let n = if plen - 2 < 256 { plen - 2 } else if plen - 3 < 65536 { plen - 3 } else { plen - 5 };
        let v: Vec<u8> = (0..n).map(|i| (i % 23) as u8).collect();
        let payload = array_payload(&v);
        assert_eq!(payload.len(), plen);
        out.push(Frame { declared: plen as u32, payload, value: Some(v), name });
    }
    out
}
