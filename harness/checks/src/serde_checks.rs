//! C17 / C18: the serde bridge. The type family lives in the `serde_family` crate.

use mcx::Report;
use serde_json::json;
use std::collections::BTreeMap;

struct Adapter<'a> {
    r: &'a Report,
    pairs: BTreeMap<String, (u64, u64)>,
    failing: BTreeMap<String, u64>,
}

impl serde_family::Sink for Adapter<'_> {
    fn fail(&mut self, sub: &str, known_key: Option<String>, wrapper: &str, leaf: &str, value: String, input_hex: String, detail: String) {
        *self.failing.entry(format!("{}<{}>", wrapper, leaf)).or_default() += 1;
        self.r.fail(sub, known_key.as_deref(), json!({"wrapper": wrapper, "leaf": leaf, "value": value, "input_hex": input_hex}), detail);
    }
    fn count(&mut self, sub: &str, wrapper: &str, leaf: &str, evals: u64, ok: u64) {
        self.r.add(sub, evals, ok);
        self.r.outcome(sub, &format!("wrapper {}", wrapper), evals);
        let e = self.pairs.entry(format!("{}<{}>", wrapper, leaf)).or_default();
        e.0 += evals;
        e.1 += ok;
    }
}

pub fn c17(r: &Report) {
    let sub = "wrapper-x-leaf";
    r.space(
        sub,
        true,
        "13 wrapper shapes (identity, newtype/tuple/named structs, Option, Vec, externally/internally/adjacently tagged and untagged enums, flatten, default+skip) x 26 leaf types (all primitives to 64 bits, char, String, byte buffer, unit, unit struct, Option, Vec, tuple, array, string- and integer-keyed maps, unknown-length seq/map, nested enum/struct) x small exhaustive value domains; input additionally with a trailing byte, every single wider head, indefinite top-level containers and unknown extra struct fields",
        5,
    );
    let mut a = Adapter { r, pairs: BTreeMap::new(), failing: BTreeMap::new() };
    mcx::slot::case("serde-family", &[]);
    match mcx::par::guard(|| serde_family::run_c17(&mut a)) {
        Ok(()) => {}
        Err(p) => r.fail(sub, None, json!({}), format!("panicked: {}", p)),
    }
    r.note("type_instantiations", json!(a.pairs.len()));
    if !a.failing.is_empty() {
        println!("  failing instantiations: {:?}", a.failing);
    }
    r.sample(sub, json!({"type": "enum-adjacent<(u8,u16)>", "value": "Tup((255, 65535), 1)", "bytes": "a2 61 74 63 54 75 70 61 63 82 82 18ff 19ffff 01"}));
    r.assume("Option directly inside Option is excluded (documented lossy shape)");
}

pub fn c18(r: &Report) {
    let sub = "shared-types";
    r.space(sub, true, "57 types of the data model shared by both codecs (integers, bool, char, floats, strings, unit, options, sequences, fixed arrays of sizes 0,1,2,3,4,16,24,32 (also nested), tuples of every arity 1-12, ordered maps, tuples / arrays nested in sequences and maps, two levels of composition) x small-domain values x all re-framings with <= 2 wider heads, every combination of <= 3 indefinite containers / chunked strings, and everything indefinite", 1);
    let mut a = Adapter { r, pairs: BTreeMap::new(), failing: BTreeMap::new() };
    mcx::slot::case("serde-shared", &[]);
    match mcx::par::guard(|| serde_family::run_c18(&mut a)) {
        Ok(()) => {}
        Err(p) => r.fail(sub, None, json!({}), format!("panicked: {}", p)),
    }
    r.note("types", json!(a.pairs.len()));
    r.sample(sub, json!({"type": "(u8,String)", "value": "(24, \"s\")", "bytes": "82 1818 6173"}));
}
