//! C03: encoder output is well-formed, deterministic, shortest-form CBOR.
//!
//! (1) every Encoder method over its argument space, (2) every built-in Encode impl over the
//! small domains, (3) explicit-state search over all balanced Encoder call sequences up to a
//! depth bound. Oracle: the independent RFC 8949 parser and preferred-form reference encoder.

use crate::types::*;
use mcx::{Report, Tier};
use minicbor::data::{Int, Tag};
use minicbor::Encoder;
use refmodel::float::*;
use refmodel::shape::canon;
use refmodel::*;
use serde_json::json;
use std::collections::HashSet;

fn enc(f: impl FnOnce(&mut Encoder<Vec<u8>>)) -> Vec<u8> {
    let mut e = Encoder::new(Vec::new());
    f(&mut e);
    e.into_writer()
}

/// Compare one encoder call against the reference item.
fn check_call(r: &Report, sub: &str, what: &str, arg: String, out: &[u8], out2: &[u8], want: &Item, known: Option<&str>) -> bool {
    let expect = want.to_bytes();
    if out != out2 {
        r.fail(sub, None, json!({"call": what, "arg": arg}), format!("two identical calls produced {} and {}", hex(out), hex(out2)));
        return false;
    }
    if out != &expect[..] {
        let detail = match parse(out) {
            Ok((i, used)) if used == out.len() => format!("wrote {} = {}, the preferred serialisation of the value is {}", hex(out), i.diag(), hex(&expect)),
            Ok((i, used)) => format!("wrote {} of which only {} bytes form the item {}; expected {}", hex(out), used, i.diag(), hex(&expect)),
            Err(e) => format!("wrote {} which is not well-formed CBOR ({:?}); expected {}", hex(out), e, hex(&expect)),
        };
        r.fail(sub, known, json!({"call": what, "arg": arg}), detail);
        return false;
    }
    true
}

fn methods(r: &Report) {
    let sub = "encoder-methods";
    let thorough = r.tier == Tier::Thorough;
    r.space(
        sub,
        true,
        if thorough { "u8 i8 u16 i16 simple bool: all arguments; u32 i32 f32 char: all 2^32; u64 i64 int array map tag: 64-bit boundary lattice; bytes/str lengths 0,1,23,24,255,256,65535,65536" } else { "u8 i8 u16 i16 simple bool: all arguments; u32 i32 char f32: all < 2^17 plus the lattice; u64 i64 int array map tag: 64-bit boundary lattice; bytes/str lengths 0,1,23,24,255,256,65535,65536" },
        1,
    );
    let lat = enumerate::lattice64();
    let lati = enumerate::lattice_int();
    let shards = 64usize;
    mcx::par::run_shards(
        shards,
        |s| {
            let mut n = 0u64;
            mcx::slot::case("encoder-methods", &[s as u8]);
            macro_rules! call {
                ($what:expr, $arg:expr, $want:expr, |$e:ident| $body:expr) => {{
                    let a = enc(|$e| {
                        $body.unwrap();
                    });
                    let b = enc(|$e| {
                        $body.unwrap();
                    });
                    n += 1;
                    check_call(r, sub, $what, format!("{:?}", $arg), &a, &b, &$want, None)
                }};
            }
            if s == 0 {
                for x in 0..=u8::MAX {
                    call!("u8", x, Item::uint(x as u64), |e| e.u8(x));
                    // simple values: 0..=19 and 32..=255 have a well-formed encoding
                    if x < 20 || x >= 32 {
                        call!("simple", x, Item::Simple(x), |e| e.simple(x));
                    } else {
                        // 20..=23 have the one-byte forms f4..f7; 24..=31 have no well-formed encoding at all
                        let a = enc(|e| {
                            e.simple(x).unwrap();
                        });
                        n += 1;
                        let wellformed = matches!(parse(&a), Ok((_, u)) if u == a.len());
                        let shortest = x >= 24 || a.len() == 1;
                        if !wellformed || !shortest {
                            let key = format!("encoder-simple-{}", x);
                            let known = if a == [0xf8, x] { Some(key.as_str()) } else { None };
                            r.fail(sub, known, json!({"call": "simple", "arg": x}), format!("wrote {}: {}", hex(&a), if !wellformed { "not well-formed (RFC 8949 3.3: two-byte simple values below 32 are invalid)" } else { "not the shortest form" }));
                        }
                    }
                }
                for x in i8::MIN..=i8::MAX {
                    call!("i8", x, Item::int(x as i128), |e| e.i8(x));
                }
                for x in 0..=u16::MAX {
                    call!("u16", x, Item::uint(x as u64), |e| e.u16(x));
                }
                for x in i16::MIN..=i16::MAX {
                    call!("i16", x, Item::int(x as i128), |e| e.i16(x));
                }
                for x in [false, true] {
                    call!("bool", x, Item::bool(x), |e| e.bool(x));
                }
                call!("null", (), NULL, |e| e.null());
                call!("undefined", (), UNDEFINED, |e| e.undefined());
                for x in &lat {
                    let x = *x;
                    call!("u64", x, Item::uint(x), |e| e.u64(x));
                    call!("tag+u8", x, Item::tag(x, Item::uint(0)), |e| e.tag(Tag::new(x)).and_then(|e| e.u8(0)));
                    // containers and tags are checked at the head level: head bytes must be the preferred head
                    let a = enc(|e| {
                        e.array(x).unwrap();
                    });
                    if a != preferred_head(4, x) {
                        r.fail(sub, None, json!({"call": "array", "arg": x}), format!("wrote head {}, the shortest head is {}", hex(&a), hex(&preferred_head(4, x))));
                    }
                    let a = enc(|e| {
                        e.map(x).unwrap();
                    });
                    if a != preferred_head(5, x) {
                        r.fail(sub, None, json!({"call": "map", "arg": x}), format!("wrote head {}, the shortest head is {}", hex(&a), hex(&preferred_head(5, x))));
                    }
                    let a = enc(|e| {
                        e.tag(Tag::new(x)).unwrap();
                    });
                    if a != preferred_head(6, x) {
                        r.fail(sub, None, json!({"call": "tag", "arg": x}), format!("wrote head {}, the shortest head is {}", hex(&a), hex(&preferred_head(6, x))));
                    }
                    n += 3;
                    if x <= u32::MAX as u64 {
                        let y = x as u32;
                        call!("u32", y, Item::uint(x), |e| e.u32(y));
                    }
                    let f = f64::from_bits(x);
                    call!("f64", x, Item::f64(x), |e| e.f64(f));
                }
                for v in &lati {
                    let v = *v;
                    let i = Int::try_from(v).unwrap();
                    call!("int", v, Item::int(v), |e| e.int(i));
                    if v >= i64::MIN as i128 && v <= i64::MAX as i128 {
                        let y = v as i64;
                        call!("i64", y, Item::int(v), |e| e.i64(y));
                    }
                    if v >= i32::MIN as i128 && v <= i32::MAX as i128 {
                        let y = v as i32;
                        call!("i32", y, Item::int(v), |e| e.i32(y));
                    }
                }
                for len in [0usize, 1, 23, 24, 255, 256, 65535, 65536] {
                    let b: Vec<u8> = (0..len).map(|i| (i * 7) as u8).collect();
                    call!("bytes", len, Item::bytes(&b), |e| e.bytes(&b));
                    let t: String = (0..len).map(|i| (b'a' + (i % 26) as u8) as char).collect();
                    call!("str", len, Item::text(&t), |e| e.str(&t));
                }
                // chars: every scalar value
                for c in (0..=0x10ffffu32).filter_map(char::from_u32) {
                    call!("char", c as u32, Item::uint(c as u64), |e| e.char(c));
                }
                // indefinite begin/end single bytes
                let b = enc(|e| {
                    e.begin_array().unwrap().end().unwrap();
                });
                if b != [0x9f, 0xff] {
                    r.fail(sub, None, json!({"call": "begin_array+end"}), format!("wrote {}", hex(&b)));
                }
                n += 1;
            }
            // sharded 32-bit sweeps
            let (lo, hi) = if thorough {
                let c = (1u64 << 32) / shards as u64;
                (s as u64 * c, (s as u64 + 1) * c)
            } else {
                let c = (1u64 << 17) / shards as u64;
                (s as u64 * c, (s as u64 + 1) * c)
            };
            let mut buf = [0u8; 16];
            let mut buf2 = [0u8; 16];
            let mut fast = |n: &mut u64, want_major: u8, arg: u64, f: &dyn Fn(&mut Encoder<&mut &mut [u8]>)| {
                let used = {
                    let mut sl: &mut [u8] = &mut buf[..];
                    let mut e = Encoder::new(&mut sl);
                    f(&mut e);
                    drop(e);
                    16 - sl.len()
                };
                *n += 1;
                let mut exp = [0u8; 9];
                let el = ref_head(want_major, arg, &mut exp);
                if buf[..used] != exp[..el] {
                    r.fail(sub, None, json!({"call": "32-bit sweep", "major": want_major, "arg": arg}), format!("wrote {}, the preferred form is {}", hex(&buf[..used]), hex(&exp[..el])));
                }
            };
            for x in lo..hi {
                if x % 65536 == 0 {
                    mcx::slot::beat();
                }
                let u = x as u32;
                fast(&mut n, 0, x, &|e| {
                    e.u32(u).unwrap();
                });
                let i = u as i32;
                if i >= 0 {
                    fast(&mut n, 0, i as u64, &|e| {
                        e.i32(i).unwrap();
                    });
                } else {
                    fast(&mut n, 1, (-1 - i as i64) as u64, &|e| {
                        e.i32(i).unwrap();
                    });
                }
                // f32: written at single width with identical bits
                let used = {
                    let mut sl: &mut [u8] = &mut buf2[..];
                    Encoder::new(&mut sl).f32(f32::from_bits(u)).unwrap();
                    16 - sl.len()
                };
                n += 1;
                if used != 5 || buf2[0] != 0xfa || buf2[1..5] != u.to_be_bytes() {
                    r.fail(sub, None, json!({"call": "f32", "bits": format!("{:08x}", u)}), format!("wrote {}", hex(&buf2[..used])));
                }
                if !thorough {
                    // small negative mirror for i32 in the quick tier
                    let neg = -1 - (x as i64);
                    fast(&mut n, 1, x, &|e| {
                        e.i32(neg as i32).unwrap();
                    });
                }
            }
            // f16 on request: compare with the reference rounding over this shard's slice of the half neighbourhoods
            if s < 64 {
                let per = 65536 / 64;
                for h in (s * per)..((s + 1) * per) {
                    let h = h as u16;
                    if f16_is_nan(h) {
                        continue;
                    }
                    let base = f16_to_f32(h);
                    // the half value itself, its neighbours in binary32, and the midpoint to the next half +- 1 ulp
                    let next = f16_to_f32(h.wrapping_add(1));
                    let mut cands = vec![base, base.wrapping_add(1), base.wrapping_sub(1)];
                    if !f16_is_nan(h.wrapping_add(1)) && (h & 0x7fff) != 0x7bff && (h & 0x7fff) != 0x7c00 && (h & 0x8000) == (h.wrapping_add(1) & 0x8000) {
                        let mid = (f32::from_bits(base) / 2.0 + f32::from_bits(next) / 2.0).to_bits();
                        cands.extend([mid, mid.wrapping_add(1), mid.wrapping_sub(1)]);
                    }
                    for c in cands {
                        if f32_is_nan(c) {
                            continue;
                        }
                        let out = enc(|e| {
                            e.f16(f32::from_bits(c)).unwrap();
                        });
                        n += 1;
                        let want = f32_to_f16(c);
                        if out != [0xf9, (want >> 8) as u8, want as u8] {
                            r.fail(sub, None, json!({"call": "f16", "f32_bits": format!("{:08x}", c)}), format!("wrote {}, round-to-nearest-even gives f9{:04x}", hex(&out), want));
                        }
                    }
                }
            }
            r.add(sub, n, n);
            r.outcome(sub, "checked", n);
        },
        crate::hang_handler(r.property.clone()),
    );
    r.sample(sub, json!({"call": "u16", "arg": 255, "output_hex": "18ff"}));
}

/// preferred head into a fixed buffer (no allocation in the hot loop)
fn ref_head(major: u8, n: u64, out: &mut [u8; 9]) -> usize {
    let m = major << 5;
    if n < 24 {
        out[0] = m | n as u8;
        1
    } else if n <= 0xff {
        out[0] = m | 24;
        out[1] = n as u8;
        2
    } else if n <= 0xffff {
        out[0] = m | 25;
        out[1..3].copy_from_slice(&(n as u16).to_be_bytes());
        3
    } else if n <= 0xffff_ffff {
        out[0] = m | 26;
        out[1..5].copy_from_slice(&(n as u32).to_be_bytes());
        5
    } else {
        out[0] = m | 27;
        out[1..9].copy_from_slice(&n.to_be_bytes());
        9
    }
}

/// Every IanaTag variant with its registered number (IANA CBOR tags registry / RFC 8746).
pub fn iana_tags() -> Vec<(minicbor::data::IanaTag, u64)> {
        use minicbor::data::IanaTag::*;
        vec![
            (DateTime, 0u64), (Timestamp, 1), (PosBignum, 2), (NegBignum, 3), (Decimal, 4), (Bigfloat, 5), (ToBase64Url, 21), (ToBase64, 22), (ToBase16, 23), (Cbor, 24), (Uri, 32),
            (Base64Url, 33), (Base64, 34), (Regex, 35), (Mime, 36), (MultiDimArrayR, 40), (HomogenousArray, 41), (TypedArrayU8, 64), (TypedArrayU16B, 65), (TypedArrayU32B, 66),
            (TypedArrayU64B, 67), (TypedArrayU8Clamped, 68), (TypedArrayU16L, 69), (TypedArrayU32L, 70), (TypedArrayU64L, 71), (TypedArrayI8, 72), (TypedArrayI16B, 73),
            (TypedArrayI32B, 74), (TypedArrayI64B, 75), (TypedArrayI16L, 77), (TypedArrayI32L, 78), (TypedArrayI64L, 79), (TypedArrayF16B, 80), (TypedArrayF32B, 81),
            (TypedArrayF64B, 82), (TypedArrayF128B, 83), (TypedArrayF16L, 84), (TypedArrayF32L, 85), (TypedArrayF64L, 86), (TypedArrayF128L, 87), (MultiDimArrayC, 1040),
        ]
}

/// An iterator adaptor whose size hint has no upper bound: `(0, None)` or, with `lower`, `(remaining, None)`.
#[derive(Clone)]
struct Hint<I> {
    it: I,
    lower: bool,
}

impl<I: Iterator> Iterator for Hint<I> {
    type Item = I::Item;
    fn next(&mut self) -> Option<I::Item> {
        self.it.next()
    }
    fn size_hint(&self) -> (usize, Option<usize>) {
        (if self.lower { self.it.size_hint().0 } else { 0 }, None)
    }
}

fn builtin_types(r: &Report) {
    let sub = "builtin-encode-impls";
    r.space(sub, true, "every small-domain value of every built-in Encode instantiation of the type table, plus ArrayIter/MapIter with exact and inexact size hints", 1);
    let table = type_table();
    mcx::par::run_shards(
        table.len(),
        |i| {
            let e = &table[i];
            let vals = (e.values)();
            let mut ok = 0u64;
            for v in &vals {
                mcx::slot::case(e.name, &[]);
                let a = match mcx::par::guard(|| (v.to_vec(), v.to_vec())) {
                    Ok((Ok(a), Ok(b))) => {
                        if a != b {
                            r.fail(sub, None, json!({"type": e.name, "value": v.debug()}), format!("encoding the same value twice gave {} and {}", hex(&a), hex(&b)));
                            continue;
                        }
                        a
                    }
                    other => {
                        r.fail(sub, None, json!({"type": e.name, "value": v.debug()}), format!("encoding failed or panicked: {:?}", other.map(|_| ())));
                        continue;
                    }
                };
                let model = v.model();
                let case = || json!({"type": e.name, "value": v.debug(), "encoded_hex": hex(&a[..a.len().min(64)])});
                match parse(&a) {
                    Ok((item, used)) if used == a.len() => {
                        if !item.is_preferred() {
                            r.fail(sub, None, case(), format!("output {} is not in preferred form (non-shortest head or indefinite length)", item.diag()));
                            continue;
                        }
                        if e.ordered {
                            if item != model {
                                r.fail(sub, None, case(), format!("output denotes {} but the value is {}", item.diag(), model.diag()));
                                continue;
                            }
                        } else if canon(&e.shape, &item) != canon(&e.shape, &model) {
                            r.fail(sub, None, case(), format!("output denotes {} but the value is {} (compared as multisets)", item.diag(), model.diag()));
                            continue;
                        }
                        ok += 1;
                    }
                    Ok((item, used)) => r.fail(sub, None, case(), format!("output has {} bytes but the first item {} ends after {}", a.len(), item.diag(), used)),
                    Err(err) => r.fail(sub, None, case(), format!("output is not one well-formed item: {:?}", err)),
                }
            }
            r.add(sub, vals.len() as u64, ok);
            r.outcome(sub, e.name, vals.len() as u64);
        },
        crate::hang_handler(r.property.clone()),
    );
    // ArrayIter / MapIter
    {
        use minicbor::encode::{ArrayIter, MapIter};
        let mut n = 0u64;
        for len in [0usize, 1, 2, 23, 24, 255, 256] {
            let data: Vec<u8> = (0..len).map(|i| i as u8).collect();
            // exact size hint -> definite array
            let out = minicbor::to_vec(ArrayIter::new(data.iter())).unwrap();
            let want = Item::array(data.iter().map(|x| Item::uint(*x as u64)).collect());
            if out != want.to_bytes() {
                r.fail(sub, None, json!({"type": "ArrayIter(exact)", "len": len}), format!("wrote {}, expected {}", hex(&out[..out.len().min(32)]), hex(&want.to_bytes()[..want.to_bytes().len().min(32)])));
            }
            // inexact size hint (filter) -> indefinite array with the same elements
            let out = minicbor::to_vec(ArrayIter::new(data.iter().filter(|x| **x % 2 == 0))).unwrap();
            let want = Item::Array(data.iter().filter(|x| **x % 2 == 0).map(|x| Item::uint(*x as u64)).collect(), Len::Indef);
            match parse(&out) {
                Ok((i, u)) if u == out.len() && i.same_value(&want) && (i == want || i == want.preferred()) => {}
                o => r.fail(sub, None, json!({"type": "ArrayIter(inexact)", "len": len}), format!("wrote {} = {:?}", hex(&out[..out.len().min(32)]), o.map(|x| x.0.diag()))),
            }
            let out = minicbor::to_vec(MapIter::new(data.iter().map(|x| (*x, *x as u16 + 1)))).unwrap();
            let want = Item::map(data.iter().map(|x| (Item::uint(*x as u64), Item::uint(*x as u64 + 1))).collect());
            if out != want.to_bytes() {
                r.fail(sub, None, json!({"type": "MapIter(exact)", "len": len}), format!("wrote {}", hex(&out[..out.len().min(32)])));
            }
            let out = minicbor::to_vec(MapIter::new(data.iter().filter(|x| **x % 3 == 0).map(|x| (*x, true)))).unwrap();
            let want = Item::Map(data.iter().filter(|x| **x % 3 == 0).map(|x| (Item::uint(*x as u64), TRUE)).collect(), Len::Indef);
            match parse(&out) {
                Ok((i, u)) if u == out.len() && i.same_value(&want) && (i == want || i == want.preferred()) => {}
                o => r.fail(sub, None, json!({"type": "MapIter(inexact)", "len": len}), format!("wrote {} = {:?}", hex(&out[..out.len().min(32)]), o.map(|x| x.0.diag()))),
            }
            n += 4;
            // no upper bound at all, and a lower bound without an upper one: the length is unknown, so the
            // container must be indefinite and closed by a break
            for lower in [false, true] {
                let kind = if lower { "lower bound only" } else { "unbounded" };
                let out = minicbor::to_vec(ArrayIter::new(Hint { it: data.iter(), lower })).unwrap();
                let want = Item::Array(data.iter().map(|x| Item::uint(*x as u64)).collect(), Len::Indef);
                if out != want.to_bytes() {
                    r.fail(sub, None, json!({"type": format!("ArrayIter({})", kind), "len": len}), format!("wrote {}, expected {}", hex(&out[..out.len().min(32)]), hex(&want.to_bytes()[..want.to_bytes().len().min(32)])));
                }
                let out = minicbor::to_vec(MapIter::new(Hint { it: data.iter().map(|x| (*x, false)), lower })).unwrap();
                let want = Item::Map(data.iter().map(|x| (Item::uint(*x as u64), FALSE)).collect(), Len::Indef);
                if out != want.to_bytes() {
                    r.fail(sub, None, json!({"type": format!("MapIter({})", kind), "len": len}), format!("wrote {}, expected {}", hex(&out[..out.len().min(32)]), hex(&want.to_bytes()[..want.to_bytes().len().min(32)])));
                }
                n += 2;
            }
            n += 4;
        }
        r.add(sub, n, n);
        r.outcome(sub, "ArrayIter/MapIter", n);
    }
    // Token: each variant is one head (or one whole scalar / string) with the value it carries
    {
        use minicbor::data::Token;
        let mut n = 0u64;
        let mut ok = 0u64;
        for t in crate::c07::tokens() {
            n += 1;
            // the reference bytes are computed from the token's payload alone
            let want: Option<Vec<u8>> = match &t {
                Token::Bool(b) => Some(vec![if *b { 0xf5 } else { 0xf4 }]),
                Token::U8(_) | Token::U16(_) | Token::U32(_) | Token::U64(_) | Token::I8(_) | Token::I16(_) | Token::I32(_) | Token::I64(_) | Token::Int(_) => match crate::c11::to_ref(&t) {
                    crate::c11::RefTok::Int(v) => Some(Item::int(v).to_bytes()),
                    _ => None,
                },
                // NaN: any half NaN of the same sign is a correct head (payload bits are not pinned by the property)
                Token::F16(x) if x.is_nan() => None,
                Token::F16(x) => Some(Item::f16(refmodel::float::f32_to_f16(x.to_bits())).to_bytes()),
                Token::F32(x) => Some(Item::f32(x.to_bits()).to_bytes()),
                Token::F64(x) => Some(Item::f64(x.to_bits()).to_bytes()),
                Token::Bytes(b) => Some(Item::bytes(b).to_bytes()),
                Token::String(x) => Some(Item::text(x).to_bytes()),
                Token::Array(k) => Some(preferred_head(4, *k)),
                Token::Map(k) => Some(preferred_head(5, *k)),
                Token::Tag(k) => Some(preferred_head(6, k.as_u64())),
                // 20..=31: see the Encoder::simple finding (judged there, per argument)
                Token::Simple(x) if *x < 20 || *x >= 32 => Some(Item::Simple(*x).to_bytes()),
                Token::Simple(_) => None,
                Token::Break => Some(vec![0xff]),
                Token::Null => Some(vec![0xf6]),
                Token::Undefined => Some(vec![0xf7]),
                Token::BeginBytes => Some(vec![0x5f]),
                Token::BeginString => Some(vec![0x7f]),
                Token::BeginArray => Some(vec![0x9f]),
                Token::BeginMap => Some(vec![0xbf]),
            };
            let out = mcx::par::guard(|| minicbor::to_vec(&t));
            match (out, want) {
                (Ok(Ok(o)), Some(w)) if o == w => ok += 1,
                (Ok(Ok(o)), None) => {
                    let nan_ok = match &t {
                        Token::F16(x) if x.is_nan() => o.len() == 3 && o[0] == 0xf9 && refmodel::float::f16_is_nan(u16::from_be_bytes([o[1], o[2]])) && (o[1] & 0x80 != 0) == x.is_sign_negative(),
                        _ => true,
                    };
                    if nan_ok {
                        ok += 1;
                    } else {
                        r.fail(sub, None, json!({"type": "Token", "value": format!("{:?}", t)}), format!("wrote {}, expected a half-precision NaN of the same sign", hex(&o)));
                    }
                }
                (o, w) => r.fail(sub, None, json!({"type": "Token", "value": format!("{:?}", t).chars().take(80).collect::<String>()}), format!("wrote {:?}, the head denoting this token is {:?}", o.map(|x| x.map(|b| hex(&b[..b.len().min(32)])).map_err(|e| e.to_string())), w.map(|b| hex(&b[..b.len().min(32)])))),
            }
        }
        r.add(sub, n, ok);
        r.outcome(sub, "Token", n);
    }
    // IanaTag: encodes as the head of its registered number; Tag <-> IanaTag conversions are inverse
    {
        let all = iana_tags();
        let mut n = 0u64;
        for (t, num) in all {
            n += 1;
            let out = minicbor::to_vec(t).unwrap();
            let len = minicbor::len(t);
            let via = enc(|e| {
                e.tag(t).unwrap();
            });
            let back = minicbor::data::IanaTag::try_from(Tag::new(num)).ok();
            if out != preferred_head(6, num) || via != out || len != out.len() || back != Some(t) || u64::from(t) != num || Tag::from(t) != Tag::new(num) {
                r.fail(sub, None, json!({"type": "IanaTag", "value": format!("{:?}", t), "registered_number": num}), format!("encoded as {} (len() = {}), Encoder::tag wrote {}, TryFrom<Tag>({}) = {:?}", hex(&out), len, hex(&via), num, back));
            }
        }
        for unknown in [6u64, 20, 25, 31, 37, 39, 42, 63, 76, 88, 1039, 1041, u64::MAX] {
            n += 1;
            if minicbor::data::IanaTag::try_from(Tag::new(unknown)).is_ok() {
                r.fail(sub, None, json!({"type": "IanaTag", "tag": unknown}), "an unregistered tag number converted to an IanaTag");
            }
        }
        r.add(sub, n, n);
        r.outcome(sub, "IanaTag", n);
    }
    // Tag: encodes as the bare head of its number (the tagged item follows separately); decode reads it back
    {
        let mut n = 0u64;
        for num in refmodel::enumerate::lattice64() {
            n += 1;
            let t = Tag::new(num);
            let out = minicbor::to_vec(t).unwrap();
            let back: Result<Tag, _> = minicbor::decode(&out);
            if out != preferred_head(6, num) || minicbor::len(t) != out.len() || back.as_ref().ok() != Some(&t) {
                r.fail(sub, None, json!({"type": "Tag", "number": num}), format!("encoded as {} (len() = {}), decoded back as {:?}", hex(&out), minicbor::len(t), back.map(|t| t.as_u64()).ok()));
            }
        }
        r.add(sub, n, n);
        r.outcome(sub, "Tag", n);
    }
    // encode-only instantiations: &mut T, &&T, [T] (through a reference), Box<[T]>, Box<Vec<T>>, str
    {
        let mut n = 0u64;
        let mut one = |name: &str, out: Result<Vec<u8>, String>, len: usize, want: Item| {
            n += 1;
            let wb = want.to_bytes();
            match out {
                Ok(o) if o == wb && len == wb.len() => {}
                o => r.fail(sub, None, json!({"type": name, "value": want.diag()}), format!("wrote {:?} (len() = {}), expected {}", o.map(|o| hex(&o[..o.len().min(32)])), len, hex(&wb[..wb.len().min(32)]))),
            }
        };
        fn tv<T: minicbor::Encode<()>>(x: T) -> Result<Vec<u8>, String> {
            mcx::par::guard(|| minicbor::to_vec(x)).map_err(|p| p.to_string()).and_then(|r| r.map_err(|e| e.to_string()))
        }
        for x in [0u16, 23, 24, 255, 256, 65535] {
            let mut y = x;
            let l = minicbor::len(&mut y);
            one("&mut u16", tv(&mut y), l, Item::uint(x as u64));
            one("&&u16", tv(&&x), minicbor::len(&&x), Item::uint(x as u64));
            one("&mut &u16", tv(&mut &x), minicbor::len(&mut &x), Item::uint(x as u64));
            one("Box<Box<u16>>", tv(Box::new(Box::new(x))), minicbor::len(Box::new(Box::new(x))), Item::uint(x as u64));
        }
        for len in [0usize, 1, 23, 24, 255, 256] {
            let data: Vec<u16> = (0..len).map(|i| (i * 257) as u16).collect();
            let want = Item::array(data.iter().map(|x| Item::uint(*x as u64)).collect());
            one("&[u16]", tv(&data[..]), minicbor::len(&data[..]), want.clone());
            one("&mut [u16]", tv(&mut data.clone()[..]), minicbor::len(&mut data.clone()[..]), want.clone());
            one("Box<[u16]>", tv(data.clone().into_boxed_slice()), minicbor::len(data.clone().into_boxed_slice()), want.clone());
            one("Box<Vec<u16>>", tv(Box::new(data.clone())), minicbor::len(Box::new(data.clone())), want.clone());
            one("&Vec<u16>", tv(&data), minicbor::len(&data), want.clone());
            let opt: Vec<Option<&str>> = (0..len).map(|i| if i % 2 == 0 { None } else { Some("ab") }).collect();
            let want = Item::array(opt.iter().map(|x| x.map(Item::text).unwrap_or(NULL)).collect());
            one("&[Option<&str>]", tv(&opt[..]), minicbor::len(&opt[..]), want);
            let s: String = "x".repeat(len);
            one("&mut str", tv(&mut *s.clone().into_boxed_str()), minicbor::len(&mut *s.clone().into_boxed_str()), Item::text(&s));
        }
        r.add(sub, n, n);
        r.outcome(sub, "encode-only", n);
    }
    r.sample(sub, json!({"type": "Vec<u8>", "value": "[0, 255]", "encoded_hex": "820018ff"}));
}

// ---- (3) explicit-state search over balanced call sequences -------------------------------

#[derive(Debug, Clone, Copy, PartialEq, Eq, Hash)]
enum Op {
    U8(u8),
    I8(i8),
    Str,
    Bytes,
    Null,
    Bool,
    F32,
    Simple32,
    Tag,
    Array(u64),
    Map(u64),
    BeginArray,
    BeginMap,
    BeginBytes,
    BeginStr,
    End,
}

const OPS: [Op; 19] = [
    Op::U8(0), Op::U8(24), Op::I8(-1), Op::Str, Op::Bytes, Op::Null, Op::Bool, Op::F32, Op::Simple32, Op::Tag,
    Op::Array(0), Op::Array(1), Op::Array(2), Op::Map(0), Op::Map(1), Op::BeginArray, Op::BeginMap, Op::BeginBytes, Op::BeginStr,
];

#[derive(Debug, Clone, PartialEq, Eq, Hash)]
enum Frame {
    Def { major: u8, remaining: u64, kids: Vec<Item> },
    IndefArray(Vec<Item>),
    IndefMap(Vec<Item>),
    IndefBytes(Vec<Vec<u8>>),
    IndefStr(Vec<Vec<u8>>),
    Tag(u64),
}

#[derive(Clone)]
struct Node {
    enc: Encoder<Vec<u8>>,
    stack: Vec<Frame>,
    done: Vec<Item>,
    calls: Vec<Op>,
}

fn pairs(kids: Vec<Item>) -> Vec<(Item, Item)> {
    kids.chunks(2).map(|c| (c[0].clone(), c[1].clone())).collect()
}

impl Node {
    /// an item was completed: attach it to the enclosing frame(s)
    fn complete(&mut self, mut item: Item) {
        loop {
            match self.stack.last_mut() {
                None => {
                    self.done.push(item);
                    return;
                }
                Some(Frame::Tag(t)) => {
                    let t = *t;
                    self.stack.pop();
                    item = Item::tag(t, item);
                }
                Some(Frame::Def { major, remaining, kids }) => {
                    kids.push(item);
                    *remaining -= 1;
                    if *remaining > 0 {
                        return;
                    }
                    let (m, k) = (*major, std::mem::take(kids));
                    self.stack.pop();
                    item = if m == 4 { Item::array(k) } else { Item::map(pairs(k)) };
                }
                Some(Frame::IndefArray(k)) | Some(Frame::IndefMap(k)) => {
                    k.push(item);
                    return;
                }
                Some(Frame::IndefBytes(_)) | Some(Frame::IndefStr(_)) => unreachable!("chunks are handled by the caller"),
            }
        }
    }

    fn allowed(&self, op: Op) -> bool {
        match self.stack.last() {
            Some(Frame::IndefBytes(_)) => matches!(op, Op::Bytes | Op::End),
            Some(Frame::IndefStr(_)) => matches!(op, Op::Str | Op::End),
            Some(Frame::IndefMap(k)) => op != Op::End || k.len() % 2 == 0,
            Some(Frame::IndefArray(_)) => true,
            _ => op != Op::End,
        }
    }

    fn apply(&mut self, op: Op) {
        self.calls.push(op);
        let e = &mut self.enc;
        let leaf = match op {
            Op::U8(x) => {
                e.u8(x).unwrap();
                Some(Item::uint(x as u64))
            }
            Op::I8(x) => {
                e.i8(x).unwrap();
                Some(Item::int(x as i128))
            }
            Op::Null => {
                e.null().unwrap();
                Some(NULL)
            }
            Op::Bool => {
                e.bool(true).unwrap();
                Some(TRUE)
            }
            Op::F32 => {
                e.f32(1.5).unwrap();
                Some(Item::f32(1.5f32.to_bits()))
            }
            Op::Simple32 => {
                e.simple(32).unwrap();
                Some(Item::Simple(32))
            }
            Op::Str => {
                e.str("a").unwrap();
                if let Some(Frame::IndefStr(c)) = self.stack.last_mut() {
                    c.push(b"a".to_vec());
                    return;
                }
                Some(Item::text("a"))
            }
            Op::Bytes => {
                e.bytes(&[1]).unwrap();
                if let Some(Frame::IndefBytes(c)) = self.stack.last_mut() {
                    c.push(vec![1]);
                    return;
                }
                Some(Item::bytes(&[1]))
            }
            Op::Tag => {
                e.tag(Tag::new(1)).unwrap();
                self.stack.push(Frame::Tag(1));
                None
            }
            Op::Array(n) => {
                e.array(n).unwrap();
                if n == 0 {
                    Some(Item::array(vec![]))
                } else {
                    self.stack.push(Frame::Def { major: 4, remaining: n, kids: vec![] });
                    None
                }
            }
            Op::Map(n) => {
                e.map(n).unwrap();
                if n == 0 {
                    Some(Item::map(vec![]))
                } else {
                    self.stack.push(Frame::Def { major: 5, remaining: 2 * n, kids: vec![] });
                    None
                }
            }
            Op::BeginArray => {
                e.begin_array().unwrap();
                self.stack.push(Frame::IndefArray(vec![]));
                None
            }
            Op::BeginMap => {
                e.begin_map().unwrap();
                self.stack.push(Frame::IndefMap(vec![]));
                None
            }
            Op::BeginBytes => {
                e.begin_bytes().unwrap();
                self.stack.push(Frame::IndefBytes(vec![]));
                None
            }
            Op::BeginStr => {
                e.begin_str().unwrap();
                self.stack.push(Frame::IndefStr(vec![]));
                None
            }
            Op::End => {
                e.end().unwrap();
                match self.stack.pop().unwrap() {
                    Frame::IndefArray(k) => Some(Item::Array(k, Len::Indef)),
                    Frame::IndefMap(k) => Some(Item::Map(pairs(k), Len::Indef)),
                    Frame::IndefBytes(c) => Some(Item::Bytes(c.concat(), StrForm::Indef(c.iter().map(|x| (x.len(), W::min_for(x.len() as u64))).collect()))),
                    Frame::IndefStr(c) => Some(Item::Text(c.concat(), StrForm::Indef(c.iter().map(|x| (x.len(), W::min_for(x.len() as u64))).collect()))),
                    _ => unreachable!(),
                }
            }
        };
        if let Some(i) = leaf {
            self.complete(i);
        }
    }
}

struct SeqStats {
    nodes: u64,
    transitions: u64,
    balanced: u64,
    stack_shapes: HashSet<u64>,
}

fn dfs(r: &Report, sub: &str, node: &Node, depth: usize, max: usize, st: &mut SeqStats) {
    use std::hash::{Hash, Hasher};
    st.nodes += 1;
    {
        let mut h = std::collections::hash_map::DefaultHasher::new();
        node.stack.hash(&mut h);
        node.done.len().hash(&mut h);
        st.stack_shapes.insert(h.finish());
    }
    if node.stack.is_empty() && !node.done.is_empty() {
        st.balanced += 1;
        let out = node.enc.writer();
        let expect: Vec<u8> = node.done.iter().flat_map(|i| i.to_bytes()).collect();
        let parsed = parse_seq(out);
        if out != &expect || parsed.as_ref() != Ok(&node.done) {
            r.fail(
                sub,
                None,
                json!({"calls": format!("{:?}", node.calls)}),
                format!("encoder wrote {}; the balanced call sequence denotes {} = {}; parse: {:?}", hex(out), node.done.iter().map(|i| i.diag()).collect::<Vec<_>>().join(" "), hex(&expect), parsed.map(|v| v.iter().map(|i| i.diag()).collect::<Vec<_>>())),
            );
        }
    }
    if depth == max {
        return;
    }
    for op in OPS.iter().copied().chain([Op::End]) {
        if !node.allowed(op) {
            continue;
        }
        let mut nx = node.clone();
        nx.apply(op);
        st.transitions += 1;
        dfs(r, sub, &nx, depth + 1, max, st);
    }
}

fn sequences(r: &Report) {
    let sub = "balanced-call-sequences";
    let max = if r.tier == Tier::Thorough { 6 } else { 5 };
    r.space(sub, true, &format!("all Encoder call sequences of depth <= {} over a {}-call alphabet that keep the model nesting stack well-formed; every state with an empty stack is compared with the reference", max, OPS.len() + 1), 1);
    // shard on the first two calls
    let root = Node { enc: Encoder::new(Vec::new()), stack: vec![], done: vec![], calls: vec![] };
    let mut firsts: Vec<Node> = Vec::new();
    for a in OPS.iter().copied() {
        if !root.allowed(a) {
            continue;
        }
        let mut n1 = root.clone();
        n1.apply(a);
        for b in OPS.iter().copied().chain([Op::End]) {
            if !n1.allowed(b) {
                continue;
            }
            let mut n2 = n1.clone();
            n2.apply(b);
            firsts.push(n2);
        }
        // the depth-1 node itself (checked, not expanded: its children are the shards above)
        firsts.push(n1);
    }
    let nfirst = firsts.len();
    mcx::par::run_shards(
        nfirst,
        |i| {
            let n = &firsts[i];
            mcx::slot::case("call-sequences", format!("{:?}", n.calls).as_bytes());
            let mut st = SeqStats { nodes: 0, transitions: 0, balanced: 0, stack_shapes: HashSet::new() };
            if n.calls.len() == 1 {
                // the depth-1 node: check it, do not expand (its children are separate shards)
                dfs(r, sub, n, max, max, &mut st);
            } else {
                dfs(r, sub, n, 2, max, &mut st);
            }
            r.add(sub, st.nodes, st.balanced);
            r.add_states(sub, st.stack_shapes.len() as u64, st.transitions + 1);
            r.outcome(sub, "balanced states checked", st.balanced);
            r.outcome(sub, "open states", st.nodes - st.balanced);
        },
        crate::hang_handler(r.property.clone()),
    );
    r.sample(sub, json!({"calls": "[BeginMap, U8(0), Array(1), Null, End]", "output_hex": "bf0081f6ff"}));
}

/// A sink that keeps the first 16 bytes and counts the rest.
struct HeadSink {
    head: Vec<u8>,
    total: u64,
}

impl minicbor::encode::Write for HeadSink {
    type Error = std::convert::Infallible;
    fn write_all(&mut self, buf: &[u8]) -> Result<(), Self::Error> {
        let room = 16usize.saturating_sub(self.head.len());
        self.head.extend_from_slice(&buf[..buf.len().min(room)]);
        self.total += buf.len() as u64;
        Ok(())
    }
}

/// Strings whose length needs the 8-byte argument (>= 2^32 bytes): a zero-filled allocation that is never written
/// to (the pages are mapped lazily), encoded into a counting sink.
fn huge_strings(r: &Report) {
    let sub = "huge-strings";
    r.space(sub, true, "Encoder::bytes / Encoder::str / Encode for &[u8]-like types on strings of 2^32 - 1, 2^32 and 2^32 + 5 bytes into a counting sink: the head must be the shortest one for the length and the total the head plus the payload", 1);
    let n_max = (1usize << 32) + 5;
    let big: Vec<u8> = vec![0u8; n_max];
    let text = std::str::from_utf8(&big).expect("zeros are valid UTF-8");
    let mut n = 0u64;
    let mut ok = 0u64;
    for len in [(1usize << 32) - 1, 1 << 32, n_max] {
        let calls: [(&str, u8, Box<dyn Fn(&mut Encoder<HeadSink>) -> bool>); 4] = [
            ("Encoder::bytes", 2, Box::new(|e| e.bytes(&big[..len]).is_ok())),
            ("Encoder::str", 3, Box::new(|e| e.str(&text[..len]).is_ok())),
            ("encode(&ByteSlice)", 2, Box::new(|e| e.encode(<&minicbor::bytes::ByteSlice>::from(&big[..len])).is_ok())),
            ("encode(&str)", 3, Box::new(|e| e.encode(&text[..len]).is_ok())),
        ];
        for (what, major, call) in calls.iter() {
            n += 1;
            mcx::slot::case(what, &(len as u64).to_be_bytes());
            let mut e = Encoder::new(HeadSink { head: Vec::new(), total: 0 });
            let res = mcx::par::guard(|| call(&mut e));
            let sink = e.into_writer();
            let want_head = refmodel::preferred_head(*major, len as u64);
            let good = res == Ok(true) && sink.head.starts_with(&want_head) && sink.total == (want_head.len() + len) as u64;
            if good {
                ok += 1;
            } else {
                r.fail(sub, None, json!({"call": what, "length": len}), format!("result {:?}, wrote {} bytes starting with {}; the head for this length is {}", res, sink.total, hex(&sink.head), hex(&want_head)));
            }
        }
    }
    r.add(sub, n, ok);
    r.add_states(sub, n, n);
    r.outcome(sub, "shortest head and full payload", ok);
}

pub fn run(r: &Report) {
    huge_strings(r);
    methods(r);
    builtin_types(r);
    sequences(r);
    r.assume("preferred serialisation = shortest head, definite length, floats at the width of the Rust type (half only through f16)");
}
