//! C15: AsyncReader is cancellation-safe.
//!
//! Deviation-bounded exhaustive exploration of every interleaving of source
//! outcomes {deliver k bytes, Pending, transient error, end of stream} with
//! caller decisions {poll again, drop the future and re-issue `read`}, against
//! the list-of-values model. The real `AsyncReader` is driven by hand with a
//! no-op waker; the scripted source is the only source of nondeterminism.

use crate::io_common::*;
use futures_io::AsyncRead;
use mcx::explore::{explore_shard, replay, SharedChooser};
use mcx::{Report, Tier};
use minicbor_io::AsyncReader;
use serde_json::json;
use std::cell::RefCell;
use std::collections::{BTreeMap, HashSet};
use std::future::Future;
use std::io;
use std::pin::Pin;
use std::rc::Rc;
use std::sync::Mutex;
use std::task::{Context, Poll, Waker};

#[derive(Debug, Clone, Copy)]
pub struct Limits {
    /// max consecutive Pendings
    pub p: u32,
    /// max injected transient errors per execution
    pub e: u32,
    /// max dropped futures per execution
    pub d: u32,
    /// total deviation budget
    pub b: u32,
}

struct SrcState {
    data: Vec<u8>,
    pos: usize,
    consecutive_pending: u32,
    errors: u32,
    pendings_total: u32,
    last_poll_pending: bool,
    polls: u64,
    lim: Limits,
    ch: SharedChooser,
    /// human-readable event log (replay mode only)
    log: Option<Vec<String>>,
}

struct Src(Rc<RefCell<SrcState>>);

impl AsyncRead for Src {
    fn poll_read(self: Pin<&mut Self>, _cx: &mut Context<'_>, buf: &mut [u8]) -> Poll<io::Result<usize>> {
        let mut s = self.0.borrow_mut();
        s.polls += 1;
        if s.polls > 2000 {
            panic!("HORIZON: the source was polled more than 2000 times in one execution (livelock: no progress towards completion)");
        }
        s.last_poll_pending = false;
        let avail = s.data.len() - s.pos;
        let maxk = avail.min(buf.len());
        // options: deliver maxk (or Ok(0)), deliver smaller k (free), Pending (1), transient error (1)
        let mut menu = size_menu(maxk, s.data.len() > 32);
        let deliver_opts = menu.n;
        let can_pend = s.consecutive_pending < s.lim.p;
        let can_err = s.errors < s.lim.e;
        if can_pend {
            menu.push(1);
        }
        if can_err {
            menu.push(1);
        }
        let c = s.ch.borrow_mut().choose("poll_read", menu.costs());
        if c < deliver_opts {
            let k = menu.sizes[c];
            let p = s.pos;
            buf[..k].copy_from_slice(&s.data[p..p + k]);
            s.pos += k;
            s.consecutive_pending = 0;
            if let Some(l) = s.log.as_mut() {
                l.push(format!("poll_read(buf of {}): deliver {} of {} available", buf.len(), k, avail));
            }
            return Poll::Ready(Ok(k));
        }
        if can_pend && c == deliver_opts {
            s.consecutive_pending += 1;
            s.pendings_total += 1;
            s.last_poll_pending = true;
            if let Some(l) = s.log.as_mut() {
                l.push("poll_read: Pending".to_string());
            }
            return Poll::Pending;
        }
        if let Some(l) = s.log.as_mut() {
            l.push("poll_read: transient error".to_string());
        }
        s.errors += 1;
        s.consecutive_pending = 0;
        Poll::Ready(Err(transient_error()))
    }
}

#[derive(Debug, Clone)]
pub struct Scenario {
    pub frames: Vec<Frame>,
    /// number of stream bytes delivered before the stream ends
    pub avail: usize,
    pub max_len: Option<u32>,
    /// construct the reader with `with_buffer` and a recycled buffer (stale content, spare capacity)
    pub ctor: u8,
    /// right after the result of frame #i was returned, `set_max_len(m)` for good
    pub relimit: Option<(usize, u32)>,
}

impl Scenario {
    fn json(&self) -> serde_json::Value {
        json!({"frames": describe(&self.frames), "stream_hex": refmodel::hex(&wire(&self.frames)), "bytes_before_end_of_stream": self.avail, "max_len": self.max_len, "constructor": self.ctor, "relimit": self.relimit.map(|(i, m)| vec![i as u64, m as u64])})
    }
}

pub struct Obs {
    pub results: Vec<Res>,
    pub drops: u32,
    pub quiescent_keys: Vec<u64>,
}

fn hash64<T: std::hash::Hash>(t: &T) -> u64 {
    use std::hash::Hasher;
    let mut h = std::collections::hash_map::DefaultHasher::new();
    t.hash(&mut h);
    h.finish()
}

/// One execution: returns Err(description) on an oracle failure.
pub fn run_once(sc: &Scenario, lim: Limits, ch: SharedChooser, obs_out: &mut Option<Obs>) -> Result<(), String> {
    run_logged(sc, lim, ch, obs_out, false)
}

pub fn run_logged(sc: &Scenario, lim: Limits, ch: SharedChooser, obs_out: &mut Option<Obs>, verbose: bool) -> Result<(), String> {
    let mut data = wire(&sc.frames);
    data.truncate(sc.avail);
    let st = Rc::new(RefCell::new(SrcState {
        data,
        pos: 0,
        consecutive_pending: 0,
        errors: 0,
        pendings_total: 0,
        last_poll_pending: false,
        polls: 0,
        lim,
        ch: ch.clone(),
        log: if verbose { Some(Vec::new()) } else { None },
    }));
    let mut reader = if sc.ctor != 0 { AsyncReader::with_buffer(Src(st.clone()), dirty_buffer(sc.ctor)) } else { AsyncReader::new(Src(st.clone())) };
    let mut max_len = match sc.max_len {
        Some(m) => {
            reader.set_max_len(m);
            m as usize
        }
        None => 512 * 1024,
    };
    let first_limit = max_len;
    let expected = model_limits(&sc.frames, sc.avail, &|i| match sc.relimit {
        Some((k, m)) if i > k => m as usize,
        _ => first_limit,
    });
    let mut cx = Context::from_waker(Waker::noop());
    let mut results: Vec<Res> = Vec::new();
    let mut drops = 0u32;
    let mut next_expected = 0usize; // index into expected.values
    let mut terminal_seen = false;
    let mut calls_after_terminal = 0;
    let horizon = sc.frames.len() as u32 + lim.e + lim.d + 4;
    let mut issued = 0u32;
    let mut keys = Vec::new();
    loop {
        if issued >= horizon {
            if !terminal_seen {
                return Err(format!("HORIZON: {} read calls issued without reaching the end of the stream; results so far {:?}", issued, results));
            }
            break;
        }
        issued += 1;
        if sc.ctor != 0 && sc.ctor != 4 {
            // a frame may be in flight (constructor 4 keeps the default limit untouched: no setter call at all) (dropped future / transient error): the setter must not disturb it
            let in_flight = reader.verif_state().2;
            reader.set_max_len(in_flight.saturating_sub(1) as u32);
            reader.set_max_len(max_len as u32);
        }
        let errors_before = st.borrow().errors;
        let mut fut = Box::pin(reader.read::<Vec<u8>>());
        let mut polls = 0u32;
        let outcome = loop {
            polls += 1;
            if polls > 400 {
                return Err("HORIZON: one read future was polled 400 times without completing".to_string());
            }
            match fut.as_mut().poll(&mut cx) {
                Poll::Ready(r) => break Some(classify_read(r)),
                Poll::Pending => {
                    if !st.borrow().last_poll_pending {
                        return Err("the read future returned Pending although the source did not (lost wake-up)".to_string());
                    }
                    let c = if drops < lim.d { ch.borrow_mut().choose("after-pending: poll again / drop future", &[0, 1]) } else { 0 };
                    if c == 1 {
                        drops += 1;
                        if let Some(l) = st.borrow_mut().log.as_mut() {
                            l.push("caller: drop the pending read future".to_string());
                        }
                        break None;
                    }
                }
            }
        };
        drop(fut);
        // quiescent point: record the state key (used for the distinct-state count)
        {
            let (tag, off, blen, pre) = reader.verif_state();
            let s = st.borrow();
            keys.push(hash64(&(tag, off, blen, pre, reader.verif_buffer(), s.pos, results.len(), s.errors, drops)));
        }
        let r = match outcome {
            None => continue,
            Some(r) => r,
        };
        if let Some(l) = st.borrow_mut().log.as_mut() {
            l.push(format!("read() returned {:?}", r));
        }
        if verbose {
            for l in st.borrow_mut().log.as_mut().unwrap().drain(..) {
                println!("    {}", l);
            }
        }
        results.push(r.clone());
        if r == Res::Transient {
            let injected = st.borrow().errors - errors_before;
            if injected != 1 {
                return Err(format!("a transient error was reported by a call during which {} errors were injected; results {:?}", injected, results));
            }
            continue;
        }
        let injected = st.borrow().errors - errors_before;
        if injected != 0 {
            return Err(format!("{} injected transient error(s) were swallowed: the call returned {:?}; results {:?}", injected, r, results));
        }
        if terminal_seen {
            // after the end: never a value
            if matches!(r, Res::Val(_) | Res::DecodeErr) {
                return Err(format!("a frame result {:?} was returned after the terminal result {:?}; results {:?}", r, expected.terminal, results));
            }
            calls_after_terminal += 1;
            if calls_after_terminal >= 2 {
                break;
            }
            continue;
        }
        if next_expected < expected.values.len() {
            if r != expected.values[next_expected] {
                return Err(format!("result #{} is {:?}, the model expects {:?}; all results {:?}", next_expected, r, expected.values[next_expected], results));
            }
            next_expected += 1;
            if let Some((k, m)) = sc.relimit {
                if next_expected == k + 1 {
                    reader.set_max_len(m);
                    max_len = m as usize;
                }
            }
        } else {
            if r != expected.terminal {
                return Err(format!("after {} frames the call returned {:?}, the model expects {:?}; all results {:?}", next_expected, r, expected.terminal, results));
            }
            terminal_seen = true;
        }
    }
    *obs_out = Some(Obs { results, drops, quiescent_keys: keys });
    Ok(())
}

pub fn scenarios(tier: Tier) -> (Vec<Scenario>, Limits, String) {
    let kinds = frame_kinds();
    let (max_frames, max_bytes, lim) = match tier {
        Tier::Quick => (2, 12, Limits { p: 1, e: 1, d: 2, b: 3 }),
        Tier::Thorough => (2, 12, Limits { p: 2, e: 2, d: 2, b: 4 }),
    };
    let mut out = Vec::new();
    for fs in frame_sequences(&kinds, 0, max_frames, max_bytes) {
        let total = wire(&fs).len();
        let largest = fs.iter().map(|f| f.payload.len()).max().unwrap_or(0) as u32;
        let mut maxlens = vec![None];
        if !fs.is_empty() {
            for m in [largest.saturating_sub(1), largest, largest + 1] {
                if !maxlens.contains(&Some(m)) {
                    maxlens.push(Some(m));
                }
            }
        }
        for ml in maxlens {
            for avail in 0..=total {
                // truncation points are only crossed with the default and the exact limit
                if avail < total && !(ml.is_none() || ml == Some(largest)) {
                    continue;
                }
                out.push(Scenario { frames: fs.clone(), avail, max_len: ml, ctor: 0, relimit: None });
                if ml.is_none() && avail == total {
                    out.push(Scenario { frames: fs.clone(), avail, max_len: ml, ctor: 1, relimit: None });
                    if fs.len() <= 1 {
                        out.push(Scenario { frames: fs.clone(), avail, max_len: ml, ctor: 2, relimit: None });
                        out.push(Scenario { frames: fs.clone(), avail, max_len: ml, ctor: 3, relimit: None });
                    }
                }
            }
        }
    }
    // large frames: the payload length crosses a byte boundary of the length prefix
    for big in large_frames() {
        let l = big.payload.len();
        let huge = l > 1000;
        if huge && tier == Tier::Quick && l != 65536 && l < 500_000 {
            continue;
        }
        if l >= 500_000 {
            let fs = vec![big.clone()];
            out.push(Scenario { frames: fs.clone(), avail: wire(&fs).len(), max_len: None, ctor: 0, relimit: None });
            continue;
        }
        let seqs = if huge || tier == Tier::Quick { vec![vec![big.clone()]] } else { vec![vec![big.clone()], vec![kinds[0].clone(), big.clone()]] };
        for fs in seqs {
            let total = wire(&fs).len();
            let lead = if fs.len() == 1 { 0 } else { 4 + kinds[0].payload.len() };
            let cuts = if huge { vec![total, total - 1, lead + 4 + l / 2] } else { vec![total, total - 1, lead + 4 + l / 2, lead + 4, lead + 3] };
            for avail in cuts {
                out.push(Scenario { frames: fs.clone(), avail, max_len: None, ctor: 0, relimit: None });
            }
            out.push(Scenario { frames: fs.clone(), avail: total, max_len: Some(l as u32), ctor: 1, relimit: None });
            out.push(Scenario { frames: fs.clone(), avail: total, max_len: Some(l as u32 - 1), ctor: 0, relimit: None });
        }
    }
    // a recycled buffer with more capacity than the default maximum does not raise the limit
    for big in large_frames().into_iter().filter(|f| f.payload.len() >= 500_000) {
        let fs = vec![big.clone()];
        out.push(Scenario { frames: fs.clone(), avail: wire(&fs).len(), max_len: None, ctor: 4, relimit: None });
    }
    // a limit above the default: both frames around 512 KiB are read; limits at the top of the u32 range
    for big in large_frames().into_iter().filter(|f| f.payload.len() >= 500_000) {
        let fs = vec![big.clone()];
        out.push(Scenario { frames: fs.clone(), avail: wire(&fs).len(), max_len: Some(600_000), ctor: 0, relimit: None });
    }
    for m in [0x7fff_ffffu32, 0x8000_0000, u32::MAX - 4, u32::MAX - 3, u32::MAX] {
        let fs = vec![kinds[0].clone()];
        out.push(Scenario { frames: fs.clone(), avail: wire(&fs).len(), max_len: Some(m), ctor: 0, relimit: None });
        let fs = vec![kinds[1].clone(), kinds[0].clone()];
        out.push(Scenario { frames: fs.clone(), avail: wire(&fs).len(), max_len: None, ctor: 1, relimit: Some((0, m)) });
    }
    // the limit changed on a reader that has been used
    {
        let big = large_frames()[2].clone(); // 257 payload bytes
        let small = kinds[2].clone(); // [1,2]: 3 payload bytes
        let tiny = kinds[0].clone(); // [5]: 2 payload bytes
        for (fs, re) in [
            (vec![big.clone(), small.clone()], (0usize, 2u32)),
            (vec![big.clone(), small.clone()], (0, 3)),
            (vec![small.clone(), tiny.clone()], (0, 1)),
            (vec![small.clone(), tiny.clone(), small.clone()], (0, 2)),
            (vec![tiny.clone(), small.clone()], (0, 2)),
        ] {
            let total = wire(&fs).len();
            out.push(Scenario { frames: fs.clone(), avail: total, max_len: None, ctor: 0, relimit: Some(re) });
            out.push(Scenario { frames: fs.clone(), avail: total, max_len: Some(300), ctor: 1, relimit: Some(re) });
        }
        let fs = vec![small.clone(), tiny.clone()];
        out.push(Scenario { frames: fs.clone(), avail: wire(&fs).len(), max_len: Some(2), ctor: 0, relimit: Some((0, 3)) });
    }
    // hostile declared lengths, always last, full stream and one truncation
    if tier == Tier::Thorough {
        // (deviation budget 1: every execution makes the reader provide a 2 GiB buffer)
        let fs = vec![frame_2_pow_31()];
        out.push(Scenario { frames: fs.clone(), avail: 4, max_len: Some(u32::MAX), ctor: 0, relimit: None });
    }
    for h in hostile_frames() {
        for lead in [vec![], vec![kinds[0].clone()]] {
            let mut fs = lead.clone();
            fs.push(h.clone());
            let total = wire(&fs).len();
            out.push(Scenario { frames: fs.clone(), avail: total, max_len: None, ctor: 0, relimit: None });
            out.push(Scenario { frames: fs.clone(), avail: total, max_len: Some(8), ctor: 1, relimit: None });
        }
    }
    out.sort_by_key(|s: &Scenario| std::cmp::Reverse(s.avail));
    let bound = format!(
        "streams of 0..={} frames over {} payload kinds, <= {} bytes, every truncation point, max_len in {{default, L-1, L, L+1}}, plus frames with payloads of 255..65537 bytes and of 512 KiB / 512 KiB + 1 (the default maximum; deviation budget 2) (reads of more than 32 bytes delivered whole or, as one deviation each, as 1 / half / all-but-one bytes); AsyncReader::new and ::with_buffer(recycled buffer: stale bytes / spare capacity / 640 KiB of capacity); set_max_len lowered / raised after a frame on a used reader (11 scenarios); limits 600000 (with frames of 512 KiB and 512 KiB + 1) and 2^31-1 .. u32::MAX; source: all delivery sizes (free), <= {} consecutive Pending, <= {} transient errors; caller: <= {} dropped futures; total deviation budget {}",
        max_frames, kinds.len(), max_bytes, lim.p, lim.e, lim.d, lim.b
    );
    (out, lim, bound)
}

pub fn run(r: &Report) {
    if r.tier == Tier::Thorough && std::env::var("VERIF_HANG_SECS").is_err() {
        // one thorough scenario makes the reader provide and zero-fill a 2 GiB buffer in every execution: on a loaded
        // machine a single execution can be silent for longer than the default 20 s
        std::env::set_var("VERIF_HANG_SECS", "180");
    }
    let (scs, lim, bound) = scenarios(r.tier);
    r.space("poll-drop-schedules", true, &bound, 4);
    r.assume("the scripted AsyncRead never reads past the end of the caller's buffer and is the only source of nondeterminism (checked: identical replays)");
    let first_fail: Mutex<Option<()>> = Mutex::new(None);
    let hang_prop = r.property.clone();
    const FIRST: usize = 12;
    // distinct quiescent states over the whole exploration (merged across shards)
    let all_states: std::sync::Mutex<HashSet<u64>> = std::sync::Mutex::new(HashSet::new());
    mcx::par::run_shards(
        scs.len() * FIRST * FIRST,
        |shard| {
            // one scenario is split by its first two choices
            let i = shard / (FIRST * FIRST);
            let first = ((shard / FIRST) % FIRST) as u32;
            let second = (shard % FIRST) as u32;
            let sc = &scs[i];
            let mut outcomes: BTreeMap<String, u64> = BTreeMap::new();
            let mut states: HashSet<u64> = HashSet::new();
            let mut nontrivial = 0u64;
            mcx::slot::case("c15-scenario", format!("{:?}", sc.json().to_string()).as_bytes());
            let t0 = std::time::Instant::now();
            let (stats, fail) = explore_shard(if sc.frames.iter().any(|f| f.declared >= 1 << 30 && sc.max_len == Some(u32::MAX)) { 1 } else if sc.avail > 100_000 { lim.b.min(2) } else { lim.b }, &[first, second], FIRST as u32, |ch| {
                mcx::slot::beat();
                let mut obs = None;
                let res = mcx::par::guard(|| run_once(sc, lim, ch, &mut obs));
                let res = match res {
                    Ok(x) => x,
                    Err(p) => Err(format!("panic: {}", p)),
                };
                if let Some(o) = obs {
                    let key = format!("{} results, {} drops, last={:?}", o.results.len(), o.drops, o.results.last().map(|x| std::mem::discriminant(x)));
                    *outcomes.entry(key).or_default() += 1;
                    if o.drops > 0 || o.results.iter().any(|x| matches!(x, Res::Val(_))) {
                        nontrivial += 1;
                    }
                    states.extend(o.quiescent_keys);
                }
                res
            });
            if std::env::var("VERIF_TIMING").is_ok() && t0.elapsed().as_millis() > 300 {
                eprintln!("TIMING {} ms, {} executions, shard {}/{} of {}", t0.elapsed().as_millis(), stats.executions, first, second, sc.json().to_string().chars().take(160).collect::<String>());
            }
            r.add("poll-drop-schedules", stats.executions, nontrivial.min(stats.executions));
            r.add_states("poll-drop-schedules", 0, stats.choice_points);
            all_states.lock().unwrap().extend(states);
            r.outcomes("poll-drop-schedules", &outcomes);
            if i % 97 == 0 && first == 0 && second == 0 {
                r.sample("poll-drop-schedules", json!({"scenario": sc.json(), "executions": stats.executions, "max_choice_points": stats.max_trace_len}));
            }
            if let Some((choices, labels, msg)) = fail {
                // determinism guard: the failing schedule must fail identically twice
                let again = |_: ()| {
                    let mut o = None;
                    replay(&choices, |ch| match mcx::par::guard(|| run_once(sc, lim, ch, &mut o)) {
                        Ok(x) => x,
                        Err(p) => Err(format!("panic: {}", p)),
                    })
                    .1
                };
                let a = again(());
                let b = again(());
                if a != Err(msg.clone()) || b != Err(msg.clone()) {
                    r.machinery_error(format!("nondeterministic replay of a failing schedule: {:?} / {:?} / {:?}", msg, a, b));
                }
                let mut g = first_fail.lock().unwrap();
                let _ = g.insert(());
                r.fail(
                    "poll-drop-schedules",
                    None,
                    json!({"scenario": sc.json(), "limits": {"p": lim.p, "e": lim.e, "d": lim.d, "b": lim.b}, "choices": choices, "schedule": labels}),
                    msg,
                );
            }
        },
        crate::hang_handler(hang_prop),
    );
    r.add_states("poll-drop-schedules", all_states.lock().unwrap().len() as u64, 0);
}

/// Replay one recorded case.
pub fn replay_case(case: &serde_json::Value) -> Result<(), String> {
    let sc = &case["scenario"];
    let names: Vec<String> = sc["frames"].as_array().unwrap().iter().map(|x| x.as_str().unwrap().to_string()).collect();
    let all: Vec<Frame> = frame_kinds().into_iter().chain(hostile_frames()).chain(large_frames()).chain([frame_2_pow_31()]).collect();
    let frames: Vec<Frame> = names.iter().map(|n| all.iter().find(|f| f.name == n).unwrap().clone()).collect();
    let scen = Scenario {
        frames,
        avail: sc["bytes_before_end_of_stream"].as_u64().unwrap() as usize,
        max_len: sc["max_len"].as_u64().map(|x| x as u32),
        ctor: sc["constructor"].as_u64().unwrap_or(0) as u8,
        relimit: sc["relimit"].as_array().map(|a| (a[0].as_u64().unwrap() as usize, a[1].as_u64().unwrap() as u32)),
    };
    let choices: Vec<u32> = case["choices"].as_array().unwrap().iter().map(|x| x.as_u64().unwrap() as u32).collect();
    let l = &case["limits"];
    let g = |k: &str| l[k].as_u64().unwrap() as u32;
    let lim = Limits { p: g("p"), e: g("e"), d: g("d"), b: g("b") };
    let mut o = None;
    let (labels, res) = replay(&choices, |ch| run_logged(&scen, lim, ch, &mut o, true));
    for l in labels {
        println!("  {}", l);
    }
    if let Some(o) = o {
        println!("  results: {:?}", o.results);
    }
    res
}
