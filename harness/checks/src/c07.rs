//! C07: CborLen is exact: len(v) equals the number of bytes encode(v) writes.

use crate::types::*;
use mcx::{Report, Tier};
use minicbor::data::{Int, Tag, Token};
use refmodel::float::*;
use refmodel::*;
use serde_json::json;

fn check_val(r: &Report, sub: &str, ty: &str, v: &dyn ErasedVal) -> bool {
    let bytes = match v.to_vec() {
        Ok(b) => b,
        Err(_) => return true, // the property only speaks about values that encode
    };
    let len = match mcx::par::guard(|| v.cbor_len()) {
        Ok(l) => l,
        Err(p) => {
            r.fail(sub, None, json!({"type": ty, "value": v.debug()}), format!("cbor_len panicked: {}", p));
            return false;
        }
    };
    if len != bytes.len() {
        r.fail(sub, None, json!({"type": ty, "value": v.debug(), "encoded_hex": hex(&bytes[..bytes.len().min(48)])}), format!("len() = {} but the encoder writes {} bytes", len, bytes.len()));
        return false;
    }
    // exact fit succeeds, one byte less fails with a write error
    let fit = v.into_slice(len);
    if fit.res.is_err() || fit.pos != len || fit.buf != bytes {
        r.fail(sub, None, json!({"type": ty, "value": v.debug()}), format!("encoding into a buffer of exactly len() = {} bytes: {:?}, {} bytes written", len, fit.res, fit.pos));
        return false;
    }
    if len > 0 {
        let short = v.into_slice(len - 1);
        if short.res != Err(EncErr::Write) {
            r.fail(sub, None, json!({"type": ty, "value": v.debug()}), format!("encoding into len()-1 = {} bytes returned {:?} instead of a write error", len - 1, short.res));
            return false;
        }
    }
    true
}

pub fn tokens() -> Vec<Token<'static>> {
    let mut v = vec![Token::Bool(false), Token::Bool(true), Token::Null, Token::Undefined, Token::Break, Token::BeginBytes, Token::BeginString, Token::BeginArray, Token::BeginMap];
    let lat = enumerate::lattice64();
    for n in &lat {
        let n = *n;
        v.push(Token::U64(n));
        v.push(Token::Array(n));
        v.push(Token::Map(n));
        v.push(Token::Tag(Tag::new(n)));
        if n <= u32::MAX as u64 {
            v.push(Token::U32(n as u32));
        }
        if n <= u16::MAX as u64 {
            v.push(Token::U16(n as u16));
        }
        if n <= u8::MAX as u64 {
            v.push(Token::U8(n as u8));
        }
    }
    for x in enumerate::lattice_int() {
        v.push(Token::Int(Int::try_from(x).unwrap()));
        if x >= i64::MIN as i128 && x <= i64::MAX as i128 {
            v.push(Token::I64(x as i64));
        }
        if x >= i32::MIN as i128 && x <= i32::MAX as i128 {
            v.push(Token::I32(x as i32));
        }
        if x >= i16::MIN as i128 && x <= i16::MAX as i128 {
            v.push(Token::I16(x as i16));
        }
        if x >= i8::MIN as i128 && x <= i8::MAX as i128 {
            v.push(Token::I8(x as i8));
        }
    }
    for s in 0..=255u8 {
        v.push(Token::Simple(s));
    }
    // incl. quiet NaNs with payloads (signalling half NaNs are excluded as the property does)
    for h in [0u16, 0x3c00, 0x7bff, 0x7c00, 0xfc00, 0x0001, 0x8000, 0x03ff, 0x0400, 0x7e00, 0xfe00, 0x7e01, 0x7fff] {
        v.push(Token::F16(f32::from_bits(f16_to_f32(h))));
    }
    for b in [0u32, 0x3fc0_0000, 0x7fc0_0000] {
        v.push(Token::F32(f32::from_bits(b)));
        v.push(Token::F64(f64::from_bits((b as u64) << 32)));
    }
    for n in [0usize, 1, 3, 23, 24, 255, 256, 65536] {
        let b: &'static [u8] = Box::leak(vec![200u8; n].into_boxed_slice());
        let s: &'static str = Box::leak("z".repeat(n).into_boxed_str());
        v.push(Token::Bytes(b));
        v.push(Token::String(s));
    }
    v
}

fn token_key(t: &Token, len: usize, written: usize) -> Option<String> {
    match t {
        Token::F16(_) if len == 5 && written == 3 => Some("token-f16-len".into()),
        Token::Bytes(b) if written == refmodel::preferred_head(2, b.len() as u64).len() + b.len() => Some("token-bytes-len".into()),
        Token::Simple(s) if (20..=23).contains(s) && len == 1 && written == 2 => Some("token-simple-20-23-len".into()),
        _ => None,
    }
}

pub fn builtin(r: &Report) {
    let sub = "builtin-types";
    r.space(sub, true, "every small-domain value of every built-in CborLen instantiation of the type table: len == bytes written; exact-fit slice succeeds; one byte less fails with a write error", 1);
    let table = type_table();
    mcx::par::run_shards(
        table.len(),
        |i| {
            let e = &table[i];
            let vals = (e.values)();
            let mut ok = 0u64;
            for v in &vals {
                mcx::slot::case(e.name, &[]);
                if check_val(r, sub, e.name, v.as_ref()) {
                    ok += 1;
                }
            }
            r.add(sub, vals.len() as u64, ok);
            r.outcome(sub, e.name, vals.len() as u64);
        },
        crate::hang_handler(r.property.clone()),
    );
    r.sample(sub, json!({"type": "Vec<String>", "value": "[\"\", \"a\"]", "len": 4}));

    // integer width tables, exhaustively
    {
        let sub = "integer-width-tables";
        let thorough = r.tier == Tier::Thorough;
        r.space(sub, true, if thorough { "u8 i8 u16 i16 char: all values; u32 i32: all 2^32; u64 i64 usize isize: lattice" } else { "u8 i8 u16 i16 char: all values; u32 i32 u64 i64: all < 2^17, mirrored negatives, and the lattice" }, 1);
        let shards = 64usize;
        mcx::par::run_shards(
            shards,
            |s| {
                let mut n = 0u64;
                macro_rules! one {
                    ($x:expr) => {{
                        let x = $x;
                        let l = minicbor::len(&x);
                        let mut buf = [0u8; 16];
                        let used = {
                            let mut sl: &mut [u8] = &mut buf[..];
                            minicbor::encode(&x, &mut sl).unwrap();
                            16 - sl.len()
                        };
                        n += 1;
                        if l != used {
                            r.fail(sub, None, json!({"type": std::any::type_name_of_val(&x), "value": format!("{:?}", x)}), format!("len() = {} but the encoder writes {} bytes", l, used));
                        }
                    }};
                }
                if s == 0 {
                    for x in 0..=u8::MAX {
                        one!(x);
                        one!(x as i8);
                    }
                    for x in 0..=u16::MAX {
                        one!(x);
                        one!(x as i16);
                    }
                    for c in (0..=0x10ffffu32).filter_map(char::from_u32) {
                        one!(c);
                    }
                    for x in enumerate::lattice64() {
                        one!(x);
                        one!(x as usize);
                        one!(x as i64);
                        one!(x as isize);
                        one!(x as u32);
                        one!(x as i32);
                    }
                }
                let (lo, hi) = if thorough {
                    let c = (1u64 << 32) / shards as u64;
                    (s as u64 * c, (s as u64 + 1) * c)
                } else {
                    let c = (1u64 << 17) / shards as u64;
                    (s as u64 * c, (s as u64 + 1) * c)
                };
                for x in lo..hi {
                    if x % (1 << 20) == 0 {
                        mcx::slot::beat();
                    }
                    one!(x as u32);
                    one!(x as u32 as i32);
                    if !thorough {
                        one!(x);
                        one!(-1 - x as i64);
                        one!(-1 - x as i32);
                    }
                }
                r.add(sub, n, n);
                r.outcome(sub, "checked", n);
            },
            crate::hang_handler(r.property.clone()),
        );
        r.sample(sub, json!({"type": "u32", "value": 65536, "len": 5}));
    }

    // tokens
    {
        let sub = "tokens";
        r.space(sub, true, "every Token variant with boundary payloads (64-bit lattice for integers, lengths and tags; all 256 simple values; string/bytes lengths 0,1,3,23,24,255,256,65536)", 1);
        let toks = tokens();
        let mut ok = 0u64;
        for t in &toks {
            let bytes = minicbor::to_vec(t).unwrap();
            let len = minicbor::len(t);
            if len != bytes.len() {
                let key = token_key(t, len, bytes.len());
                let shown = format!("{:?}", t);
                r.fail(sub, key.as_deref(), json!({"token": shown.chars().take(60).collect::<String>()}), format!("len() = {} but the encoder writes {} bytes", len, bytes.len()));
            } else {
                ok += 1;
            }
        }
        r.add(sub, toks.len() as u64, ok);
        r.outcome(sub, "tokens", toks.len() as u64);
        r.sample(sub, json!({"token": "Array(4294967296)", "len": 9}));
    }
}

pub fn run(r: &Report) {
    builtin(r);
    // Tag and IanaTag: the length of the bare tag head
    {
        let sub = "tags";
        r.space(sub, true, "every IanaTag variant and Tag over the 64-bit boundary lattice: len() equals the bytes written", 1);
        let mut n = 0u64;
        let mut ok = 0u64;
        for (t, num) in crate::c03::iana_tags() {
            n += 1;
            let written = minicbor::to_vec(t).map(|b| b.len()).unwrap_or(usize::MAX);
            if minicbor::len(t) == written {
                ok += 1;
            } else {
                r.fail(sub, None, json!({"type": "IanaTag", "value": format!("{:?}", t), "registered_number": num}), format!("len() = {} but the encoder writes {} bytes", minicbor::len(t), written));
            }
        }
        for num in refmodel::enumerate::lattice64() {
            n += 1;
            let t = minicbor::data::Tag::new(num);
            let written = minicbor::to_vec(t).map(|b| b.len()).unwrap_or(usize::MAX);
            if minicbor::len(t) == written {
                ok += 1;
            } else {
                r.fail(sub, None, json!({"type": "Tag", "value": num}), format!("len() = {} but the encoder writes {} bytes", minicbor::len(t), written));
            }
        }
        r.add(sub, n, ok);
        r.outcome(sub, "tags", n);
        r.sample(sub, json!({"type": "IanaTag", "value": "MultiDimArrayC", "len": 3}));
    }
    crate::derive_checks::c07(r);
}
