//! C02: decoding untrusted bytes is total: no panic, no hang, bounded memory, in bounds.
//!
//! Inputs: all byte strings up to a length bound, hostile heads, and every one-point
//! deviation (byte substitution, truncation, head-argument replacement) of valid encodings.
//! Every decoding entry point is started from every position of the state closure
//! {0..=len, len+1, usize::MAX}. Monitors: unwind, position bound, per-call peak
//! allocation, per-call input-access count (hook H2), drop ledger, watchdog.

use crate::types::*;
use mcx::{Report, Tier};
use minicbor::decode::{self, Decode, Decoder};
use minicbor::decode::info::Size;
use refmodel::enumerate::*;
use refmodel::*;
use serde_json::json;
use std::cell::RefCell;
use std::collections::{BTreeMap, HashSet};
use std::fmt::Write as _;

pub struct TOp {
    pub name: &'static str,
    pub run: Box<dyn Fn(&[u8], usize) -> Raw + Send + Sync>,
    /// size of the target type and of its largest growable element (for the allocation bound)
    pub size_of: usize,
    pub elem: usize,
    pub core: bool,
}

// ---- drop ledger ---------------------------------------------------------------------------

thread_local! {
    static LEDGER: RefCell<(u64, HashSet<u64>, bool)> = RefCell::new((0, HashSet::new(), false));
}

/// Element type that consumes one u8 and tracks its own lifetime.
pub struct Tracked(u64);

impl<'b, C> Decode<'b, C> for Tracked {
    fn decode(d: &mut Decoder<'b>, _: &mut C) -> Result<Self, decode::Error> {
        d.u8()?;
        Ok(LEDGER.with(|l| {
            let mut l = l.borrow_mut();
            l.0 += 1;
            let id = l.0;
            l.1.insert(id);
            Tracked(id)
        }))
    }
}

impl Drop for Tracked {
    fn drop(&mut self) {
        LEDGER.with(|l| {
            let mut l = l.borrow_mut();
            if !l.1.remove(&self.0) {
                l.2 = true;
            }
        })
    }
}

impl PartialEq for Tracked {
    fn eq(&self, o: &Self) -> bool {
        self.0 == o.0
    }
}
impl Eq for Tracked {}
impl PartialOrd for Tracked {
    fn partial_cmp(&self, o: &Self) -> Option<std::cmp::Ordering> {
        Some(self.cmp(o))
    }
}
impl Ord for Tracked {
    fn cmp(&self, o: &Self) -> std::cmp::Ordering {
        self.0.cmp(&o.0)
    }
}

fn tracked_as<T: for<'b> Decode<'b, ()>>(b: &[u8], p: usize) -> Raw {
    LEDGER.with(|l| {
        let mut l = l.borrow_mut();
        l.1.clear();
        l.2 = false;
    });
    let mut d = Decoder::new(b);
    d.set_position(p);
    let r = d.decode::<T>();
    let ok = r.is_ok();
    let mut anomaly = None;
    if r.is_err() {
        // every element decoded so far must have been dropped by now
        let (live, dbl) = LEDGER.with(|l| (l.borrow().1.len(), l.borrow().2));
        if live != 0 {
            anomaly = Some("elements decoded before the failure were leaked (not dropped)");
        }
        if dbl {
            anomaly = Some("an element was dropped twice");
        }
    }
    drop(r);
    let (live, dbl) = LEDGER.with(|l| (l.borrow().1.len(), l.borrow().2));
    if live != 0 && anomaly.is_none() {
        anomaly = Some("elements of a successfully decoded value were leaked when the value was dropped");
    }
    if dbl {
        anomaly = Some("an element was dropped twice");
    }
    Raw { ok, pos: d.position(), anomaly }
}

// ---- bounded fmt sink ----------------------------------------------------------------------

struct Bounded {
    written: usize,
    limit: usize,
}

impl std::fmt::Write for Bounded {
    fn write_str(&mut self, s: &str) -> std::fmt::Result {
        self.written += s.len();
        if self.written > self.limit {
            return Err(std::fmt::Error);
        }
        Ok(())
    }
}

pub fn display_bounded(b: &[u8]) -> (bool, usize) {
    let mut s = Bounded { written: 0, limit: 16 * b.len() + 512 };
    let r = write!(s, "{}", minicbor::display(b));
    (r.is_ok(), s.written)
}

macro_rules! top {
    ($v:ident, $name:expr, $core:expr, |$b:ident, $p:ident| $body:expr) => {
        $v.push(TOp { name: $name, run: Box::new(|$b: &[u8], $p: usize| $body), size_of: 16, elem: 8, core: $core })
    };
}

pub fn totality_ops() -> Vec<TOp> {
    let mut v: Vec<TOp> = Vec::new();
    // typed decode of every table type
    for e in type_table() {
        let core = matches!(e.name, "Vec<u8>" | "String" | "Option<u8>" | "Duration" | "[u8;3]" | "(u8,i8)" | "BTreeMap<u8,bool>" | "Vec<Option<Vec<u8>>>" | "SocketAddr" | "Tagged<1,Vec<Tagged<2,u8>>>");
        v.push(TOp { name: e.name, run: Box::new(e.raw), size_of: e.size_of, elem: e.elem_size, core });
    }
    // accessors
    for o in crate::ops::accessor_ops() {
        // run through the model-producing wrapper: results are small
        let f = o.run;
        v.push(TOp {
            name: o.name,
            run: Box::new(move |b, p| {
                let out = f(b, p);
                Raw { ok: out.res.is_ok(), pos: out.pos, anomaly: if out.borrowed_inside == Some(false) { Some("borrowed result outside the input") } else { None } }
            }),
            size_of: 16,
            elem: 64,
            core: false,
        });
    }
    top!(v, "skip()", true, |b, p| {
        let mut d = Decoder::new(b);
        d.set_position(p);
        let r = d.skip();
        Raw { ok: r.is_ok(), pos: d.position(), anomaly: None }
    });
    top!(v, "tokens()", true, |b, p| {
        let mut d = Decoder::new(b);
        d.set_position(p);
        let mut n = 0usize;
        let mut errs = 0usize;
        let mut after_err = false;
        let mut anomaly = None;
        {
            let mut it = d.tokens();
            loop {
                match it.next() {
                    None => break,
                    Some(Ok(_)) => {
                        n += 1;
                        if after_err {
                            anomaly = Some("a token was yielded after an error");
                        }
                    }
                    Some(Err(_)) => {
                        n += 1;
                        errs += 1;
                        after_err = true;
                    }
                }
                if n > b.len() + 1 {
                    anomaly = Some("tokenisation yields more items than there are input bytes");
                    break;
                }
            }
            if anomaly.is_none() && (it.next().is_some() || it.next().is_some()) {
                anomaly = Some("the token iterator resumed after returning None");
            }
        }
        if errs > 1 {
            anomaly = Some("more than one error was yielded");
        }
        Raw { ok: errs == 0, pos: d.position(), anomaly }
    });
    top!(v, "Tokenizer::new", false, |b, p| {
        let _ = p;
        let mut n = 0usize;
        let mut anomaly = None;
        let mut ok = true;
        for t in decode::Tokenizer::new(b) {
            n += 1;
            ok &= t.is_ok();
            if n > b.len() + 1 {
                anomaly = Some("tokenisation yields more items than there are input bytes");
                break;
            }
        }
        Raw { ok, pos: 0, anomaly }
    });
    top!(v, "display", true, |b, p| {
        let _ = p;
        let (ok, written) = display_bounded(b);
        let _ = written;
        Raw { ok: true, pos: 0, anomaly: if ok { None } else { Some("display output exceeds 16 x input length + 512 bytes") } }
    });
    top!(v, "probe().skip()", false, |b, p| {
        let mut d = Decoder::new(b);
        d.set_position(p);
        let ok = {
            let mut pr = d.probe();
            let r = pr.skip();
            let _ = pr.datatype();
            r.is_ok()
        };
        Raw { ok, pos: d.position(), anomaly: if d.position() != p { Some("operating on a probe moved the parent decoder") } else { None } }
    });
    top!(v, "probe().decode<Vec<u8>>", false, |b, p| {
        let mut d = Decoder::new(b);
        d.set_position(p);
        let ok = {
            let mut pr = d.probe();
            pr.decode::<Vec<u8>>().is_ok()
        };
        Raw { ok, pos: d.position(), anomaly: if d.position() != p { Some("operating on a probe moved the parent decoder") } else { None } }
    });
    top!(v, "Size::head+tail", false, |b, p| {
        let mut ok = false;
        if let Some(f) = b.get(p) {
            if let Ok(h) = Size::head(*f) {
                if p.checked_add(h).map(|e| e <= b.len()).unwrap_or(false) {
                    ok = Size::tail(&b[p..p + h]).is_ok();
                }
                // tail on a short head must not panic either
                let _ = Size::tail(&b[p..]);
            }
        }
        let _ = Size::tail(&[]);
        Raw { ok, pos: p, anomaly: None }
    });
    // iterators abandoned after k items: the decoder must stay usable
    macro_rules! abandon {
        ($name:expr, $k:expr, |$d:ident| $it:expr) => {
            top!(v, $name, false, |b, p| {
                let mut $d = Decoder::new(b);
                $d.set_position(p);
                let ok = match $it {
                    Ok(mut it) => {
                        let mut good = true;
                        for _ in 0..$k {
                            match it.next() {
                                Some(Ok(_)) => {}
                                Some(Err(_)) => {
                                    good = false;
                                    break;
                                }
                                None => break,
                            }
                        }
                        good
                    }
                    Err(_) => false,
                };
                // continue with other calls from wherever the iterator left the decoder
                let _ = $d.datatype();
                let _ = $d.skip();
                Raw { ok, pos: $d.position(), anomaly: None }
            })
        };
    }
    abandon!("array_iter<u8> abandoned after 0", 0, |d| d.array_iter::<u8>());
    abandon!("array_iter<u8> abandoned after 1", 1, |d| d.array_iter::<u8>());
    abandon!("array_iter<u8> abandoned after 2", 2, |d| d.array_iter::<u8>());
    abandon!("map_iter<u8,u8> abandoned after 1", 1, |d| d.map_iter::<u8, u8>());
    abandon!("bytes_iter abandoned after 1", 1, |d| d.bytes_iter());
    abandon!("str_iter abandoned after 1", 1, |d| d.str_iter());
    // drop ledger
    macro_rules! tracked {
        ($name:expr, $t:ty, $sz:expr) => {
            v.push(TOp { name: $name, run: Box::new(tracked_as::<$t>), size_of: std::mem::size_of::<$t>(), elem: $sz, core: false })
        };
    }
    tracked!("Vec<Tracked>", Vec<Tracked>, 8);
    tracked!("[Tracked;0]", [Tracked; 0], 8);
    tracked!("[Tracked;1]", [Tracked; 1], 8);
    tracked!("[Tracked;2]", [Tracked; 2], 8);
    tracked!("[Tracked;3]", [Tracked; 3], 8);
    tracked!("[Tracked;4]", [Tracked; 4], 8);
    tracked!("(Tracked,Tracked)", (Tracked, Tracked), 8);
    tracked!("(Tracked,u8,Tracked)", (Tracked, u8, Tracked), 8);
    tracked!("BTreeMap<u8,Tracked>", BTreeMap<u8, Tracked>, 24);
    tracked!("BTreeSet<Tracked>", std::collections::BTreeSet<Tracked>, 24);
    tracked!("Result<Tracked,Tracked>", Result<Tracked, Tracked>, 8);
    tracked!("Option<Tracked>", Option<Tracked>, 8);
    tracked!("[Vec<Tracked>;2]", [Vec<Tracked>; 2], 24);
    tracked!("Range<Tracked>", std::ops::Range<Tracked>, 8);
    tracked!("VecDeque<Tracked>", std::collections::VecDeque<Tracked>, 8);
    tracked!("LinkedList<Tracked>", std::collections::LinkedList<Tracked>, 24);
    tracked!("BinaryHeap<Tracked>", std::collections::BinaryHeap<Tracked>, 8);
    v
}

struct Tally {
    calls: u64,
    ok: u64,
    max_alloc: usize,
    max_steps: u64,
}

/// Run one monitored call.
#[inline]
fn monitored(r: &Report, sub: &str, op: &TOp, input: &[u8], pos: usize, t: &mut Tally) {
    mcx::slot::case(op.name, input);
    minicbor::decode::verif::reset();
    let (res, peak) = mcx::alloc::measured(|| mcx::par::guard(|| (op.run)(input, pos)));
    let steps = minicbor::decode::verif::steps();
    t.calls += 1;
    t.max_alloc = t.max_alloc.max(peak);
    t.max_steps = t.max_steps.max(steps);
    let len = input.len();
    let case = || json!({"op": op.name, "input_hex": hex(&input[..len.min(96)]), "input_len": len, "start_position": if pos == usize::MAX { "usize::MAX".to_string() } else { pos.to_string() }});
    match res {
        Err(p) => {
            let key = if op.name == "Duration" || op.name == "SystemTime" { Some("duration-overflow-panic") } else { None };
            r.fail(sub, key.filter(|_| p.contains("overflow")), case(), format!("panicked: {}", p))
        }
        Ok(raw) => {
            if raw.ok {
                t.ok += 1;
            }
            if let Some(a) = raw.anomaly {
                r.fail(sub, None, case(), a);
            }
            if raw.pos > len.max(pos) {
                r.fail(sub, None, case(), format!("the call moved the position to {}, beyond the input ({} bytes)", raw.pos, len));
            }
            let bound = 4096 + 2 * op.size_of + 64 * ((op.elem + 7) / 8) * len;
            if peak > bound {
                r.fail(sub, None, case(), format!("the call allocated {} bytes for {} input bytes (bound {} = 4096 + 2*size_of + 64*ceil(elem/8)*len)", peak, len, bound));
            }
            let sbound = 8 * len as u64 + 64;
            if steps > sbound {
                r.fail(sub, None, case(), format!("the call made {} input accesses for {} input bytes (bound 8*len+64)", steps, len));
            }
        }
    }
}

fn positions(len: usize) -> Vec<usize> {
    let mut v: Vec<usize> = (0..=len + 1).collect();
    v.push(usize::MAX);
    v
}

pub fn run(r: &Report) {
    let thorough = r.tier == Tier::Thorough;
    let ops = totality_ops();
    let core: Vec<&TOp> = ops.iter().filter(|o| o.core).collect();
    r.note("entry_points", json!(ops.len()));
    r.note("core_entry_points", json!(core.iter().map(|o| o.name).collect::<Vec<_>>()));

    // (a) all byte strings
    {
        let sub = "a-all-byte-strings";
        let (all_len, core_len) = if thorough { (2usize, 4usize) } else { (2usize, 3usize) };
        r.space(sub, true, &format!("all byte strings of length <= {} x {} entry points x every start position in {{0..=len+1, usize::MAX}}; all byte strings of length {}..={} x {} core entry points from position 0", all_len, ops.len(), all_len + 1, core_len, core.len()), 2);
        let shards = 256usize;
        mcx::par::run_shards(
            shards,
            |s| {
                let mut t = Tally { calls: 0, ok: 0, max_alloc: 0, max_steps: 0 };
                let mut inputs = 0u64;
                for n in 0..=all_len {
                    for_each_bytes(n, if n == 0 { if s == 0 { 0..1 } else { 0..0 } } else { s..s + 1 }, |b| {
                        inputs += 1;
                        for op in &ops {
                            for p in positions(b.len()) {
                                monitored(r, sub, op, b, p, &mut t);
                            }
                        }
                    });
                }
                for n in all_len + 1..=core_len {
                    for_each_bytes(n, s..s + 1, |b| {
                        inputs += 1;
                        for op in &core {
                            monitored(r, sub, op, b, 0, &mut t);
                        }
                    });
                }
                r.add(sub, t.calls, t.ok);
                r.add_states(sub, inputs, t.calls);
                r.outcome(sub, "Ok", t.ok);
                r.outcome(sub, "Err", t.calls - t.ok);
                r.note(&format!("a_shard_{}_max", s % 4), json!({"alloc": t.max_alloc, "steps": t.max_steps}));
            },
            crate::hang_handler(r.property.clone()),
        );
        r.sample(sub, json!({"input_hex": "9b00", "op": "Vec<u8>", "start_position": 0}));
    }

    // (e) pairs of calls on one decoder: the state closure above rests on "a decoder is (input, position)"
    {
        let sub = "e-call-pairs";
        type DOp = (&'static str, fn(&mut Decoder) -> bool);
        let dops: Vec<DOp> = vec![
            ("u8", |d| d.u8().is_ok()),
            ("i64", |d| d.i64().is_ok()),
            ("int", |d| d.int().is_ok()),
            ("f32", |d| d.f32().is_ok()),
            ("f64", |d| d.f64().is_ok()),
            ("bool", |d| d.bool().is_ok()),
            ("null", |d| d.null().is_ok()),
            ("simple", |d| d.simple().is_ok()),
            ("char", |d| d.char().is_ok()),
            ("bytes", |d| d.bytes().is_ok()),
            ("str", |d| d.str().is_ok()),
            ("array", |d| d.array().is_ok()),
            ("map", |d| d.map().is_ok()),
            ("tag", |d| d.tag().is_ok()),
            ("datatype", |d| d.datatype().is_ok()),
            ("skip", |d| d.skip().is_ok()),
            ("probe+skip", |d| d.probe().skip().is_ok()),
            ("tokens-first", |d| d.tokens().next().map(|t| t.is_ok()).unwrap_or(false)),
            ("bytes_iter-first", |d| d.bytes_iter().map(|mut i| i.next().map(|c| c.is_ok()).unwrap_or(true)).unwrap_or(false)),
            ("str_iter-all", |d| d.str_iter().map(|i| i.take(8).all(|c| c.is_ok())).unwrap_or(false)),
            ("array_iter<u8>-first", |d| d.array_iter::<u8>().map(|mut i| i.next().map(|c| c.is_ok()).unwrap_or(true)).unwrap_or(false)),
            ("map_iter<u8,u8>-first", |d| d.map_iter::<u8, u8>().map(|mut i| i.next().map(|c| c.is_ok()).unwrap_or(true)).unwrap_or(false)),
            ("decode<Option<u8>>", |d| d.decode::<Option<u8>>().is_ok()),
            ("decode<Vec<u8>>", |d| d.decode::<Vec<u8>>().is_ok()),
            ("decode<(u8,u8)>", |d| d.decode::<(u8, u8)>().is_ok()),
            ("decode<String>", |d| d.decode::<String>().is_ok()),
        ];
        let maxlen = if thorough { 3usize } else { 2usize };
        r.space(sub, true, &format!("all byte strings of length <= {} x all ordered pairs of {} calls on ONE decoder: the second call must behave exactly (Ok/Err, end position) as the same call on a fresh decoder set to the position the first call left - no hidden state, probe() leaves the parent untouched", maxlen, dops.len()), 2);
        let shards = 256usize;
        mcx::par::run_shards(
            shards,
            |s| {
                let mut calls = 0u64;
                let mut agree = 0u64;
                let mut oks = 0u64;
                for n in 0..=maxlen {
                    for_each_bytes(n, if n == 0 { if s == 0 { 0..1 } else { 0..0 } } else { s..s + 1 }, |b| {
                        mcx::slot::case("call-pair", b);
                        for (n1, f1) in &dops {
                            let first = mcx::par::guard(|| {
                                let mut d = Decoder::new(b);
                                let ok1 = f1(&mut d);
                                (ok1, d.position())
                            });
                            let (_, p1) = match first {
                                Ok(x) => x,
                                Err(p) => {
                                    r.fail(sub, None, json!({"input_hex": hex(b), "first": n1}), format!("panicked: {}", p));
                                    continue;
                                }
                            };
                            for (n2, f2) in &dops {
                                calls += 1;
                                let seq = mcx::par::guard(|| {
                                    let mut d = Decoder::new(b);
                                    let _ = f1(&mut d);
                                    let ok2 = f2(&mut d);
                                    (ok2, d.position())
                                });
                                let fresh = mcx::par::guard(|| {
                                    let mut d = Decoder::new(b);
                                    d.set_position(p1);
                                    let ok2 = f2(&mut d);
                                    (ok2, d.position())
                                });
                                match (seq, fresh) {
                                    (Ok(a), Ok(c)) if a == c => {
                                        agree += 1;
                                        if a.0 {
                                            oks += 1;
                                        }
                                    }
                                    (a, c) => r.fail(sub, None, json!({"input_hex": hex(b), "first": n1, "second": n2, "position_after_first": p1}), format!("after {} the call {} gave (ok, position) = {:?}; on a fresh decoder at position {} it gives {:?}", n1, n2, a, p1, c)),
                                }
                            }
                        }
                    });
                }
                r.add(sub, calls, agree);
                r.add_states(sub, calls, calls * 2);
                r.outcome(sub, "second call Ok", oks);
                r.outcome(sub, "second call Err", agree - oks);
            },
            crate::hang_handler(r.property.clone()),
        );
        r.sample(sub, json!({"input_hex": "8201", "first": "array", "second": "u8"}));
    }

    // (b) hostile heads
    {
        let sub = "b-hostile-heads";
        let hs = hostile_heads();
        r.space(sub, true, &format!("{} inputs: all 256 initial bytes x every argument width x boundary arguments (0,1,23,24,255,256,65535,65536,2^31-1,2^31,2^32-1,2^32,2^63-1,2^63,2^64-1, bytes remaining +-1) x 9 fillers; x all entry points x positions {{0, 1}}", hs.len()), 2);
        let shards = 256usize;
        mcx::par::run_shards(
            shards,
            |s| {
                let mut t = Tally { calls: 0, ok: 0, max_alloc: 0, max_steps: 0 };
                let mut i = s;
                let mut inputs = 0u64;
                while i < hs.len() {
                    inputs += 1;
                    for op in &ops {
                        monitored(r, sub, op, &hs[i], 0, &mut t);
                        monitored(r, sub, op, &hs[i], 1, &mut t);
                    }
                    i += shards;
                }
                r.add(sub, t.calls, t.ok);
                r.add_states(sub, inputs, t.calls);
                r.outcome(sub, "Ok", t.ok);
                r.outcome(sub, "Err", t.calls - t.ok);
            },
            crate::hang_handler(r.property.clone()),
        );
        r.sample(sub, json!({"input_hex": "5bffffffffffffffff6161", "op": "skip()"}));
    }

    // (c) deviations of valid encodings
    {
        let sub = "c-mutated-valid-encodings";
        r.space(
            sub,
            true,
            "for every table type and every small-domain value with an encoding <= 40 bytes: every single-byte substitution (all positions x 256 values), every truncation, every head-argument replacement (each position x widths 0/1/2/4/8 x 18 boundary arguments); decoded as that type and through skip / tokens / display",
            2,
        );
        let table = type_table();
        let by_name: std::collections::HashMap<&str, &TOp> = ops.iter().map(|o| (o.name, o)).collect();
        let generic: Vec<&TOp> = ["skip()", "tokens()", "display"].iter().map(|n| by_name[n]).collect();
        let args: [u64; 18] = [0, 1, 23, 24, 255, 256, 65535, 65536, 0x7fff_ffff, 0x8000_0000, 0xffff_ffff, 0x1_0000_0000, 0x7fff_ffff_ffff_ffff, 0x8000_0000_0000_0000, u64::MAX, 999_999_999, 1_000_000_000, 0x3b9a_caff];
        mcx::par::run_shards(
            table.len(),
            |i| {
                let e = &table[i];
                let own = by_name[e.name];
                let mut t = Tally { calls: 0, ok: 0, max_alloc: 0, max_steps: 0 };
                let mut inputs = 0u64;
                let mut seen: HashSet<Vec<u8>> = HashSet::new();
                for v in (e.values)() {
                    let enc = match v.to_vec() {
                        Ok(b) if b.len() <= 40 => b,
                        _ => continue,
                    };
                    let mut variants: Vec<Vec<u8>> = Vec::new();
                    for k in 0..enc.len() {
                        variants.push(enc[..k].to_vec());
                        for x in 0..=255u8 {
                            if x != enc[k] {
                                let mut m = enc.clone();
                                m[k] = x;
                                variants.push(m);
                            }
                        }
                        // treat byte k as a head and replace its argument
                        let old_extra = match enc[k] & 31 {
                            24 => 1,
                            25 => 2,
                            26 => 4,
                            27 => 8,
                            _ => 0,
                        };
                        if k + 1 + old_extra <= enc.len() {
                            for a in args {
                                for (ai, w) in [(24u8, 1usize), (25, 2), (26, 4), (27, 8)] {
                                    let mut m = enc[..k].to_vec();
                                    m.push((enc[k] & 0xe0) | ai);
                                    m.extend_from_slice(&a.to_be_bytes()[8 - w..]);
                                    m.extend_from_slice(&enc[k + 1 + old_extra..]);
                                    variants.push(m);
                                }
                                if a < 24 {
                                    let mut m = enc[..k].to_vec();
                                    m.push((enc[k] & 0xe0) | a as u8);
                                    m.extend_from_slice(&enc[k + 1 + old_extra..]);
                                    variants.push(m);
                                }
                            }
                        }
                    }
                    for m in variants {
                        if !seen.insert(m.clone()) {
                            continue;
                        }
                        inputs += 1;
                        monitored(r, sub, own, &m, 0, &mut t);
                        for g in &generic {
                            monitored(r, sub, g, &m, 0, &mut t);
                        }
                    }
                }
                r.add(sub, t.calls, t.ok);
                r.add_states(sub, inputs, t.calls);
                r.outcome(sub, "Ok", t.ok);
                r.outcome(sub, "Err", t.calls - t.ok);
                if i % 29 == 0 {
                    r.sample(sub, json!({"type": e.name, "mutated_inputs": inputs}));
                }
            },
            crate::hang_handler(r.property.clone()),
        );
    }

    // (f) pairs of extreme field values, and containers with more elements than an 8- / 16-bit counter holds
    {
        let sub = "f-extreme-fields-long-containers";
        let firsts: [u64; 15] = [0, 1, 0x7fff_ffff, 0x8000_0000, 0xffff_ffff, 0x1_0000_0000, 1 << 53, 0x7fff_ffff_ffff_ffff, 0x8000_0000_0000_0000, u64::MAX - 5, u64::MAX - 4, u64::MAX - 3, u64::MAX - 2, u64::MAX - 1, u64::MAX];
        let seconds: [u64; 12] = [0, 999_999_999, 1_000_000_000, 1_999_999_999, 2_000_000_000, 2_999_999_999, 3_000_000_000, 4_000_000_000, 0xffff_ffff, 0x1_0000_0000, 0x7fff_ffff_ffff_ffff, u64::MAX];
        let mut inputs: Vec<Vec<u8>> = Vec::new();
        for a in firsts {
            for b in seconds {
                for (ma, mb) in [(0u8, 0u8), (1, 0), (0, 1)] {
                    let ha = refmodel::preferred_head(ma, a);
                    let hb = refmodel::preferred_head(mb, b);
                    for extra in 0..=2usize {
                        // [a, b], [a, b, 0], [a, b, 0, 0] - definite and indefinite
                        let mut body = ha.clone();
                        body.extend_from_slice(&hb);
                        body.extend(std::iter::repeat(0u8).take(extra));
                        let mut d = vec![0x82 + extra as u8];
                        d.extend_from_slice(&body);
                        inputs.push(d);
                        let mut i = vec![0x9f];
                        i.extend_from_slice(&body);
                        i.push(0xff);
                        inputs.push(i);
                    }
                }
            }
        }
        let pairs = inputs.len();
        for n in [255usize, 256, 257, 65535, 65536, 65537] {
            let zeros: Vec<u8> = vec![0u8; n];
            let mut d = refmodel::preferred_head(4, n as u64);
            d.extend_from_slice(&zeros);
            inputs.push(d);
            let mut i = vec![0x9f];
            i.extend_from_slice(&zeros);
            i.push(0xff);
            inputs.push(i.clone());
            i.pop();
            inputs.push(i); // not closed
            let mut m = refmodel::preferred_head(5, n as u64);
            m.extend(std::iter::repeat([0x00u8, 0x00]).take(n).flatten());
            inputs.push(m);
            let mut m = vec![0xbf];
            m.extend((0..n).flat_map(|k| [0x18u8, (k % 256) as u8, 0x00]));
            m.push(0xff);
            inputs.push(m);
            for (open, chunk) in [(0x5fu8, 0x41u8), (0x7f, 0x61)] {
                let mut c = vec![open];
                c.extend(std::iter::repeat([chunk, b'x']).take(n).flatten());
                c.push(0xff);
                inputs.push(c);
            }
            let mut t: Vec<u8> = vec![0xc1; n];
            t.push(0x00);
            inputs.push(t);
        }
        r.space(sub, true, &format!("{} inputs [a, b(, 0(, 0))] (definite and indefinite) over 15 x 12 extreme values of a and b in both signs, and {} containers / chunked strings / tag chains of n in {{255, 256, 257, 65535, 65536, 65537}} elements; x all entry points at position 0", pairs, inputs.len() - pairs), 1);
        mcx::par::run_shards(
            256usize.min(inputs.len()),
            |s| {
                let mut t = Tally { calls: 0, ok: 0, max_alloc: 0, max_steps: 0 };
                let mut i = s;
                let mut n = 0u64;
                while i < inputs.len() {
                    n += 1;
                    for op in &ops {
                        monitored(r, sub, op, &inputs[i], 0, &mut t);
                    }
                    i += 256usize.min(inputs.len());
                }
                r.add(sub, t.calls, t.ok);
                r.add_states(sub, n, t.calls);
                r.outcome(sub, "Ok", t.ok);
                r.outcome(sub, "Err", t.calls - t.ok);
            },
            crate::hang_handler(r.property.clone()),
        );
        r.sample(sub, json!({"input_hex": "821bfffffffffffffffe1a77359400", "op": "Duration", "note": "secs = u64::MAX - 1, nanos = 2e9: a carry of two seconds"}));
    }

    // (d) deviations of well-formed trees through every entry point
    {
        let sub = "d-mutated-trees";
        let nodes = if thorough { 4 } else { 3 };
        r.space(sub, true, &format!("all item trees <= {} nodes (12-leaf alphabet): every truncation and every single-byte substitution from {{00,17,18,1b,3b,5f,7f,80,9f,bf,c0,f8,f9,ff}} x all entry points", nodes), 2);
        let trees = trees_up_to(nodes, &Alphabet::full());
        let subs: [u8; 14] = [0x00, 0x17, 0x18, 0x1b, 0x3b, 0x5f, 0x7f, 0x80, 0x9f, 0xbf, 0xc0, 0xf8, 0xf9, 0xff];
        let shards = 512usize.min(trees.len());
        mcx::par::run_shards(
            shards,
            |s| {
                let mut t = Tally { calls: 0, ok: 0, max_alloc: 0, max_steps: 0 };
                let mut inputs = 0u64;
                let mut i = s;
                while i < trees.len() {
                    let enc = trees[i].to_bytes();
                    let mut variants: Vec<Vec<u8>> = vec![enc.clone()];
                    for k in 0..enc.len() {
                        variants.push(enc[..k].to_vec());
                        for x in subs {
                            if x != enc[k] {
                                let mut m = enc.clone();
                                m[k] = x;
                                variants.push(m);
                            }
                        }
                    }
                    for m in variants {
                        inputs += 1;
                        for op in &ops {
                            monitored(r, sub, op, &m, 0, &mut t);
                        }
                    }
                    i += shards;
                }
                r.add(sub, t.calls, t.ok);
                r.add_states(sub, inputs, t.calls);
                r.outcome(sub, "Ok", t.ok);
                r.outcome(sub, "Err", t.calls - t.ok);
            },
            crate::hang_handler(r.property.clone()),
        );
        r.sample(sub, json!({"tree": trees[trees.len() / 2].diag(), "encoding_hex": hex(&trees[trees.len() / 2].to_bytes())}));
    }
    r.assume("'position at most the input length' is read as: no decoding call moves the position beyond max(input length, position before the call); set_position itself may be given any value");
    r.assume("allocation bound per call: 4096 + 2*size_of::<T>() + 64*ceil(size_of::<Elem>()/8) bytes per input byte; work bound per call: 8*len+64 input accesses (hook H2)");
}
