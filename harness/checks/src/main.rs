//! `mc`: one subcommand per property. Usage: mc <ID> --tier quick|thorough [--replay FILE]

use mcx::{Report, Tier};
use serde_json::json;

mod io_common;
mod types;
mod ops;
mod c01;
mod c02;
mod c03;
pub mod c04;
mod c05;
mod c11;
pub mod c06;
mod c07;
mod derive_checks;
mod serde_checks;
mod c12;
mod c13;
mod c14;
mod c15;
mod c16;
mod c19;
mod c20;

#[global_allocator]
static GLOBAL: mcx::alloc::Counting = mcx::alloc::Counting;

/// Watchdog verdict: one case made no progress for the configured time.
pub fn hang_handler(prop: String) -> impl Fn(&'static str, Vec<u8>, usize) + Send + Sync + 'static {
    move |op, input, full_len| {
        let dir = std::env::var("VERIF_DIR").unwrap_or_else(|_| "/verif".to_string());
        let path = format!("{}/replays/{}-hang.json", dir, prop);
        let _ = std::fs::create_dir_all(format!("{}/replays", dir));
        let v = json!({"property": prop, "sub": "hang", "op": op, "input_hex": refmodel::hex(&input), "input_text": String::from_utf8_lossy(&input), "input_len": full_len,
            "detail": format!("no progress for {} s on one case", mcx::par::hang_secs())});
        let _ = std::fs::write(&path, v.to_string());
        println!("hang: op={} input={} ({} bytes)", op, refmodel::hex(&input), full_len);
        println!("VIOLATION property={} replay={}", prop, path);
    }
}

fn main() {
    let args: Vec<String> = std::env::args().collect();
    if args.len() < 2 {
        eprintln!("usage: mc <ID> --tier quick|thorough [--replay FILE]");
        std::process::exit(2);
    }
    let id = args[1].to_uppercase();
    let mut tier = match std::env::var("VERIF_TIER").ok().as_deref() {
        Some("thorough") => Tier::Thorough,
        _ => Tier::Quick,
    };
    let mut replay: Option<String> = None;
    let mut i = 2;
    while i < args.len() {
        match args[i].as_str() {
            "--tier" => {
                i += 1;
                tier = match args.get(i).map(|s| s.as_str()) {
                    Some("quick") => Tier::Quick,
                    Some("thorough") => Tier::Thorough,
                    other => {
                        eprintln!("bad tier {:?}", other);
                        std::process::exit(2)
                    }
                };
            }
            "--replay" => {
                i += 1;
                replay = args.get(i).cloned();
            }
            other => {
                eprintln!("unknown argument {}", other);
                std::process::exit(2)
            }
        }
        i += 1;
    }
    mcx::par::quiet_panics();
    if let Some(path) = replay {
        let txt = std::fs::read_to_string(&path).unwrap_or_else(|e| {
            eprintln!("cannot read {}: {}", path, e);
            std::process::exit(2)
        });
        let v: serde_json::Value = serde_json::from_str(&txt).unwrap_or_else(|e| {
            eprintln!("cannot parse {}: {}", path, e);
            std::process::exit(2)
        });
        println!("replaying {} sub={} case={}", id, v["sub"], v["case"]);
        let res = match id.as_str() {
            "C14" => c14::replay_case(&v["case"]),
            "C15" => c15::replay_case(&v["case"]),
            "C16" => c16::replay_case(&v["case"]),
            _ => {
                eprintln!("no single-case replay for {}; re-run the check, the case is described in the replay file", id);
                std::process::exit(2)
            }
        };
        match res {
            Ok(()) => {
                println!("replay: property holds on this case");
                std::process::exit(0)
            }
            Err(e) => {
                println!("replay: {}", e);
                println!("VIOLATION property={} replay={}", id, path);
                std::process::exit(1)
            }
        }
    }
    let r = Report::new(&id, tier);
    let run = std::panic::catch_unwind(std::panic::AssertUnwindSafe(|| dispatch(&id, &r)));
    if run.is_err() {
        // A panic outside `guard`: the harness tripped over the subject (an encoder that failed or
        // panicked, an unwrap on a result the unchanged tree always produces). Reported as a verdict
        // with the current case; the unchanged tree never gets here.
        let dir = std::env::var("VERIF_DIR").unwrap_or_else(|_| "/verif".to_string());
        let path = format!("{}/replays/{}-panic.json", dir, id);
        let _ = std::fs::create_dir_all(format!("{}/replays", dir));
        let lp = mcx::par::LAST_PANIC.lock().unwrap_or_else(|e| e.into_inner()).clone();
        let (msg, op, input, len) = lp.unwrap_or_default();
        let v = json!({"property": id, "sub": "uncaught-panic", "case": {"op": op, "input_hex": refmodel::hex(&input), "input_len": len}, "detail": msg});
        let _ = std::fs::write(&path, v.to_string());
        r.fail("uncaught-panic", None, v["case"].clone(), format!("panic while exercising the subject: {}", msg));
        std::process::exit(r.finish().max(1));
    }
    std::process::exit(r.finish());
}

fn dispatch(id: &str, r: &Report) {
    match id {
        "C01" => c01::run(r),
        "C02" => c02::run(r),
        "C03" => c03::run(r),
        "C04" => c04::run(r),
        "C05" => c05::run(r),
        "C06" => c06::run(r),
        "C07" => c07::run(r),
        "C08" => derive_checks::c08(r),
        "C09" => derive_checks::c09(r),
        "C10" => derive_checks::c10(r),
        "C11" => c11::run(r),
        "C12" => c12::run(r),
        "C13" => c13::run(r),
        "C14" => c14::run(r),
        "C15" => c15::run(r),
        "C16" => c16::run(r),
        "C17" => serde_checks::c17(r),
        "C18" => serde_checks::c18(r),
        "C19" => c19::run(r),
        "C20" => c20::run(r),
        _ => {
            eprintln!("unknown property {}", id);
            std::process::exit(2)
        }
    }
}
