//! C06: skip() consumes exactly one data item, whatever its nesting.

use mcx::{Report, Tier};
use minicbor::data::Type;
use minicbor::decode::Error;
use minicbor::Decoder;
use refmodel::enumerate::*;
use refmodel::*;
use serde_json::json;

/// A generic decoder written only with the public typed accessors: consumes one item.
pub fn walk(d: &mut Decoder<'_>) -> Result<(), Error> {
    match d.datatype()? {
        Type::Bool => d.bool().map(|_| ()),
        Type::Null => d.null(),
        Type::Undefined => d.undefined(),
        Type::U8 | Type::U16 | Type::U32 | Type::U64 => d.u64().map(|_| ()),
        Type::I8 | Type::I16 | Type::I32 | Type::I64 | Type::Int => d.int().map(|_| ()),
        Type::F16 => d.f16().map(|_| ()),
        Type::F32 => d.f32().map(|_| ()),
        Type::F64 => d.f64().map(|_| ()),
        Type::Simple => d.simple().map(|_| ()),
        Type::Bytes | Type::BytesIndef => {
            for c in d.bytes_iter()? {
                c?;
            }
            Ok(())
        }
        Type::String | Type::StringIndef => {
            for c in d.str_iter()? {
                c?;
            }
            Ok(())
        }
        Type::Array | Type::ArrayIndef => match d.array()? {
            Some(n) => {
                for _ in 0..n {
                    walk(d)?
                }
                Ok(())
            }
            None => {
                while d.datatype()? != Type::Break {
                    walk(d)?
                }
                d.set_position(d.position() + 1);
                Ok(())
            }
        },
        Type::Map | Type::MapIndef => match d.map()? {
            Some(n) => {
                for _ in 0..n {
                    walk(d)?;
                    walk(d)?
                }
                Ok(())
            }
            None => {
                while d.datatype()? != Type::Break {
                    walk(d)?;
                    walk(d)?
                }
                d.set_position(d.position() + 1);
                Ok(())
            }
        },
        Type::Tag => {
            d.tag()?;
            walk(d)
        }
        Type::Break | Type::Unknown(_) => Err(Error::message("not an item")),
    }
}

const SUFFIXES: [&[u8]; 6] = [&[], &[0x00], &[0xff], &[0xff, 0xff], &[0x9f], &[0x82]];

fn check_tree(r: &Report, sub: &str, item: &Item, with_walk: bool) -> (u64, u64) {
    let enc = item.to_bytes();
    let mut evals = 0u64;
    let mut buf = Vec::with_capacity(enc.len() + 2);
    for suf in SUFFIXES {
        buf.clear();
        buf.extend_from_slice(&enc);
        buf.extend_from_slice(suf);
        mcx::slot::case("skip", &buf);
        let mut d = Decoder::new(&buf);
        let res = mcx::par::guard(|| d.skip().map_err(|e| e.to_string()));
        evals += 1;
        match res {
            Ok(Ok(())) if d.position() == enc.len() => {}
            other => {
                r.fail(sub, None, json!({"item": item.diag(), "input_hex": hex(&buf), "item_len": enc.len()}), format!("skip() returned {:?} with position {}, the item ends at {}", other, d.position(), enc.len()));
                continue;
            }
        }
        if with_walk {
            let mut d2 = Decoder::new(&buf);
            let w = walk(&mut d2);
            evals += 1;
            if w.is_err() || d2.position() != enc.len() {
                r.fail(sub, None, json!({"item": item.diag(), "input_hex": hex(&buf)}), format!("full decoding with the typed accessors ended at {} ({:?}) but skip() and the reference say {}", d2.position(), w.map_err(|e| e.to_string()), enc.len()));
            }
        }
    }
    // the item in the middle of the input, skipped on the decoder itself and through a probe of it (the probe ends
    // at the same absolute position and leaves its parent in place)
    if item.nodes() <= 4 {
        buf.clear();
        buf.extend_from_slice(&[0x82, 0x01, 0x61]);
        buf.extend_from_slice(&enc);
        buf.push(0xff);
        mcx::slot::case("skip-mid-stream", &buf);
        let res = mcx::par::guard(|| {
            let mut d = Decoder::new(&buf);
            d.set_position(3);
            let (pr, pp) = {
                let mut p = d.probe();
                let r = p.skip().map_err(|e| e.to_string());
                (r, p.position())
            };
            let parent_after_probe = d.position();
            let r = d.skip().map_err(|e| e.to_string());
            (pr, pp, parent_after_probe, r, d.position())
        });
        evals += 2;
        let want = 3 + enc.len();
        match res {
            Ok((Ok(()), pp, 3, Ok(()), dp)) if pp == want && dp == want => {}
            other => r.fail(sub, None, json!({"item": item.diag(), "input_hex": hex(&buf), "start": 3}), format!("skip() from position 3: (probe result, probe position, parent position after the probe, result, position) = {:?}; the item ends at {}", other, want)),
        }
    }
    // every strict prefix is an error
    for k in 0..enc.len() {
        let mut d = Decoder::new(&enc[..k]);
        let res = mcx::par::guard(|| d.skip().is_ok());
        evals += 1;
        if res != Ok(false) {
            r.fail(sub, None, json!({"item": item.diag(), "input_hex": hex(&enc[..k]), "prefix_of": hex(&enc)}), format!("skip() on a strict prefix returned {:?} (position {})", res, d.position()));
        }
    }
    (evals, 1)
}

/// Deep periodic nestings, closed correctly. Returns (bytes, description).
fn deep_patterns(depth: usize) -> Vec<(Vec<u8>, String)> {
    // openers: definite array(1), indefinite array, definite map(1) with key 0, indefinite map with key 0, tag(1)
    let openers: [(&[u8], bool, &str); 5] = [(&[0x81], false, "["), (&[0x9f], true, "[_"), (&[0xa1, 0x00], false, "{"), (&[0xbf, 0x00], true, "{_"), (&[0xc1], false, "tag")];
    let mut pats: Vec<Vec<usize>> = Vec::new();
    for a in 0..5 {
        pats.push(vec![a]);
        for b in 0..5 {
            pats.push(vec![a, b]);
            for c in 0..5 {
                pats.push(vec![a, b, c]);
            }
        }
    }
    let mut out = Vec::new();
    for p in pats {
        let mut bytes = Vec::new();
        let mut closers = Vec::new();
        for i in 0..depth {
            let (o, indef, _) = openers[p[i % p.len()]];
            bytes.extend_from_slice(o);
            closers.push(indef);
        }
        bytes.push(0x00);
        for indef in closers.iter().rev() {
            if *indef {
                bytes.push(0xff);
            }
        }
        let desc = format!("period {:?} x depth {}", p.iter().map(|i| openers[*i].2).collect::<Vec<_>>(), depth);
        out.push((bytes, desc));
    }
    out
}

pub fn run(r: &Report) {
    let thorough = r.tier == Tier::Thorough;
    let sub = "trees";
    let max_nodes = if thorough { 6 } else { 6 };
    let alpha = Alphabet::structural();
    r.space(sub, true, &format!("all item trees with <= {} nodes over the structural alphabet (5 leaves, definite/indefinite arrays and maps, tag, chunked strings) x 6 suffixes, plus every strict prefix", max_nodes), 1);
    let by_size = trees_by_size(max_nodes, &alpha);
    let all: Vec<&Item> = by_size.iter().flatten().collect();
    let shards = 512usize.min(all.len().max(1));
    mcx::par::run_shards(
        shards,
        |s| {
            let mut evals = 0u64;
            let mut trees = 0u64;
            let mut i = s;
            while i < all.len() {
                let (e, t) = check_tree(r, sub, all[i], true);
                evals += e;
                trees += t;
                i += shards;
            }
            r.add(sub, evals, trees);
            r.add_states(sub, trees, evals);
        },
        crate::hang_handler(r.property.clone()),
    );
    for (n, l) in by_size.iter().enumerate() {
        r.outcome(sub, &format!("{}-node trees", n), l.len() as u64);
    }
    r.sample(sub, json!({"item": all[all.len() / 2].diag(), "input_hex": hex(&all[all.len() / 2].to_bytes())}));
    r.sample(sub, json!({"item": all[all.len() - 1].diag(), "input_hex": hex(&all[all.len() - 1].to_bytes())}));

    // every leaf head form in every small context
    {
        let sub = "leaf-forms";
        let forms = Alphabet::leaf_forms();
        r.space(sub, true, &format!("all item trees with <= 4 nodes over the leaf-form alphabet ({} leaves: integers and definite strings at all 5 argument widths, one- and two-byte simple values, f16/f32/f64) x 6 suffixes, plus every strict prefix", forms.leaves.len()), 1);
        let small: Vec<Item> = trees_up_to(4, &forms);
        let shards = 256usize;
        mcx::par::run_shards(
            shards,
            |s| {
                let mut evals = 0u64;
                let mut n = 0u64;
                let mut i = s;
                while i < small.len() {
                    let (e, t) = check_tree(r, sub, &small[i], true);
                    evals += e;
                    n += t;
                    i += shards;
                }
                r.add(sub, evals, n);
                r.add_states(sub, n, evals);
                r.outcome(sub, "trees", n);
            },
            crate::hang_handler(r.property.clone()),
        );
        r.sample(sub, json!({"item": small[small.len() / 3].diag(), "input_hex": hex(&small[small.len() / 3].to_bytes())}));
    }

    // hostile heads: every initial byte x every argument width x extreme declared lengths, judged by the reference parser
    {
        let sub = "hostile-heads";
        let hs = hostile_heads();
        r.space(sub, true, &format!("{} inputs: all 256 initial bytes x every argument width x boundary arguments (up to 2^64-1) x 9 fillers; the reference parser decides: a complete item must be skipped exactly, an input that ends inside an item must be refused (an ill-formed one may give either)", hs.len()), 2);
        let mut n = 0u64;
        let mut complete = 0u64;
        let mut truncated = 0u64;
        for h in &hs {
            n += 1;
            mcx::slot::case("skip-hostile", h);
            let mut d = Decoder::new(h);
            let res = mcx::par::guard(|| d.skip().is_ok());
            match (parse(h), res) {
                (_, Err(p)) => r.fail(sub, None, json!({"input_hex": hex(h)}), format!("skip() panicked: {}", p)),
                // text that is not UTF-8 is well-formed but not valid: skip(), like full decoding, may refuse it
                (Ok((item, _)), Ok(_)) if !item.utf8_ok() => {}
                (Ok((item, used)), Ok(ok)) => {
                    complete += 1;
                    if !ok || d.position() != used {
                        r.fail(sub, None, json!({"input_hex": hex(h), "item": item.diag()}), format!("skip() returned {} with position {}, the first item ends at {}", if ok { "Ok" } else { "Err" }, d.position(), used));
                    }
                }
                (Err(ParseErr::EndOfInput), Ok(ok)) => {
                    truncated += 1;
                    if ok {
                        r.fail(sub, None, json!({"input_hex": hex(h)}), format!("skip() returned Ok (position {}) although the input ends inside the item", d.position()));
                    }
                }
                (Err(ParseErr::IllFormed), Ok(_)) => {}
            }
        }
        r.add(sub, n, complete + truncated);
        r.add_states(sub, n, n);
        r.outcome(sub, "complete item", complete);
        r.outcome(sub, "input ends inside the item", truncated);
        r.sample(sub, json!({"input_hex": "bb8000000000000000ff", "expected": "Err (a map of 2^63 entries cannot be complete)"}));
    }

    // trees with non-preferred heads: widths influence item boundaries
    {
        let sub = "width-deviations";
        r.space(sub, true, "all trees with <= 3 nodes over the structural alphabet with every assignment of admissible head widths", 1);
        let small: Vec<Item> = trees_up_to(3, &alpha);
        let shards = 64usize;
        mcx::par::run_shards(
            shards,
            |s| {
                let mut evals = 0u64;
                let mut n = 0u64;
                let mut i = s;
                while i < small.len() {
                    for v in all_width_assignments(&small[i]) {
                        let (e, t) = check_tree(r, sub, &v, true);
                        evals += e;
                        n += t;
                    }
                    i += shards;
                }
                r.add(sub, evals, n);
                r.add_states(sub, n, evals);
                r.outcome(sub, "encodings", n);
            },
            crate::hang_handler(r.property.clone()),
        );
        r.sample(sub, json!({"item": "[0_3]_1", "input_hex": "9800011b0000000000000000"}));
    }

    // deep nesting
    {
        let sub = "deep-nesting";
        let depth = 10_000;
        r.space(sub, true, &format!("all 155 nesting patterns of period <= 3 over {{[, [_, {{, {{_, tag}} repeated to depth 256, {} and 65537, and the 30 patterns of period <= 2 at depths 255, 257, 65535 and 65536 (both sides of what an 8- or 16-bit depth counter holds), closed correctly, x 3 suffixes, plus truncations near the end", depth), 1);
        let mut pats = deep_patterns(depth);
        pats.extend(deep_patterns(256));
        pats.extend(deep_patterns(65537));
        for d in [255usize, 257, 65535, 65536] {
            pats.extend(deep_patterns(d).into_iter().filter(|(_, desc)| desc.matches('"').count() <= 4));
        }
        mcx::par::run_shards(
            pats.len(),
            |i| {
                let (bytes, desc) = &pats[i];
                let mut evals = 0u64;
                for suf in [&[][..], &[0x00][..], &[0xff][..]] {
                    let mut b = bytes.clone();
                    b.extend_from_slice(suf);
                    mcx::slot::case("skip-deep", &b[..b.len().min(64)]);
                    let mut d = Decoder::new(&b);
                    let res = mcx::par::guard(|| d.skip().map_err(|e| e.to_string()));
                    evals += 1;
                    if !matches!(res, Ok(Ok(()))) || d.position() != bytes.len() {
                        r.fail(sub, None, json!({"pattern": desc, "suffix_hex": hex(suf)}), format!("skip() returned {:?} with position {}, the item has {} bytes", res, d.position(), bytes.len()));
                    }
                }
                for cut in [1usize, 2, 3, bytes.len() / 3] {
                    if cut < bytes.len() {
                        let b = &bytes[..bytes.len() - cut];
                        let mut d = Decoder::new(b);
                        let res = mcx::par::guard(|| d.skip().is_ok());
                        evals += 1;
                        // only a strict prefix if the removed bytes were needed: they always are (closers or the leaf)
                        if res != Ok(false) {
                            r.fail(sub, None, json!({"pattern": desc, "removed_bytes": cut}), format!("skip() on a strict prefix returned {:?}", res));
                        }
                    }
                }
                r.add(sub, evals, evals);
                r.add_states(sub, 1, evals);
                r.outcome(sub, "patterns", 1);
            },
            crate::hang_handler(r.property.clone()),
        );
        r.sample(sub, json!({"pattern": pats[7].1, "first_bytes_hex": hex(&pats[7].0[..12])}));
    }
    crate::c20::skipcheck(r);
}
