//! The table of decoding entry points other than typed `decode::<T>()`:
//! typed accessors, iterators, head accessors and introspection.

use crate::types::*;
use minicbor::data::Type;
use minicbor::decode::info::Size;
use minicbor::Decoder;
use refmodel::shape::Shape;
use refmodel::*;

#[derive(Debug, Clone, PartialEq)]
pub enum OpKind {
    /// value-level semantics given by a shape; consumes the whole item
    Shaped(Shape),
    /// returns the declared length (or null for indefinite) and consumes only the head
    ArrayHead,
    MapHead,
    TagHead,
    /// `datatype()`: result is the type name as text; consumes nothing
    Datatype,
}

pub struct Op {
    pub name: &'static str,
    pub kind: OpKind,
    pub run: fn(&[u8], usize) -> DecOut,
}

thread_local! {
    static VIA_PROBE: std::cell::Cell<bool> = const { std::cell::Cell::new(false) };
}

/// While set, every operation of the tables runs on `base.probe()` instead of on the decoder itself.
pub fn set_via_probe(on: bool) {
    VIA_PROBE.with(|v| v.set(on))
}

/// The decoder an operation runs on: a fresh decoder moved to `pos`, or (see `set_via_probe`) a probe of such a
/// decoder. Dropping it checks that the probe left its parent where it was.
pub struct Dec<'b> {
    plain: Option<Decoder<'b>>,
    probe: Option<minicbor::decode::Probe<'b, 'b>>,
    base: *mut Decoder<'b>,
    start: usize,
}

pub fn new_dec<'b>(b: &'b [u8], pos: usize) -> Dec<'b> {
    let mut d = Decoder::new(b);
    d.set_position(pos);
    if VIA_PROBE.with(|v| v.get()) {
        let base = Box::into_raw(Box::new(d));
        // the probe borrows the boxed parent, which lives until `Dec` is dropped (the probe is dropped first)
        let probe = unsafe { (*base).probe() };
        Dec { plain: None, probe: Some(probe), base, start: pos }
    } else {
        Dec { plain: Some(d), probe: None, base: std::ptr::null_mut(), start: pos }
    }
}

impl<'b> std::ops::Deref for Dec<'b> {
    type Target = Decoder<'b>;
    fn deref(&self) -> &Decoder<'b> {
        match &self.probe {
            Some(p) => p,
            None => self.plain.as_ref().unwrap(),
        }
    }
}

impl<'b> std::ops::DerefMut for Dec<'b> {
    fn deref_mut(&mut self) -> &mut Decoder<'b> {
        match &mut self.probe {
            Some(p) => p,
            None => self.plain.as_mut().unwrap(),
        }
    }
}

impl Drop for Dec<'_> {
    fn drop(&mut self) {
        if !self.base.is_null() {
            self.probe = None;
            let parent = unsafe { Box::from_raw(self.base) };
            if parent.position() != self.start && !std::thread::panicking() {
                panic!("probe() moved its parent decoder from position {} to {}", self.start, parent.position());
            }
        }
    }
}

fn out<T>(d: &Decoder, r: Result<T, minicbor::decode::Error>, f: impl FnOnce(T) -> Item) -> DecOut {
    DecOut { res: r.map(f).map_err(|e| classify(&e)), pos: d.position(), borrowed_inside: None }
}

macro_rules! op {
    ($name:expr, $kind:expr, |$d:ident| $call:expr, |$v:ident| $conv:expr) => {
        Op {
            name: $name,
            kind: $kind,
            run: |b: &[u8], p: usize| {
                let mut $d = new_dec(b, p);
                let r = $call;
                out(&$d, r, |$v| $conv)
            },
        }
    };
}

fn inside(buf: &[u8], p: *const u8, len: usize) -> bool {
    let s = buf.as_ptr() as usize;
    len == 0 || (p as usize >= s && p as usize + len <= s + buf.len())
}

pub fn type_name(t: Type) -> String {
    format!("{:?}", t)
}

pub fn accessor_ops() -> Vec<Op> {
    use OpKind::*;
    let mut v = vec![
        op!("bool()", Shaped(Shape::Bool), |d| d.bool(), |x| Item::bool(x)),
        op!("u8()", Shaped(Shape::UInt(8)), |d| d.u8(), |x| Item::uint(x as u64)),
        op!("u16()", Shaped(Shape::UInt(16)), |d| d.u16(), |x| Item::uint(x as u64)),
        op!("u32()", Shaped(Shape::UInt(32)), |d| d.u32(), |x| Item::uint(x as u64)),
        op!("u64()", Shaped(Shape::UInt(64)), |d| d.u64(), |x| Item::uint(x)),
        op!("i8()", Shaped(Shape::SInt(8)), |d| d.i8(), |x| Item::int(x as i128)),
        op!("i16()", Shaped(Shape::SInt(16)), |d| d.i16(), |x| Item::int(x as i128)),
        op!("i32()", Shaped(Shape::SInt(32)), |d| d.i32(), |x| Item::int(x as i128)),
        op!("i64()", Shaped(Shape::SInt(64)), |d| d.i64(), |x| Item::int(x as i128)),
        op!("int()", Shaped(Shape::IntFull), |d| d.int(), |x| Item::int(i128::from(x))),
        op!("f16()", Shaped(Shape::F16Acc), |d| d.f16(), |x| Item::f32(x.to_bits())),
        op!("f32()", Shaped(Shape::F32), |d| d.f32(), |x| Item::f32(x.to_bits())),
        op!("f64()", Shaped(Shape::F64), |d| d.f64(), |x| Item::f64(x.to_bits())),
        op!("char()", Shaped(Shape::Char), |d| d.char(), |x| Item::uint(x as u64)),
        op!("null()", Shaped(Shape::Null), |d| d.null(), |_x| NULL),
        op!("undefined()", Shaped(Shape::Undefined), |d| d.undefined(), |_x| UNDEFINED),
        op!("simple()", Shaped(Shape::SimpleAcc), |d| d.simple(), |x| Item::uint(x as u64)),
        op!("array()", ArrayHead, |d| d.array(), |x| x.map(Item::uint).unwrap_or(NULL)),
        op!("map()", MapHead, |d| d.map(), |x| x.map(Item::uint).unwrap_or(NULL)),
        op!("tag()", TagHead, |d| d.tag(), |x| Item::uint(x.as_u64())),
        op!("decode<Tag>", TagHead, |d| d.decode::<minicbor::data::Tag>(), |x| Item::uint(x.as_u64())),
        op!("datatype()", Datatype, |d| d.datatype(), |x| Item::text(&type_name(x))),
    ];
    // borrowed results: check that they point into the input
    v.push(Op {
        name: "bytes()",
        kind: Shaped(Shape::Bytes),
        run: |b, p| {
            let mut d = new_dec(b, p);
            let r = d.bytes();
            let ins = r.as_ref().ok().map(|s| inside(b, s.as_ptr(), s.len()));
            let mut o = out(&d, r, |x| Item::bytes(x));
            o.borrowed_inside = ins;
            o
        },
    });
    v.push(Op {
        name: "str()",
        kind: Shaped(Shape::Str),
        run: |b, p| {
            let mut d = new_dec(b, p);
            let r = d.str();
            let ins = r.as_ref().ok().map(|s| inside(b, s.as_ptr(), s.len()));
            let mut o = out(&d, r, |x| Item::text(x));
            o.borrowed_inside = ins;
            o
        },
    });
    v.push(Op {
        name: "bytes_iter()",
        kind: Shaped(Shape::ByteChunks),
        run: |b, p| {
            let mut d = new_dec(b, p);
            let mut ins = true;
            let r = (|| {
                let mut chunks = Vec::new();
                for c in d.bytes_iter()? {
                    let c = c?;
                    ins &= inside(b, c.as_ptr(), c.len());
                    chunks.push(Item::bytes(c));
                    if chunks.len() > b.len() + 2 {
                        break;
                    }
                }
                Ok(Item::array(chunks))
            })();
            let mut o = out(&d, r, |x| x);
            if o.res.is_ok() {
                o.borrowed_inside = Some(ins);
            }
            o
        },
    });
    v.push(Op {
        name: "str_iter()",
        kind: Shaped(Shape::TextChunks),
        run: |b, p| {
            let mut d = new_dec(b, p);
            let mut ins = true;
            let r = (|| {
                let mut chunks = Vec::new();
                for c in d.str_iter()? {
                    let c = c?;
                    ins &= inside(b, c.as_ptr(), c.len());
                    chunks.push(Item::text(c));
                    if chunks.len() > b.len() + 2 {
                        break;
                    }
                }
                Ok(Item::array(chunks))
            })();
            let mut o = out(&d, r, |x| x);
            if o.res.is_ok() {
                o.borrowed_inside = Some(ins);
            }
            o
        },
    });
    macro_rules! arr_iter {
        ($name:expr, $t:ty, $shape:expr, $with:expr) => {
            v.push(Op {
                name: $name,
                kind: Shaped(Shape::Seq(Box::new($shape))),
                run: |b, p| {
                    let mut d = new_dec(b, p);
                    let r = (|| {
                        let mut items = Vec::new();
                        if $with {
                            let mut ctx = ();
                            for x in d.array_iter_with::<(), $t>(&mut ctx)? {
                                items.push(x?.to_model());
                                if items.len() > b.len() + 2 {
                                    break;
                                }
                            }
                        } else {
                            for x in d.array_iter::<$t>()? {
                                items.push(x?.to_model());
                                if items.len() > b.len() + 2 {
                                    break;
                                }
                            }
                        }
                        Ok(Item::array(items))
                    })();
                    out(&d, r, |x| x)
                },
            })
        };
    }
    arr_iter!("array_iter<u8>", u8, Shape::UInt(8), false);
    arr_iter!("array_iter_with<u8>", u8, Shape::UInt(8), true);
    arr_iter!("array_iter<String>", String, Shape::Str, false);
    arr_iter!("array_iter<Option<i8>>", Option<i8>, Shape::Option(Box::new(Shape::SInt(8))), false);
    macro_rules! map_iter {
        ($name:expr, $k:ty, $x:ty, $ks:expr, $xs:expr, $with:expr) => {
            v.push(Op {
                name: $name,
                kind: Shaped(Shape::Pairs(Box::new($ks), Box::new($xs))),
                run: |b, p| {
                    let mut d = new_dec(b, p);
                    let r = (|| {
                        let mut items = Vec::new();
                        if $with {
                            let mut ctx = ();
                            for e in d.map_iter_with::<(), $k, $x>(&mut ctx)? {
                                let (k, x) = e?;
                                items.push((k.to_model(), x.to_model()));
                                if items.len() > b.len() + 2 {
                                    break;
                                }
                            }
                        } else {
                            for e in d.map_iter::<$k, $x>()? {
                                let (k, x) = e?;
                                items.push((k.to_model(), x.to_model()));
                                if items.len() > b.len() + 2 {
                                    break;
                                }
                            }
                        }
                        Ok(Item::map(items))
                    })();
                    out(&d, r, |x| x)
                },
            })
        };
    }
    map_iter!("map_iter<u8,u8>", u8, u8, Shape::UInt(8), Shape::UInt(8), false);
    map_iter!("map_iter_with<u8,u8>", u8, u8, Shape::UInt(8), Shape::UInt(8), true);
    map_iter!("map_iter<String,bool>", String, bool, Shape::Str, Shape::Bool, false);
    v
}

/// What `datatype()` may report for a well-formed item (the set of admissible names).
pub fn datatype_ok(item: &Item, reported: &str) -> bool {
    let want: &[&str] = match item {
        Item::Uint(..) => &["U8", "U16", "U32", "U64"],
        Item::Nint(..) => &["I8", "I16", "I32", "I64", "Int"],
        Item::Bytes(_, StrForm::Def(_)) => &["Bytes"],
        Item::Bytes(_, StrForm::Indef(_)) => &["BytesIndef"],
        Item::Text(_, StrForm::Def(_)) => &["String"],
        Item::Text(_, StrForm::Indef(_)) => &["StringIndef"],
        Item::Array(_, Len::Def(_)) => &["Array"],
        Item::Array(_, Len::Indef) => &["ArrayIndef"],
        Item::Map(_, Len::Def(_)) => &["Map"],
        Item::Map(_, Len::Indef) => &["MapIndef"],
        Item::Tag(..) => &["Tag"],
        Item::Simple(20) | Item::Simple(21) => &["Bool"],
        Item::Simple(22) => &["Null"],
        Item::Simple(23) => &["Undefined"],
        Item::Simple(_) => &["Simple"],
        Item::Float(_, FW::F16) => &["F16"],
        Item::Float(_, FW::F32) => &["F32"],
        Item::Float(_, FW::F64) => &["F64"],
    };
    want.contains(&reported)
}

/// Length in bytes of the head of `item` as encoded, and the `Size` a correct `Size::tail` reports.
pub fn head_info(item: &Item) -> (usize, Size) {
    match item {
        Item::Uint(_, w) | Item::Nint(_, w) | Item::Tag(_, w, _) => (1 + w.extra(), Size::Head),
        Item::Bytes(d, StrForm::Def(w)) | Item::Text(d, StrForm::Def(w)) => (1 + w.extra(), Size::Bytes(d.len() as u64)),
        Item::Bytes(_, StrForm::Indef(_)) | Item::Text(_, StrForm::Indef(_)) => (1, Size::Indef),
        Item::Array(v, Len::Def(w)) => (1 + w.extra(), Size::Items(v.len() as u64)),
        Item::Map(v, Len::Def(w)) => (1 + w.extra(), Size::Items(v.len() as u64)),
        Item::Array(_, Len::Indef) | Item::Map(_, Len::Indef) => (1, Size::Indef),
        Item::Simple(s) => (if *s < 24 { 1 } else { 2 }, Size::Head),
        Item::Float(_, FW::F16) => (3, Size::Head),
        Item::Float(_, FW::F32) => (5, Size::Head),
        Item::Float(_, FW::F64) => (9, Size::Head),
    }
}
