//! C20: same behaviour in every feature configuration, up to the documented differences.
//!
//! Differential exploration: the probe (cfgprobe/probe) is built separately with minicbor and
//! minicbor-serde in {none, alloc, std} x {half, no half}; every build runs the same corpus and
//! operation script. Transcripts are compared record by record with the std+half build.

use mcx::{Report, Tier};
use refmodel::corpus::cfg_inputs;
use refmodel::*;
use serde_json::json;
use std::collections::BTreeMap;
use std::process::Command;

#[derive(Debug, Clone, Copy, PartialEq, Eq)]
struct Rec {
    class: u8,
    pos: u32,
    digest: u64,
}

pub const CONFIGS: [&str; 6] = ["none", "none+half", "alloc", "alloc+half", "std", "std+half"];

fn probe_path(cfg: &str) -> String {
    let dir = std::env::var("VERIF_DIR").unwrap_or_else(|_| "/verif".to_string());
    format!("{}/target/cfg-{}/release/probe", dir, cfg)
}

fn load(path: &str) -> Result<BTreeMap<String, Vec<Rec>>, String> {
    let b = std::fs::read(path).map_err(|e| format!("{}: {}", path, e))?;
    let mut o = 0usize;
    let rd32 = |o: &mut usize| {
        let v = u32::from_le_bytes(b[*o..*o + 4].try_into().unwrap());
        *o += 4;
        v
    };
    let nops = rd32(&mut o);
    let mut m = BTreeMap::new();
    for _ in 0..nops {
        let nl = u16::from_le_bytes(b[o..o + 2].try_into().unwrap()) as usize;
        o += 2;
        let name = String::from_utf8(b[o..o + nl].to_vec()).unwrap();
        o += nl;
        let n = rd32(&mut o) as usize;
        let mut v = Vec::with_capacity(n);
        for _ in 0..n {
            v.push(Rec { class: b[o], pos: u32::from_le_bytes(b[o + 1..o + 5].try_into().unwrap()), digest: u64::from_le_bytes(b[o + 5..o + 13].try_into().unwrap()) });
            o += 13;
        }
        m.insert(name, v);
    }
    Ok(m)
}

fn class_name(c: u8) -> &'static str {
    match c {
        0 => "Ok",
        1 => "Err(end of input)",
        2 => "Err(type mismatch)",
        3 => "Err(tag mismatch)",
        4 => "Err(message)",
        5 => "Err(custom)",
        6 => "Err(unknown variant)",
        7 => "Err(missing value)",
        8 => "Err(other)",
        100 => "Err",
        200 => "PANIC",
        _ => "?",
    }
}

fn show(r: &Rec) -> String {
    if r.class == 0 {
        format!("Ok, decoder position {}, value digest {:016x}", r.pos, r.digest)
    } else if r.class < 100 {
        format!("{}, decoder position {}, Error::position() = {}", class_name(r.class), r.pos, if r.digest == 0 { "None".to_string() } else { format!("Some({})", r.digest - 1) })
    } else {
        format!("{}, decoder position {}", class_name(r.class), r.pos)
    }
}

/// May the record of `cfg` differ from the std+half record in this way?
fn permitted(cfg: &str, op: &str, input: Option<&[u8]>, base: &Rec, rec: &Rec) -> Option<&'static str> {
    let alloc = !cfg.starts_with("none");
    let half = cfg.ends_with("+half");
    let is_err = rec.class != 0 && rec.class != 200;
    // for inputs that are exactly one well-formed item the conditions are evaluated on the parsed item,
    // otherwise on the bytes (a necessary condition)
    // (the reference parser is recursive: the few corpus inputs nested hundreds of levels deep are judged on the bytes)
    let shallow = |i: &[u8]| i.len() < 512 || !i[..256].iter().all(|b| matches!(b, 0x9f | 0xbf | 0x81 | 0x00));
    let item = input.filter(|i| shallow(i)).and_then(|i| match parse(i) {
        Ok((it, used)) if used == i.len() => Some(it),
        _ => None,
    });
    fn any_node(i: &Item, f: &dyn Fn(&Item) -> bool) -> bool {
        if f(i) {
            return true;
        }
        match i {
            Item::Array(v, _) => v.iter().any(|x| any_node(x, f)),
            Item::Map(v, _) => v.iter().any(|(k, x)| any_node(k, f) || any_node(x, f)),
            Item::Tag(_, _, x) => any_node(x, f),
            _ => false,
        }
    }
    let has = |bytes: &[u8]| -> bool {
        match &item {
            Some(it) => {
                if bytes == [0x9f, 0xbf] {
                    it.has_indef_in_def()
                } else if bytes == [0x5f, 0x7f] {
                    any_node(it, &|x| matches!(x, Item::Bytes(_, StrForm::Indef(_)) | Item::Text(_, StrForm::Indef(_))))
                } else {
                    any_node(it, &|x| matches!(x, Item::Float(_, FW::F16)))
                }
            }
            None => input.map(|i| i.iter().any(|b| bytes.contains(b))).unwrap_or(false),
        }
    };
    let _ = base;
    if !alloc {
        // skip() (directly, or inside decoders that skip unknown / surplus items) may refuse an
        // indefinite array/map nested in a definite one
        if (rec.class == 4 || rec.class == 100) && has(&[0x9f, 0xbf]) {
            return Some("no alloc: skip refuses an indefinite container nested in a definite one");
        }
        if op.starts_with("serde<") && is_err && has(&[0x5f, 0x7f]) {
            return Some("no alloc: the bridge rejects indefinite strings in deserialize_any");
        }
        if op == "serialize<collect_str>" && is_err {
            return Some("no alloc: collect_str is not supported");
        }
    }
    if !half && has(&[0xf9]) && (rec.class == 2 || rec.class == 100) {
        return Some("no half: half-precision items are a type error");
    }
    None
}

pub fn run(r: &Report) {
    let thorough = r.tier == Tier::Thorough;
    let tier = if thorough { "thorough" } else { "quick" };
    let sub = "transcripts";
    r.space(sub, true, "6 separately built configurations {none, alloc, std} x {half, no half} of minicbor + minicbor-serde; corpus: all byte strings <= 2 bytes (thorough: plus all 3-byte strings behind 20 initial bytes, one per head class), hostile heads, all trees <= 4 (5) nodes in preferred form plus single deviations of trees <= 3 nodes; script: typed accessors, iterators, skip, datatype, typed decode of core / alloc types and derived types, tokens, display, serde from_slice (incl. deserialize_any and ignored_any), encode+len and Serializer over a fixed slice for a value corpus", 2);
    let inputs = cfg_inputs(thorough);
    let tmp = std::env::temp_dir();
    let mut transcripts: BTreeMap<&str, BTreeMap<String, Vec<Rec>>> = BTreeMap::new();
    // run the six probes in parallel
    let handles: Vec<_> = CONFIGS
        .iter()
        .map(|cfg| {
            let cfg = *cfg;
            let out = tmp.join(format!("verif-c20-{}-{}.bin", std::process::id(), cfg));
            let tier = tier.to_string();
            std::thread::spawn(move || {
                let st = Command::new(probe_path(cfg)).args(["transcript", &tier, out.to_str().unwrap()]).output();
                (cfg, out, st)
            })
        })
        .collect();
    for h in handles {
        let (cfg, out, st) = h.join().unwrap();
        match st {
            Ok(o) if o.status.success() => match load(out.to_str().unwrap()) {
                Ok(t) => {
                    transcripts.insert(cfg, t);
                }
                Err(e) => r.machinery_error(format!("cannot read the transcript of {}: {}", cfg, e)),
            },
            Ok(o) if killed_by_signal(&o.status).is_some() => r.fail(
                "transcripts",
                None,
                json!({"configuration": cfg, "signal": killed_by_signal(&o.status), "stderr": String::from_utf8_lossy(&o.stderr).chars().take(600).collect::<String>()}),
                "the configuration probe was killed by a fatal signal while running the subject (the same driver completes in the other configurations / on the unchanged tree)",
            ),
            Ok(o) => r.machinery_error(format!("probe {} failed: {}", cfg, String::from_utf8_lossy(&o.stderr))),
            Err(e) => r.machinery_error(format!("cannot run the probe {} ({}): build it with ./check C20", cfg, e)),
        }
        let _ = std::fs::remove_file(&out);
    }
    let Some(base) = transcripts.get("std+half") else { return };
    for (cfg, t) in &transcripts {
        if *cfg == "std+half" {
            continue;
        }
        let mut compared = 0u64;
        let mut equal = 0u64;
        let mut rewrites: BTreeMap<&'static str, u64> = BTreeMap::new();
        for (op, recs) in t {
            let Some(brecs) = base.get(op) else {
                r.machinery_error(format!("operation {} exists in {} but not in std+half", op, cfg));
                continue;
            };
            if recs.len() == 1 && recs[0].class == 200 && brecs.len() != 1 {
                r.fail(sub, None, json!({"configuration": cfg, "op": op}), "the operation panicked in this configuration (it completes in std+half)");
                continue;
            }
            if brecs.len() != recs.len() {
                r.machinery_error(format!("operation {}: {} records in {} but {} in std+half", op, recs.len(), cfg, brecs.len()));
                continue;
            }
            let per_input = recs.len() == inputs.len();
            for (i, (a, b)) in brecs.iter().zip(recs).enumerate() {
                compared += 1;
                if a == b {
                    equal += 1;
                    continue;
                }
                let input = if per_input { Some(&inputs[i][..]) } else { None };
                if b.class != 200 {
                    if let Some(why) = permitted(cfg, op, input, a, b) {
                        *rewrites.entry(why).or_default() += 1;
                        continue;
                    }
                }
                r.fail(
                    sub,
                    None,
                    json!({"configuration": cfg, "op": op, "input_hex": input.map(|b| if b.len() <= 64 { hex(b) } else { format!("{}.. ({} bytes)", hex(&b[..64]), b.len()) }), "case_index": i}),
                    if op.starts_with("encode") {
                        // encode operations: class 0 = Ok, otherwise a code of the is_write() / is_message() predicates (see the probe)
                        format!("std+half: class {}, {} bytes / capacity, digest {:x}; {}: class {}, {} bytes / capacity, digest {:x}", a.class, a.pos, a.digest, cfg, b.class, b.pos, b.digest)
                    } else {
                        format!("std+half: {}; {}: {}", show(a), cfg, show(b))
                    },
                );
            }
        }
        r.add(sub, compared, equal);
        r.add_states(sub, inputs.len() as u64, compared);
        r.outcome(sub, &format!("{}: identical to std+half", cfg), equal);
        for (k, v) in rewrites {
            r.outcome(sub, &format!("{}: {}", cfg, k), v);
        }
        r.note(&format!("ops_{}", cfg), json!(t.len()));
    }
    // the baseline itself must not panic
    for (op, recs) in base {
        if let Some(i) = recs.iter().position(|x| x.class == 200) {
            r.fail(sub, None, json!({"configuration": "std+half", "op": op, "case_index": i}), "panicked");
        }
    }
    r.sample(sub, json!({"op": "skip()", "input_hex": "819fff", "std+half": "Ok position 3", "none": "Err(message) (documented: requires alloc)"}));
    r.sample(sub, json!({"op": "f32()", "input_hex": "f93c00", "std+half": "Ok 1.0", "std": "Err(type mismatch) (documented: requires half)"}));
    r.assume("only x86_64-unknown-linux-gnu is installed: the 32-bit pointer-width and atomic32 branches cannot be built here");
    r.assume("error message text is not part of the transcript (it is documented to differ); the bridge's error type exposes neither class predicates nor position; its class and Error::position() are read from the Debug rendering of the wrapped decode::Error (variant name, `pos: Some(n)`; unreadable = unclassified / None), so serde operations are compared on Ok / error class / error position / decoder position");
}

/// The no-alloc part of C06: run the skip check inside the probe builds without `alloc`.
/// Some(signal) if the process died from SIGSEGV / SIGBUS / SIGILL / SIGABRT / SIGFPE.
fn killed_by_signal(st: &std::process::ExitStatus) -> Option<i32> {
    use std::os::unix::process::ExitStatusExt;
    st.signal().filter(|s| [4, 6, 7, 8, 11].contains(s))
}

pub fn skipcheck(r: &Report) {
    let tier = if r.tier == Tier::Thorough { "thorough" } else { "quick" };
    for cfg in ["none", "none+half", "alloc"] {
        let sub = format!("no-alloc-build ({})", cfg);
        let sub = if cfg == "alloc" { "alloc-probe-build (alloc)".to_string() } else { sub };
        r.space(&sub, true, "skip() over all item trees <= 5 (6) nodes of the structural alphabet x 6 suffixes + every strict prefix inside the separately built probe: same position, or (without alloc) the documented error iff an indefinite array/map is nested in a definite one", 1);
        match Command::new(probe_path(cfg)).args(["skipcheck", tier]).output() {
            Ok(o) if o.status.success() => {
                let out = String::from_utf8_lossy(&o.stdout);
                for l in out.lines() {
                    if let Some(rest) = l.strip_prefix("SKIP-VIOLATION ") {
                        r.fail(&sub, None, json!({"configuration": cfg, "case": rest}), "skip() ended at a wrong position, failed where it must not, accepted a strict prefix, or panicked");
                    }
                    if let Some(rest) = l.strip_prefix("SKIP-SUMMARY ") {
                        let kv: BTreeMap<&str, &str> = rest.split(' ').filter_map(|p| p.split_once('=')).collect();
                        let n = |k: &str| kv.get(k).and_then(|v| v.parse::<u64>().ok()).unwrap_or(0);
                        r.add(&sub, n("evaluations"), n("exact_position"));
                        r.add_states(&sub, n("trees"), n("evaluations"));
                        r.outcome(&sub, "exact position", n("exact_position"));
                        r.outcome(&sub, "refused as documented", n("refused_as_documented"));
                        let v = n("violations");
                        if v > 20 {
                            r.fail(&sub, None, json!({"configuration": cfg}), format!("{} violations in total (first 20 listed)", v));
                        }
                    }
                }
            }
            Ok(o) if killed_by_signal(&o.status).is_some() => r.fail(
                &sub,
                None,
                json!({"configuration": cfg, "signal": killed_by_signal(&o.status), "stderr": String::from_utf8_lossy(&o.stderr).chars().take(600).collect::<String>()}),
                "the configuration probe was killed by a fatal signal while skipping (stack overflow or memory fault in the subject)",
            ),
            Ok(o) => r.machinery_error(format!("probe {} skipcheck failed: {}", cfg, String::from_utf8_lossy(&o.stderr))),
            Err(e) => r.machinery_error(format!("cannot run the probe {} ({}): build it with ./check C06", cfg, e)),
        }
    }
}
