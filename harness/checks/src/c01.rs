//! C01: decode(encode(v)) == v for every built-in codec type.
//!
//! Value-space enumeration: all values of the small types, the boundary lattice and all
//! values below 2^17 for the wide ones, product domains for composites; thorough adds the
//! complete 2^32 sweeps. Every value is encoded with the real encoder, decoded with the real
//! decoder (alone and followed by 00 / ff) and compared through the reference mapping.

use crate::types::*;
use mcx::{Report, Tier};
use minicbor::data::{Int, Tag};
use minicbor::{Decoder, Encoder};
use refmodel::shape::canon;
use refmodel::*;
use serde_json::json;
use std::sync::atomic::{AtomicU64, Ordering};

fn check_value(r: &Report, sub: &str, e: &TypeEntry, v: &dyn ErasedVal) -> bool {
    let bytes = match mcx::par::guard(|| v.to_vec()) {
        Ok(Ok(b)) => b,
        Ok(Err(err)) => {
            r.fail(sub, None, json!({"type": e.name, "value": v.debug()}), format!("encoding failed: {:?}", err));
            return false;
        }
        Err(p) => {
            r.fail(sub, None, json!({"type": e.name, "value": v.debug()}), format!("encoder panicked: {}", p));
            return false;
        }
    };
    let want = canon(&e.shape, &v.model());
    // every public entry point is its own code path: they must agree with to_vec / len / Decoder::decode
    for (how, alt) in v.alt_encodings() {
        if alt.as_ref().ok() != Some(&bytes) {
            r.fail(sub, None, json!({"type": e.name, "value": v.debug(), "entry_point": how}), format!("{} produced {:?}, to_vec produced {}", how, alt.map(|b| hex(&b[..b.len().min(48)])), hex(&bytes[..bytes.len().min(48)])));
            return false;
        }
    }
    if v.alt_len() != v.cbor_len() {
        r.fail(sub, None, json!({"type": e.name, "value": v.debug()}), format!("len_with() = {} but len() = {}", v.alt_len(), v.cbor_len()));
        return false;
    }
    for (how, res, pos) in v.alt_decodes(&bytes) {
        let good = matches!(&res, Ok(m) if canon(&e.shape, m) == want) && pos.map(|p| p == bytes.len()).unwrap_or(true);
        if !good {
            r.fail(sub, None, json!({"type": e.name, "value": v.debug(), "entry_point": how, "encoded_hex": hex(&bytes[..bytes.len().min(48)])}), format!("{} returned {:?} (position {:?}), the value is {}", how, res.map(|m| m.diag().chars().take(80).collect::<String>()), pos, want.diag().chars().take(80).collect::<String>()));
            return false;
        }
    }
    for suffix in [&[][..], &[0x00][..], &[0xff][..]] {
        let mut input = bytes.clone();
        input.extend_from_slice(suffix);
        mcx::slot::case(e.name, &input);
        let out = match mcx::par::guard(|| v.decode_back(&input)) {
            Ok(o) => o,
            Err(p) => {
                r.fail(sub, None, json!({"type": e.name, "value": v.debug(), "input_hex": hex(&input)}), format!("decoder panicked: {}", p));
                return false;
            }
        };
        let case = || json!({"type": e.name, "value": v.debug(), "encoded_hex": hex(&bytes), "suffix_hex": hex(suffix)});
        match &out.res {
            Err(c) => {
                r.fail(sub, None, case(), format!("decoding the produced bytes failed with {:?}", c));
                return false;
            }
            Ok(m) => {
                let got = canon(&e.shape, m);
                if got != want {
                    r.fail(sub, None, case(), format!("decoded value {} differs from the encoded value {}", got.diag(), want.diag()));
                    return false;
                }
            }
        }
        if out.pos != bytes.len() {
            r.fail(sub, None, case(), format!("decoder consumed {} bytes, the encoder produced {}", out.pos, bytes.len()));
            return false;
        }
        if out.borrowed_inside == Some(false) {
            r.fail(sub, None, case(), "borrowed result does not point into the input buffer");
            return false;
        }
    }
    true
}

macro_rules! sweep_int {
    ($r:expr, $sub:expr, $t:ty, $enc:ident, $dec:ident, $iter:expr) => {{
        let mut n = 0u64;
        let mut buf = [0u8; 16];
        for x in $iter {
            let x: $t = x;
            let used = {
                let mut s: &mut [u8] = &mut buf[..];
                Encoder::new(&mut s).$enc(x).unwrap();
                16 - s.len()
            };
            let mut d = Decoder::new(&buf[..used]);
            let y = d.$dec();
            n += 1;
            match y {
                Ok(y) if y == x && d.position() == used => {}
                other => {
                    $r.fail($sub, None, json!({"type": stringify!($t), "value": format!("{:?}", x), "encoded_hex": hex(&buf[..used])}), format!("round trip gave {:?} at position {}", other.map(|v| format!("{:?}", v)), d.position()));
                    break;
                }
            }
        }
        n
    }};
}

fn sweep_f32(r: &Report, sub: &str, range: impl Iterator<Item = u32>) -> u64 {
    let mut n = 0;
    let mut buf = [0u8; 16];
    for b in range {
        let x = f32::from_bits(b);
        let used = {
            let mut s: &mut [u8] = &mut buf[..];
            Encoder::new(&mut s).f32(x).unwrap();
            16 - s.len()
        };
        let mut d = Decoder::new(&buf[..used]);
        n += 1;
        match d.f32() {
            Ok(y) if y.to_bits() == b && d.position() == used => {}
            other => {
                r.fail(sub, None, json!({"type": "f32", "bits": format!("{:08x}", b)}), format!("round trip gave {:?}", other.map(|v| format!("{:08x}", v.to_bits()))));
                break;
            }
        }
    }
    n
}

pub fn run(r: &Report) {
    let table = type_table();
    r.space("typed-values", true, "every value of the small domain (boundary lattice, all container length boundaries 0,1,2,3,23,24,255,256) of each of the listed instantiations x suffix in {none, 00, ff}", 1);
    let total = AtomicU64::new(0);
    mcx::par::run_shards(
        table.len(),
        |i| {
            let e = &table[i];
            let vals = (e.values)();
            let mut ok = 0u64;
            for v in &vals {
                if check_value(r, "typed-values", e, v.as_ref()) {
                    ok += 1;
                }
            }
            r.add("typed-values", vals.len() as u64 * 3, ok);
            r.outcome("typed-values", e.name, vals.len() as u64);
            total.fetch_add(vals.len() as u64, Ordering::Relaxed);
            if i % 17 == 0 {
                if let Some(v) = vals.last() {
                    r.sample("typed-values", json!({"type": e.name, "value": v.debug(), "encoded_hex": v.to_vec().map(|b| hex(&b[..b.len().min(48)])).unwrap_or_default()}));
                }
            }
        },
        crate::hang_handler(r.property.clone()),
    );
    r.note("type_instantiations", json!(table.len()));

    // tokens: every variant with boundary payloads, compared by value (integers numerically, floats by bits)
    {
        let sub = "tokens";
        r.space(sub, true, "every Token variant with boundary payloads (64-bit lattice for integers, lengths and tags; all 256 simple values; half-representable F16; string/bytes lengths 0..65536) x suffix in {none, 00, ff}: to_vec then decode::<Token>", 1);
        let toks = crate::c07::tokens();
        let mut ok = 0u64;
        for t in &toks {
            let bytes = match mcx::par::guard(|| minicbor::to_vec(t)) {
                Ok(Ok(b)) => b,
                other => {
                    r.fail(sub, None, json!({"token": format!("{:?}", t).chars().take(80).collect::<String>()}), format!("encoding failed: {:?}", other.map(|x| x.map(|_| ()).map_err(|e| e.to_string()))));
                    continue;
                }
            };
            let mut good = true;
            for suffix in [&[][..], &[0x00][..], &[0xff][..]] {
                let mut input = bytes.clone();
                input.extend_from_slice(suffix);
                mcx::slot::case("Token", &input);
                let mut d = Decoder::new(&input);
                let back = mcx::par::guard(|| d.decode::<minicbor::data::Token>().map_err(|e| e.to_string()));
                let case = || json!({"token": format!("{:?}", t).chars().take(80).collect::<String>(), "encoded_hex": hex(&bytes[..bytes.len().min(48)]), "suffix_hex": hex(suffix)});
                match back {
                    Ok(Ok(u)) => {
                        if !crate::c11::tok_eq(&crate::c11::to_ref(t), &crate::c11::to_ref(&u)) {
                            r.fail(sub, None, case(), format!("decoded back as {:?}", u).chars().take(200).collect::<String>());
                            good = false;
                        } else if d.position() != bytes.len() {
                            r.fail(sub, None, case(), format!("decoder consumed {} bytes, the encoder produced {}", d.position(), bytes.len()));
                            good = false;
                        }
                    }
                    other => {
                        r.fail(sub, None, case(), format!("decoding the produced bytes failed: {:?}", other.map(|x| x.map(|_| ()))));
                        good = false;
                    }
                }
            }
            if good {
                ok += 1;
            }
        }
        r.add(sub, toks.len() as u64 * 3, ok);
        r.outcome(sub, "tokens", toks.len() as u64);
        r.sample(sub, json!({"token": "Simple(255)", "encoded_hex": "f8ff"}));
    }

    // refusals: values the encoder itself must refuse
    {
        let sub = "encoder-refusals";
        r.space(sub, true, "pre-epoch SystemTime, non-UTF-8 path as Path, PathBuf, Box<Path>, Cow<Path>, &&Path and inside an Option / a tuple", 1);
        let pre = std::time::UNIX_EPOCH - std::time::Duration::new(1, 0);
        if minicbor::to_vec(pre).is_ok() {
            r.fail(sub, None, json!({"type": "SystemTime", "value": "UNIX_EPOCH - 1s"}), "a pre-epoch SystemTime was encoded (documented as refused)");
        }
        use std::os::unix::ffi::OsStrExt;
        let bad = std::path::Path::new(std::ffi::OsStr::from_bytes(&[0x66, 0xff, 0x6f]));
        if minicbor::to_vec(bad).is_ok() {
            r.fail(sub, None, json!({"type": "Path", "value": "66ff6f"}), "a non-UTF-8 path was encoded (documented as refused)");
        }
        // every owner / wrapper of a path has its own Encode impl (or forwards): PathBuf, Box<Path>, Cow<Path>, &Path,
        // and a path inside other values
        let owned: std::path::PathBuf = bad.to_path_buf();
        let boxed: Box<std::path::Path> = bad.into();
        let cow_b: std::borrow::Cow<std::path::Path> = std::borrow::Cow::Borrowed(bad);
        let cow_o: std::borrow::Cow<std::path::Path> = std::borrow::Cow::Owned(owned.clone());
        let refused: [(&str, bool); 7] = [
            ("PathBuf", minicbor::to_vec(&owned).is_err()),
            ("Box<Path>", minicbor::to_vec(&boxed).is_err()),
            ("Cow<Path> (borrowed)", minicbor::to_vec(&cow_b).is_err()),
            ("Cow<Path> (owned)", minicbor::to_vec(&cow_o).is_err()),
            ("&&Path", minicbor::to_vec(&&bad).is_err()),
            ("Option<PathBuf>", minicbor::to_vec(Some(owned.clone())).is_err()),
            ("(u8, PathBuf)", minicbor::to_vec((1u8, owned.clone())).is_err()),
        ];
        for (ty, ok) in refused {
            if !ok {
                r.fail(sub, None, json!({"type": ty, "value": "66ff6f"}), "a non-UTF-8 path was encoded (documented as refused)");
            }
        }
        r.add(sub, 9, 9);
        r.outcome(sub, "refused", 9);
    }

    // Tag (head only) and Int over the lattice
    {
        let sub = "tag-int-lattice";
        r.space(sub, true, "Tag and Int over the 64-bit boundary lattice (2^k, 2^k +- 1..3)", 1);
        let mut n = 0u64;
        for t in enumerate::lattice64() {
            let b = minicbor::to_vec(Tag::new(t)).unwrap();
            let mut d = Decoder::new(&b);
            match d.decode::<Tag>() {
                Ok(x) if x.as_u64() == t && d.position() == b.len() => {}
                o => r.fail(sub, None, json!({"type": "Tag", "value": t}), format!("round trip gave {:?}", o)),
            }
            n += 1;
        }
        for v in enumerate::lattice_int() {
            let i = Int::try_from(v).unwrap();
            let b = minicbor::to_vec(i).unwrap();
            let mut d = Decoder::new(&b);
            match d.decode::<Int>() {
                Ok(x) if i128::from(x) == v && d.position() == b.len() => {}
                o => r.fail(sub, None, json!({"type": "Int", "value": v.to_string()}), format!("round trip gave {:?}", o)),
            }
            n += 1;
        }
        r.add(sub, n, n);
        r.outcome(sub, "ok", n);
    }

    // exhaustive sweeps of the scalar types
    let sub = "scalar-sweeps";
    let thorough = r.tier == Tier::Thorough;
    r.space(
        sub,
        true,
        if thorough { "all values of bool u8 i8 u16 i16 char u32 i32 f32; u64 i64 over the lattice and 32 significant bits at shifts 0,16,31,32" } else { "all values of bool u8 i8 u16 i16 char; u32 i32 u64 i64 f32: all values < 2^17 plus the boundary lattice" },
        1,
    );
    let shards = 64usize;
    mcx::par::run_shards(
        shards,
        |s| {
            let mut n = 0u64;
            mcx::slot::case("scalar-sweep", &[s as u8]);
            if s == 0 {
                n += sweep_int!(r, sub, u8, u8, u8, 0..=u8::MAX);
                n += sweep_int!(r, sub, i8, i8, i8, i8::MIN..=i8::MAX);
                n += sweep_int!(r, sub, u16, u16, u16, 0..=u16::MAX);
                n += sweep_int!(r, sub, i16, i16, i16, i16::MIN..=i16::MAX);
                n += sweep_int!(r, sub, char, char, char, (0..=0x10ffffu32).filter_map(char::from_u32));
                n += sweep_int!(r, sub, bool, bool, bool, [false, true]);
                n += sweep_int!(r, sub, u64, u64, u64, enumerate::lattice64().into_iter());
                n += sweep_int!(r, sub, i64, i64, i64, enumerate::lattice_int().into_iter().filter(|v| *v >= i64::MIN as i128 && *v <= i64::MAX as i128).map(|v| v as i64));
                n += sweep_int!(r, sub, u32, u32, u32, enumerate::lattice64().into_iter().filter(|v| *v <= u32::MAX as u64).map(|v| v as u32));
                n += sweep_int!(r, sub, i32, i32, i32, enumerate::lattice_int().into_iter().filter(|v| *v >= i32::MIN as i128 && *v <= i32::MAX as i128).map(|v| v as i32));
            }
            if thorough {
                let chunk = (1u64 << 32) / shards as u64;
                let lo = s as u64 * chunk;
                let hi = lo + chunk;
                mcx::slot::beat();
                n += sweep_int!(r, sub, u32, u32, u32, (lo..hi).map(|x| x as u32));
                mcx::slot::beat();
                n += sweep_int!(r, sub, i32, i32, i32, (lo..hi).map(|x| x as u32 as i32));
                mcx::slot::beat();
                n += sweep_f32(r, sub, (lo..hi).map(|x| x as u32));
                for shift in [0u32, 16, 31, 32] {
                    mcx::slot::beat();
                    n += sweep_int!(r, sub, u64, u64, u64, (lo..hi).step_by(7).map(|x| x << shift));
                    n += sweep_int!(r, sub, i64, i64, i64, (lo..hi).step_by(7).map(|x| (x << shift) as i64));
                }
            } else {
                let chunk = (1u64 << 17) / shards as u64;
                let lo = s as u64 * chunk;
                let hi = lo + chunk;
                n += sweep_int!(r, sub, u32, u32, u32, (lo..hi).map(|x| x as u32));
                n += sweep_int!(r, sub, i32, i32, i32, (lo..hi).flat_map(|x| [x as i32, -1 - x as i32]));
                n += sweep_int!(r, sub, u64, u64, u64, lo..hi);
                n += sweep_int!(r, sub, i64, i64, i64, (lo..hi).flat_map(|x| [x as i64, -1 - x as i64]));
                // f32: all 512 sign/exponent values x this shard's mantissa patterns
                let mants: Vec<u32> = (0..23).flat_map(|a| (0..23).map(move |b| (1u32 << a) | (1u32 << b))).chain([0, 0x7f_ffff]).collect();
                let per = (mants.len() + shards - 1) / shards;
                let mine = mants.iter().skip(s * per).take(per).copied().collect::<Vec<_>>();
                n += sweep_f32(r, sub, (0u32..512).flat_map(|se| mine.iter().map(move |m| (se << 23) | m).collect::<Vec<_>>()));
            }
            r.add(sub, n, n);
            r.outcome(sub, "ok", n);
        },
        crate::hang_handler(r.property.clone()),
    );
    r.sample(sub, json!({"type": "u32", "value": 65536, "encoded_hex": "1a00010000"}));
    r.assume("equality of decoded and original values is judged through the reference mapping to the data model (harness/checks/src/types.rs::ToModel), unordered collections as sorted multisets");
}
