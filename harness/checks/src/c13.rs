//! C13: bounded sinks: encoding succeeds iff it fits, never overruns, sink-independent.

use crate::types::*;
use mcx::{Report, Tier};
use minicbor::encode::write::{Cursor, Write};
use refmodel::*;
use serde_json::json;

/// Judge one (value, sink, capacity) triple against the Vec-with-capacity model.
fn judge(r: &Report, sub: &str, ty: &str, val: &str, sink: &str, cap: usize, bytes: &[u8], out: &SinkOut) -> bool {
    let case = || json!({"type": ty, "value": val, "sink": sink, "capacity": cap, "encoding_len": bytes.len(), "encoding_hex": hex(&bytes[..bytes.len().min(64)])});
    let hex = |b: &[u8]| -> String { if b.len() <= 64 { hex(b) } else { format!("{}.. ({} bytes)", hex(&b[..64]), b.len()) } };
    if !out.canary_ok {
        r.fail(sub, None, case(), "bytes outside the sink were modified");
        return false;
    }
    let fits = bytes.len() <= cap;
    match (&out.res, fits) {
        (Ok(()), true) => {
            if out.pos != bytes.len() || out.buf[..bytes.len()] != *bytes {
                r.fail(sub, None, case(), format!("succeeded but the sink holds {} with position {}", hex(&out.buf[..out.pos.min(out.buf.len())]), out.pos));
                return false;
            }
            // growable/io sinks have no tail; fixed ones must keep the fill pattern behind the encoding
            if out.buf.len() > bytes.len() && sink != "Writer<io>" && out.buf[bytes.len()..].iter().any(|b| *b != 0xa5) {
                r.fail(sub, None, case(), "bytes behind the encoding were modified");
                return false;
            }
            true
        }
        (Ok(()), false) => {
            r.fail(sub, None, case(), format!("encoding of {} bytes reported success into a sink of capacity {}", bytes.len(), cap));
            false
        }
        (Err(EncErr::Write), false) => {
            if out.pos > cap || out.pos > bytes.len() || out.buf[..out.pos] != bytes[..out.pos] {
                r.fail(sub, None, case(), format!("after the write error the sink holds {} (position {}), not a prefix of the encoding", hex(&out.buf[..out.pos.min(out.buf.len())]), out.pos));
                return false;
            }
            if sink != "Writer<io>" && out.buf[out.pos..].iter().any(|b| *b != 0xa5) {
                r.fail(sub, None, case(), "a failed write modified bytes beyond the accepted prefix");
                return false;
            }
            true
        }
        (Err(e), _) => {
            r.fail(sub, None, case(), format!("returned {:?} ({} bytes into capacity {})", e, bytes.len(), cap));
            false
        }
    }
}

fn values(r: &Report) {
    let sub = "values-capacities-sinks";
    r.space(sub, true, "every small-domain value of the type table with an encoding <= 40 bytes x every capacity 0..=len+1 x sinks {&mut [u8], Cursor<&mut [u8]>, Cursor<Box<[u8]>>, Cursor<[u8; N]>, Writer<std::io::Write> with chunk 1 / 3 / unlimited}; Vec<u8> as the unbounded reference", 2);
    let table = type_table();
    mcx::par::run_shards(
        table.len(),
        |i| {
            let e = &table[i];
            let mut n = 0u64;
            let mut ok = 0u64;
            let mut succ = 0u64;
            for v in (e.values)() {
                let bytes = match v.to_vec() {
                    Ok(b) if b.len() <= 40 => b,
                    _ => continue,
                };
                let dbg = v.debug();
                mcx::slot::case(e.name, &bytes);
                for cap in 0..=bytes.len() + 1 {
                    let outs = mcx::par::guard(|| {
                        let mut outs: Vec<(&str, SinkOut)> = vec![("&mut [u8]", v.into_slice(cap)), ("Cursor<&mut [u8]>", v.into_cursor_slice(cap)), ("Cursor<Box<[u8]>>", v.into_cursor_box(cap))];
                        if let Some(o) = v.into_cursor_array(cap) {
                            outs.push(("Cursor<[u8; N]>", o));
                        }
                        for chunk in [1usize, 3, usize::MAX] {
                            outs.push(("Writer<io>", v.into_io_writer(cap, chunk)));
                        }
                        outs
                    });
                    let outs = match outs {
                        Ok(o) => o,
                        Err(p) => {
                            r.fail(sub, None, json!({"type": e.name, "value": dbg, "capacity": cap, "encoding_hex": hex(&bytes)}), format!("encoding into a bounded sink panicked: {}", p));
                            continue;
                        }
                    };
                    for (name, o) in &outs {
                        n += 1;
                        if o.res.is_ok() {
                            succ += 1;
                        }
                        if judge(r, sub, e.name, &dbg, name, cap, &bytes, o) {
                            ok += 1;
                        }
                    }
                }
            }
            r.add(sub, n, ok);
            r.outcome(sub, "fits", succ);
            r.outcome(sub, "write error", n - succ);
        },
        crate::hang_handler(r.property.clone()),
    );
    r.sample(sub, json!({"type": "(u8,String,bool)", "encoding_hex": "83006161f5", "capacity": 4, "sink": "Cursor<&mut [u8]>", "expected": "write error, position 3, sink = 830061"}));
}

/// Large values: the same sinks, capacities around the encoding length, io sinks accepting 1 byte .. everything per call.
fn large(r: &Report) {
    let sub = "large-values";
    r.space(sub, true, "byte strings, text, integer arrays and a tuple holding a byte string of 65537, 131072, 131073 and 300017 elements x capacities {0, 1, len/2, len-1, len, len+1} x sinks {&mut [u8], Cursor<&mut [u8]>, Cursor<Box<[u8]>>, Writer<std::io::Write> accepting 1 / 4096 / 65536 / 100000 / 131072 / all bytes per call}", 2);
    let count = large_values().len();
    mcx::par::run_shards(
        count,
        |i| {
            let (name, v) = large_values().swap_remove(i);
            let name = &name;
            let mut n = 0u64;
            let mut ok = 0u64;
            let mut succ = 0u64;
            let bytes = match v.to_vec() {
                Ok(b) => b,
                Err(e) => {
                    r.fail(sub, None, json!({"type": name}), format!("encoding into a Vec failed: {:?}", e));
                    return;
                }
            };
            let dbg = format!("{} elements, {} bytes encoded", v.debug().len().min(0) + bytes.len() / 2, bytes.len());
            mcx::slot::case(name, &bytes[..32]);
            let len = bytes.len();
            for cap in [0usize, 1, len / 2, len - 1, len, len + 1] {
                let outs = mcx::par::guard(|| {
                    let mut outs: Vec<(&str, SinkOut)> = vec![("&mut [u8]", v.into_slice(cap)), ("Cursor<&mut [u8]>", v.into_cursor_slice(cap)), ("Cursor<Box<[u8]>>", v.into_cursor_box(cap))];
                    for chunk in [1usize, 4096, 65536, 100_000, 131072, usize::MAX] {
                        outs.push(("Writer<io>", v.into_io_writer(cap, chunk)));
                    }
                    outs
                });
                let outs = match outs {
                    Ok(o) => o,
                    Err(p) => {
                        r.fail(sub, None, json!({"type": name, "capacity": cap, "encoding_len": len}), format!("encoding into a bounded sink panicked: {}", p));
                        continue;
                    }
                };
                for (sink, o) in &outs {
                    n += 1;
                    if o.res.is_ok() {
                        succ += 1;
                    }
                    if judge(r, sub, name, &dbg, sink, cap, &bytes, o) {
                        ok += 1;
                    }
                }
            }
            r.add(sub, n, ok);
            r.outcome(sub, "fits", succ);
            r.outcome(sub, "write error", n - succ);
        },
        crate::hang_handler(r.property.clone()),
    );
}

/// `ArrayIter` / `MapIter` over iterators with exact, inexact and unbounded size hints (definite / indefinite
/// framing) into slices and cursors of every capacity.
fn iterator_wrappers(r: &Report) {
    use minicbor::encode::{ArrayIter, MapIter};
    let sub = "iterator-wrappers";
    r.space(sub, true, "ArrayIter over [1000u16, 2, 70000-as-u32 ..] and MapIter over 3 entries with an exact, an inexact (filter) and an unbounded size hint x every capacity 0..=len+1 x {&mut [u8], Cursor<&mut [u8]>}: success iff it fits, otherwise a write error and a prefix of the encoding", 2);
    struct NoHint<I>(I);
    impl<I: Iterator> Iterator for NoHint<I> {
        type Item = I::Item;
        fn next(&mut self) -> Option<I::Item> {
            self.0.next()
        }
    }
    impl<I: Clone> Clone for NoHint<I> {
        fn clone(&self) -> Self {
            NoHint(self.0.clone())
        }
    }
    let items: [u32; 4] = [1000, 2, 70000, 24];
    let entries: [(u8, u16); 3] = [(1, 1000), (24, 2), (255, 65535)];
    fn run_one<T: minicbor::Encode<()>>(v: &T, cap: usize, cursor: bool) -> SinkOut {
        let mut mem = vec![0x5au8; cap + 32];
        mem[16..16 + cap].fill(0xa5);
        let (res, pos) = if cursor {
            let mut c = Cursor::new(&mut mem[16..16 + cap]);
            let r = minicbor::encode(v, &mut c).map_err(|e| enc_class(&e));
            (r, c.position())
        } else {
            let mut s: &mut [u8] = &mut mem[16..16 + cap];
            let r = minicbor::encode(v, &mut s).map_err(|e| enc_class(&e));
            (r, cap - s.len())
        };
        let canary_ok = mem[..16].iter().chain(&mem[16 + cap..]).all(|b| *b == 0x5a);
        SinkOut { canary_ok, res, buf: mem[16..16 + cap].to_vec(), pos }
    }
    let mut n = 0u64;
    let mut ok = 0u64;
    let mut succ = 0u64;
    macro_rules! all_caps {
        ($name:expr, $mk:expr) => {{
            let bytes = minicbor::to_vec($mk).expect("encoding into a Vec");
            for cap in 0..=bytes.len() + 1 {
                for cursor in [false, true] {
                    n += 1;
                    match mcx::par::guard(|| run_one(&$mk, cap, cursor)) {
                        Ok(o) => {
                            if o.res.is_ok() {
                                succ += 1;
                            }
                            if judge(r, sub, $name, "", if cursor { "Cursor<&mut [u8]>" } else { "&mut [u8]" }, cap, &bytes, &o) {
                                ok += 1;
                            }
                        }
                        Err(p) => r.fail(sub, None, json!({"type": $name, "capacity": cap}), format!("panicked: {}", p)),
                    }
                }
            }
        }};
    }
    all_caps!("ArrayIter (exact hint)", ArrayIter::new(items.iter()));
    all_caps!("ArrayIter (inexact hint)", ArrayIter::new(items.iter().filter(|x| **x != 7)));
    all_caps!("ArrayIter (no hint)", ArrayIter::new(NoHint(items.iter())));
    all_caps!("MapIter (exact hint)", MapIter::new(entries.iter().map(|(k, v)| (k, v))));
    all_caps!("MapIter (inexact hint)", MapIter::new(entries.iter().filter(|e| e.0 != 7).map(|(k, v)| (k, v))));
    all_caps!("MapIter (no hint)", MapIter::new(NoHint(entries.iter().map(|(k, v)| (k, v)))));
    r.add(sub, n, ok);
    r.outcome(sub, "fits", succ);
    r.outcome(sub, "write error", n - succ);
}

// ---- raw write_all sequences -------------------------------------------------------------

trait RawSink {
    fn write(&mut self, b: &[u8]) -> bool;
    fn position(&self) -> Option<usize>;
    fn contents(&self) -> Vec<u8>;
}

struct SliceSink {
    mem: Vec<u8>,
    cap: usize,
    used: usize,
}
impl RawSink for SliceSink {
    fn write(&mut self, b: &[u8]) -> bool {
        let cap = self.cap;
        let mut s: &mut [u8] = &mut self.mem[16 + self.used..16 + cap];
        let before = s.len();
        let r = s.write_all(b).is_ok();
        let after = s.len();
        self.used += before - after;
        r
    }
    fn position(&self) -> Option<usize> {
        Some(self.used)
    }
    fn contents(&self) -> Vec<u8> {
        self.mem.clone()
    }
}

struct CurBox(Cursor<Box<[u8]>>);
impl RawSink for CurBox {
    fn write(&mut self, b: &[u8]) -> bool {
        self.0.write_all(b).is_ok()
    }
    fn position(&self) -> Option<usize> {
        Some(self.0.position())
    }
    fn contents(&self) -> Vec<u8> {
        self.0.get_ref().to_vec()
    }
}

struct CurArr<const N: usize>(Cursor<[u8; N]>);
impl<const N: usize> RawSink for CurArr<N> {
    fn write(&mut self, b: &[u8]) -> bool {
        self.0.write_all(b).is_ok()
    }
    fn position(&self) -> Option<usize> {
        Some(self.0.position())
    }
    fn contents(&self) -> Vec<u8> {
        self.0.get_ref().to_vec()
    }
}

/// Cursor<&mut [u8]> over leaked memory with guard regions on both sides.
struct CurSlice {
    pre: &'static mut [u8],
    cur: Cursor<&'static mut [u8]>,
    post: &'static mut [u8],
}
impl CurSlice {
    fn new(cap: usize) -> Self {
        let mem: &'static mut [u8] = Box::leak(vec![0x5au8; cap + 32].into_boxed_slice());
        let (pre, rest) = mem.split_at_mut(16);
        let (body, post) = rest.split_at_mut(cap);
        body.fill(0xa5);
        CurSlice { pre, cur: Cursor::new(body), post }
    }
}
impl RawSink for CurSlice {
    fn write(&mut self, b: &[u8]) -> bool {
        self.cur.write_all(b).is_ok()
    }
    fn position(&self) -> Option<usize> {
        Some(self.cur.position())
    }
    fn contents(&self) -> Vec<u8> {
        let mut v = self.pre.to_vec();
        v.extend_from_slice(self.cur.get_ref());
        v.extend_from_slice(self.post);
        v
    }
}

fn mk_sinks(cap: usize) -> Vec<(&'static str, Box<dyn RawSink>, bool)> {
    let mem = || {
        let mut m = vec![0x5au8; cap + 32];
        m[16..16 + cap].fill(0xa5);
        m
    };
    let mut v: Vec<(&'static str, Box<dyn RawSink>, bool)> = vec![
        ("&mut [u8]", Box::new(SliceSink { mem: mem(), cap, used: 0 }), true),
        ("Cursor<&mut [u8]>", Box::new(CurSlice::new(cap)), true),
        ("Cursor<Box<[u8]>>", Box::new(CurBox(Cursor::new(vec![0xa5u8; cap].into_boxed_slice()))), false),
    ];
    match cap {
        0 => v.push(("Cursor<[u8; 0]>", Box::new(CurArr(Cursor::new([0xa5u8; 0]))), false)),
        1 => v.push(("Cursor<[u8; 1]>", Box::new(CurArr(Cursor::new([0xa5u8; 1]))), false)),
        2 => v.push(("Cursor<[u8; 2]>", Box::new(CurArr(Cursor::new([0xa5u8; 2]))), false)),
        3 => v.push(("Cursor<[u8; 3]>", Box::new(CurArr(Cursor::new([0xa5u8; 3]))), false)),
        4 => v.push(("Cursor<[u8; 4]>", Box::new(CurArr(Cursor::new([0xa5u8; 4]))), false)),
        _ => {}
    }
    v
}

fn sequences(r: &Report) {
    let sub = "write_all-sequences";
    let depth = if r.tier == Tier::Thorough { 6 } else { 4 };
    r.space(sub, true, &format!("all sequences of <= {} write_all calls with lengths 0..=cap+1 on &mut [u8], Cursor<&mut [u8]>, Cursor<Box<[u8]>>, Cursor<[u8; N]> for every capacity 0..=4 (the state is the cursor position, so this closes the reachable state space)", depth), 2);
    let mut n = 0u64;
    let mut states = std::collections::HashSet::new();
    let mut accepted_total = 0u64;
    for cap in 0..=4usize {
        // enumerate length sequences
        let lens: Vec<usize> = (0..=cap + 1).collect();
        let mut seqs: Vec<Vec<usize>> = vec![vec![]];
        let mut all: Vec<Vec<usize>> = vec![];
        for _ in 0..depth {
            let mut next = Vec::new();
            for s in &seqs {
                for l in &lens {
                    let mut t = s.clone();
                    t.push(*l);
                    next.push(t);
                }
            }
            all.extend(next.iter().cloned());
            seqs = next;
        }
        for seq in all {
            for (name, mut sink, has_canary) in mk_sinks(cap) {
                let mut model: Vec<u8> = Vec::new();
                for (step, l) in seq.iter().enumerate() {
                    let data: Vec<u8> = (0..*l).map(|i| (step * 16 + i + 1) as u8).collect();
                    let ok = match mcx::par::guard(|| sink.write(&data)) {
                        Ok(x) => x,
                        Err(p) => {
                            r.fail(sub, None, json!({"sink": name, "capacity": cap, "write_lengths": seq, "step": step}), format!("write_all panicked: {}", p));
                            break;
                        }
                    };
                    n += 1;
                    let fits = model.len() + l <= cap;
                    if fits {
                        model.extend_from_slice(&data);
                        accepted_total += 1;
                    }
                    let contents = sink.contents();
                    let body: &[u8] = if has_canary { &contents[16..16 + cap] } else { &contents[..] };
                    let case = || json!({"sink": name, "capacity": cap, "write_lengths": seq, "step": step});
                    if ok != fits {
                        r.fail(sub, None, case(), format!("write_all of {} bytes at position {} into capacity {} returned {}", l, model.len() - if fits { *l } else { 0 }, cap, if ok { "Ok" } else { "Err" }));
                    }
                    if sink.position() != Some(model.len()) {
                        r.fail(sub, None, case(), format!("position is {:?}, the model has accepted {} bytes", sink.position(), model.len()));
                    }
                    if body[..model.len()] != model[..] || body[model.len()..].iter().any(|b| *b != 0xa5) {
                        r.fail(sub, None, case(), format!("sink holds {}, the model holds {} followed by untouched bytes (a failed write_all must write nothing)", hex(body), hex(&model)));
                    }
                    if has_canary && (contents[..16].iter().any(|b| *b != 0x5a) || contents[16 + cap..].iter().any(|b| *b != 0x5a)) {
                        r.fail(sub, None, case(), "bytes outside the sink were modified");
                    }
                    states.insert((name, cap, model.len()));
                }
            }
        }
    }
    r.add(sub, n, accepted_total);
    r.add_states(sub, states.len() as u64, n);
    r.outcome(sub, "accepted", accepted_total);
    r.outcome(sub, "rejected", n - accepted_total);
    r.sample(sub, json!({"sink": "Cursor<[u8; 2]>", "capacity": 2, "write_lengths": [1, 2, 1], "expected": "Ok, Err (nothing written), Ok"}));
}

pub fn run(r: &Report) {
    large(r);
    iterator_wrappers(r);
    values(r);
    sequences(r);
    // (not in the fallback build that `./check` makes when the generated derive definitions do not compile)
    #[cfg(feature = "derive-family")]
    crate::derive_checks::c13(r);
    #[cfg(not(feature = "derive-family"))]
    r.assume("built without the derive schema family: derived values were not fed through the sinks in this run");
}
