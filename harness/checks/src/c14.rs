//! C14: blocking framed I/O round-trips under any fragmentation and detects truncation.
//!
//! Reader: every composition of the stream into read sizes x placements of
//! `Interrupted` x truncation points x max_len settings, against the
//! list-of-values model. Writer: every split of `write` calls into accepted
//! sizes (plus `Interrupted`), against the concatenation-of-frames model.

use crate::c16::Val;
use crate::io_common::*;
use mcx::explore::{explore_from, replay, SharedChooser};
use mcx::{Report, Tier};
use minicbor_io::{Reader, Writer};
use serde_json::json;
use std::cell::RefCell;
use std::collections::BTreeMap;
use std::io;
use std::rc::Rc;

struct SrcState {
    data: Vec<u8>,
    pos: usize,
    interrupts: u32,
    max_interrupts: u32,
    reads: u64,
    ch: SharedChooser,
}

struct Src(Rc<RefCell<SrcState>>);

impl io::Read for Src {
    fn read(&mut self, buf: &mut [u8]) -> io::Result<usize> {
        let mut s = self.0.borrow_mut();
        s.reads += 1;
        if s.reads > 2000 {
            panic!("HORIZON: the source was read more than 2000 times in one execution (livelock)");
        }
        let avail = s.data.len() - s.pos;
        let maxk = avail.min(buf.len());
        let mut menu = size_menu(maxk, s.data.len() > 32);
        let deliver = menu.n;
        if s.interrupts < s.max_interrupts {
            menu.push(1);
        }
        let c = s.ch.borrow_mut().choose("read", menu.costs());
        if c < deliver {
            let k = menu.sizes[c];
            let p = s.pos;
            buf[..k].copy_from_slice(&s.data[p..p + k]);
            s.pos += k;
            return Ok(k);
        }
        s.interrupts += 1;
        Err(io::Error::from(io::ErrorKind::Interrupted))
    }
}

#[derive(Debug, Clone)]
pub struct RScenario {
    pub frames: Vec<Frame>,
    pub avail: usize,
    pub max_len: Option<u32>,
    /// construct the reader with `with_buffer` and a recycled buffer (stale content, spare capacity)
    pub ctor: u8,
    /// after frame #i has been read, `set_max_len(m)` for good
    pub relimit: Option<(usize, u32)>,
}

impl RScenario {
    fn json(&self) -> serde_json::Value {
        json!({"side": "reader", "frames": describe(&self.frames), "stream_hex": refmodel::hex(&wire(&self.frames)), "bytes_before_end_of_stream": self.avail, "max_len": self.max_len, "constructor": self.ctor, "relimit": self.relimit.map(|(i, m)| vec![i as u64, m as u64])})
    }
}

pub fn run_reader(sc: &RScenario, max_interrupts: u32, ch: SharedChooser, out: &mut Option<Vec<Res>>) -> Result<(), String> {
    let mut data = wire(&sc.frames);
    data.truncate(sc.avail);
    let st = Rc::new(RefCell::new(SrcState { data, pos: 0, interrupts: 0, max_interrupts, reads: 0, ch }));
    let mut reader = if sc.ctor != 0 { Reader::with_buffer(Src(st.clone()), dirty_buffer(sc.ctor)) } else { Reader::new(Src(st.clone())) };
    let mut max_len = match sc.max_len {
        Some(m) => {
            reader.set_max_len(m);
            m as usize
        }
        None => 512 * 1024,
    };
    let first_limit = max_len;
    let expected = model_limits(&sc.frames, sc.avail, &|i| match sc.relimit {
        Some((k, m)) if i > k => m as usize,
        _ => first_limit,
    });
    let mut results = Vec::new();
    for (ci, want) in expected.values.iter().chain(std::iter::once(&expected.terminal)).enumerate() {
        mcx::slot::beat();
        if let Some((k, m)) = sc.relimit {
            if ci == k + 1 {
                reader.set_max_len(m);
                max_len = m as usize;
            }
        }
        if sc.ctor != 0 && sc.ctor != 4 {
            reader.set_max_len(0);
            reader.set_max_len(max_len as u32);
        }
        let (r, peak) = mcx::alloc::measured(|| classify_read(reader.read::<Vec<u8>>()));
        results.push(r.clone());
        if &r != want {
            return Err(format!("call #{} returned {:?}, the model expects {:?}; all results {:?}", results.len() - 1, r, want, results));
        }
        // allocation never exceeds the configured maximum (plus the decoded value and slack)
        let allowed = 2 * expected.max_frame + 4096;
        if peak > allowed {
            return Err(format!("call #{} allocated {} bytes; largest admissible frame is {} bytes (max_len {})", results.len() - 1, peak, expected.max_frame, max_len));
        }
    }
    // after a clean end the reader keeps reporting a clean end and never a value
    if expected.terminal == Res::CleanEnd {
        let r = classify_read(reader.read::<Vec<u8>>());
        if r != Res::CleanEnd {
            return Err(format!("a further read after the clean end returned {:?}", r));
        }
    }
    *out = Some(results);
    Ok(())
}

struct SinkState {
    coarse: bool,
    received: Vec<u8>,
    interrupts: u32,
    max_interrupts: u32,
    writes: u64,
    ch: SharedChooser,
}

struct Sink(Rc<RefCell<SinkState>>);

impl io::Write for Sink {
    fn write(&mut self, buf: &[u8]) -> io::Result<usize> {
        let mut s = self.0.borrow_mut();
        s.writes += 1;
        if s.writes > 2000 {
            panic!("HORIZON: the sink was written more than 2000 times in one execution (livelock)");
        }
        let n = buf.len();
        let mut menu = size_menu(n, s.coarse);
        let accept = menu.n;
        if s.interrupts < s.max_interrupts {
            menu.push(1);
        }
        let c = s.ch.borrow_mut().choose("write", menu.costs());
        if c < accept {
            let k = menu.sizes[c];
            s.received.extend_from_slice(&buf[..k]);
            return Ok(k);
        }
        s.interrupts += 1;
        Err(io::Error::from(io::ErrorKind::Interrupted))
    }
    fn flush(&mut self) -> io::Result<()> {
        Ok(())
    }
}

#[derive(Debug, Clone)]
pub struct WScenario {
    pub values: Vec<Val>,
    pub max_len: Option<u32>,
    pub ctor: u8,
    /// after value #i has been written, `set_max_len(m)` for good
    pub relimit: Option<(usize, u32)>,
}

impl WScenario {
    fn json(&self) -> serde_json::Value {
        json!({"side": "writer", "values": self.values.iter().map(|v| format!("{:?}", v)).collect::<Vec<_>>(), "max_len": self.max_len, "constructor": self.ctor, "relimit": self.relimit.map(|(i, m)| vec![i as u64, m as u64])})
    }
}

fn val_payload(v: &Val) -> Option<Vec<u8>> {
    match v {
        Val::Arr(a) => Some(array_payload(a)),
        Val::Nothing => Some(Vec::new()),
        _ => None,
    }
}

pub fn run_writer(sc: &WScenario, max_interrupts: u32, ch: SharedChooser, out: &mut Option<usize>) -> Result<(), String> {
    let st = Rc::new(RefCell::new(SinkState { coarse: sc.values.iter().any(|v| matches!(v, Val::Arr(a) if a.len() > 24)), received: Vec::new(), interrupts: 0, max_interrupts, writes: 0, ch }));
    let mut writer = if sc.ctor != 0 { Writer::with_buffer(Sink(st.clone()), dirty_buffer(sc.ctor)) } else { Writer::new(Sink(st.clone())) };
    let mut max_len = match sc.max_len {
        Some(m) => {
            writer.set_max_len(m);
            m as usize
        }
        None => 512 * 1024,
    };
    let mut model: Vec<u8> = Vec::new();
    for (i, v) in sc.values.iter().enumerate() {
        mcx::slot::beat();
        if let Some((k, m)) = sc.relimit {
            if i == k + 1 {
                writer.set_max_len(m);
                max_len = m as usize;
            }
        }
        let payload = val_payload(v);
        if sc.ctor != 0 && sc.ctor != 4 {
            writer.set_max_len(0);
            writer.set_max_len(max_len as u32);
        }
        let r = writer.write(v.clone());
        match (&payload, r) {
            (Some(p), Ok(n)) if p.len() <= max_len => {
                if n != p.len() {
                    return Err(format!("write #{} returned {} but the payload is {} bytes", i, n, p.len()));
                }
                model.extend_from_slice(&(p.len() as u32).to_be_bytes());
                model.extend_from_slice(p);
            }
            (Some(p), Ok(n)) => return Err(format!("write #{} of a {}-byte payload succeeded ({}) although max_len is {}", i, p.len(), n, max_len)),
            (Some(p), Err(e)) => {
                let c = classify_err(e);
                if p.len() > max_len && c == Res::InvalidLen {
                    // rejected: nothing may reach the sink
                } else {
                    return Err(format!("write #{} failed with {:?}", i, c));
                }
            }
            (None, Ok(n)) => return Err(format!("write #{} of a value that fails to encode returned Ok({})", i, n)),
            (None, Err(e)) => {
                let c = classify_err(e);
                if c != Res::EncodeErr {
                    return Err(format!("write #{} of a value that fails to encode failed with {:?} instead of an encode error", i, c));
                }
            }
        }
        if st.borrow().received != model {
            return Err(format!("after write #{} the sink holds {} but the frames written so far are {}", i, refmodel::hex(&st.borrow().received), refmodel::hex(&model)));
        }
    }
    *out = Some(model.len());
    Ok(())
}

pub fn reader_scenarios(tier: Tier) -> (Vec<RScenario>, u32, String) {
    let kinds = frame_kinds();
    let (max_frames, max_bytes, interrupts) = match tier {
        Tier::Quick => (3, 14, 1),
        Tier::Thorough => (3, 20, 2),
    };
    let mut out = Vec::new();
    for fs in frame_sequences(&kinds, 0, max_frames, max_bytes) {
        let total = wire(&fs).len();
        let largest = fs.iter().map(|f| f.payload.len()).max().unwrap_or(0) as u32;
        let mut maxlens = vec![None];
        if !fs.is_empty() {
            for m in [largest.saturating_sub(1), largest, largest + 1] {
                if !maxlens.contains(&Some(m)) {
                    maxlens.push(Some(m));
                }
            }
        }
        for ml in maxlens {
            for avail in 0..=total {
                if avail < total && !(ml.is_none() || ml == Some(largest)) {
                    continue;
                }
                out.push(RScenario { frames: fs.clone(), avail, max_len: ml, ctor: 0, relimit: None });
                if ml.is_none() && avail == total {
                    out.push(RScenario { frames: fs.clone(), avail, max_len: ml, ctor: 1, relimit: None });
                    if fs.len() <= 2 {
                        out.push(RScenario { frames: fs.clone(), avail, max_len: ml, ctor: 2, relimit: None });
                        out.push(RScenario { frames: fs.clone(), avail, max_len: ml, ctor: 3, relimit: None });
                    }
                }
            }
        }
    }
    // large frames: the payload length crosses a byte boundary of the length prefix
    for big in large_frames() {
        let l = big.payload.len();
        let huge = l > 1000;
        if huge && tier == Tier::Quick && l != 65536 && l < 500_000 {
            continue;
        }
        if l >= 500_000 {
            // the default maximum (512 KiB): a frame of exactly that size is read, one byte more is refused
            let fs = vec![big.clone()];
            out.push(RScenario { frames: fs.clone(), avail: wire(&fs).len(), max_len: None, ctor: 0, relimit: None });
            continue;
        }
        let seqs = if huge { vec![vec![big.clone()]] } else { vec![vec![big.clone()], vec![kinds[0].clone(), big.clone(), kinds[2].clone()]] };
        for fs in seqs {
            let total = wire(&fs).len();
            let lead = if fs.len() == 1 { 0 } else { 4 + kinds[0].payload.len() };
            let cuts = if huge { vec![total, total - 1, lead + 4 + l / 2] } else { vec![total, total - 1, lead + 4 + l, lead + 4 + l - 1, lead + 4 + l / 2, lead + 4, lead + 3] };
            for avail in cuts {
                out.push(RScenario { frames: fs.clone(), avail, max_len: None, ctor: 0, relimit: None });
            }
            out.push(RScenario { frames: fs.clone(), avail: total, max_len: Some(l as u32), ctor: 1, relimit: None });
            out.push(RScenario { frames: fs.clone(), avail: total, max_len: Some(l as u32 - 1), ctor: 0, relimit: None });
        }
    }
    // a recycled buffer with more capacity than the default maximum does not raise the limit
    for big in large_frames().into_iter().filter(|f| f.payload.len() >= 500_000) {
        let fs = vec![big.clone()];
        out.push(RScenario { frames: fs.clone(), avail: wire(&fs).len(), max_len: None, ctor: 4, relimit: None });
    }
    // a limit above the default: both frames around 512 KiB are read; limits at the top of the u32 range
    for big in large_frames().into_iter().filter(|f| f.payload.len() >= 500_000) {
        let fs = vec![big.clone()];
        out.push(RScenario { frames: fs.clone(), avail: wire(&fs).len(), max_len: Some(600_000), ctor: 0, relimit: None });
    }
    for m in [0x7fff_ffffu32, 0x8000_0000, u32::MAX - 4, u32::MAX - 3, u32::MAX] {
        let fs = vec![kinds[0].clone()];
        out.push(RScenario { frames: fs.clone(), avail: wire(&fs).len(), max_len: Some(m), ctor: 0, relimit: None });
        let fs = vec![kinds[1].clone(), kinds[0].clone()];
        out.push(RScenario { frames: fs.clone(), avail: wire(&fs).len(), max_len: None, ctor: 1, relimit: Some((0, m)) });
    }
    // the limit changed on a reader that has been used: lowered after a larger frame, lowered to exactly the next
    // frame's size, raised
    {
        let big = large_frames()[2].clone(); // 257 payload bytes
        let small = kinds[2].clone(); // [1,2]: 3 payload bytes
        let tiny = kinds[0].clone(); // [5]: 2 payload bytes
        for (fs, re) in [
            (vec![big.clone(), small.clone()], (0usize, 2u32)),
            (vec![big.clone(), small.clone()], (0, 3)),
            (vec![small.clone(), tiny.clone()], (0, 1)),
            (vec![small.clone(), tiny.clone(), small.clone()], (0, 2)),
            (vec![tiny.clone(), small.clone()], (0, 2)),
        ] {
            let total = wire(&fs).len();
            out.push(RScenario { frames: fs.clone(), avail: total, max_len: None, ctor: 0, relimit: Some(re) });
            out.push(RScenario { frames: fs.clone(), avail: total, max_len: Some(300), ctor: 1, relimit: Some(re) });
        }
        let fs = vec![small.clone(), tiny.clone()];
        out.push(RScenario { frames: fs.clone(), avail: wire(&fs).len(), max_len: Some(2), ctor: 0, relimit: Some((0, 3)) });
    }
    if tier == Tier::Thorough {
        let fs = vec![frame_2_pow_31()];
        out.push(RScenario { frames: fs.clone(), avail: 4, max_len: Some(u32::MAX), ctor: 0, relimit: None });
    }
    for h in hostile_frames() {
        for lead in [vec![], vec![kinds[0].clone()]] {
            let mut fs = lead.clone();
            fs.push(h.clone());
            let total = wire(&fs).len();
            out.push(RScenario { frames: fs.clone(), avail: total, max_len: None, ctor: 0, relimit: None });
            out.push(RScenario { frames: fs.clone(), avail: total, max_len: Some(8), ctor: 1, relimit: None });
        }
    }
    out.sort_by_key(|s| std::cmp::Reverse(s.avail));
    let bound = format!(
        "streams of 0..={} frames over {} payload kinds, <= {} bytes, plus 3 hostile declared lengths, plus frames with payloads of 255/256/257/65535/65536/65537 bytes (alone and between two small frames, cut at 7 points; reads of more than 32 bytes are delivered whole or, as one deviation each, as 1 / half / all-but-one bytes); Reader::new and Reader::with_buffer(recycled buffer, also one with 640 KiB of capacity); set_max_len lowered / raised after a frame on a used reader (11 scenarios); limits 600000 (with frames of 512 KiB and 512 KiB + 1) and 2^31-1 .. u32::MAX; every truncation point; max_len in {{default, L-1, L, L+1}}; all compositions of every read into delivered sizes; <= {} Interrupted errors anywhere",
        max_frames, kinds.len(), max_bytes, interrupts
    );
    (out, interrupts, bound)
}

pub fn writer_scenarios(tier: Tier) -> (Vec<WScenario>, u32, String) {
    let vals = vec![Val::Arr(vec![5]), Val::Arr(vec![]), Val::Arr(vec![1, 2]), Val::FailEnc, Val::PartialFail, Val::Nothing];
    let (max_vals, interrupts) = match tier {
        Tier::Quick => (2, 1),
        Tier::Thorough => (3, 2),
    };
    let mut seqs: Vec<Vec<Val>> = vec![vec![]];
    let mut all: Vec<Vec<Val>> = vec![vec![]];
    for _ in 0..max_vals {
        let mut next = Vec::new();
        for s in &seqs {
            for v in &vals {
                let mut t = s.clone();
                t.push(v.clone());
                next.push(t);
            }
        }
        all.extend(next.iter().cloned());
        seqs = next;
    }
    let mut out = Vec::new();
    for s in all {
        for ml in [None, Some(1u32), Some(2), Some(3)] {
            out.push(WScenario { values: s.clone(), max_len: ml, ctor: 0, relimit: None });
        }
        out.push(WScenario { values: s.clone(), max_len: None, ctor: 1, relimit: None });
        out.push(WScenario { values: s.clone(), max_len: None, ctor: 2, relimit: None });
        out.push(WScenario { values: s.clone(), max_len: None, ctor: 3, relimit: None });
    }
    for big in large_frames() {
        let v = Val::Arr(big.value.clone().unwrap());
        let l = big.payload.len() as u32;
        let huge = l > 1000;
        if huge && tier == Tier::Quick && l != 65536 && l < 500_000 {
            continue;
        }
        if l >= 500_000 {
            out.push(WScenario { values: vec![v.clone(), Val::Arr(vec![5])], max_len: None, ctor: 0, relimit: None });
            out.push(WScenario { values: vec![v.clone(), Val::Arr(vec![5])], max_len: None, ctor: 4, relimit: None });
            continue;
        }
        let seqs = if huge { vec![vec![v.clone()], vec![v.clone(), Val::FailEnc, Val::Arr(vec![5])]] } else { vec![vec![v.clone()], vec![Val::Arr(vec![5]), v.clone(), Val::Arr(vec![1, 2])], vec![v.clone(), Val::FailEnc, v.clone()]] };
        for seq in seqs {
            out.push(WScenario { values: seq.clone(), max_len: None, ctor: 0, relimit: None });
            out.push(WScenario { values: seq.clone(), max_len: Some(l), ctor: 1, relimit: None });
            out.push(WScenario { values: seq.clone(), max_len: Some(l - 1), ctor: 0, relimit: None });
        }
    }
    for big in large_frames().into_iter().filter(|f| f.payload.len() >= 500_000) {
        let v = Val::Arr(big.value.clone().unwrap());
        out.push(WScenario { values: vec![v], max_len: Some(600_000), ctor: 0, relimit: None });
    }
    for m in [0x7fff_ffffu32, 0x8000_0000, u32::MAX - 4, u32::MAX - 3, u32::MAX] {
        out.push(WScenario { values: vec![Val::Arr(vec![5])], max_len: Some(m), ctor: 0, relimit: None });
        out.push(WScenario { values: vec![Val::Arr(vec![]), Val::Arr(vec![5])], max_len: None, ctor: 1, relimit: Some((0, m)) });
    }
    {
        let big = Val::Arr(large_frames()[2].value.clone().unwrap());
        let small = Val::Arr(vec![1, 2]);
        let tiny = Val::Arr(vec![5]);
        for (vals, re) in [
            (vec![big.clone(), small.clone()], (0usize, 2u32)),
            (vec![big.clone(), small.clone()], (0, 3)),
            (vec![small.clone(), tiny.clone()], (0, 1)),
            (vec![small.clone(), tiny.clone(), small.clone()], (0, 2)),
            (vec![tiny.clone(), small.clone()], (0, 2)),
        ] {
            out.push(WScenario { values: vals.clone(), max_len: None, ctor: 0, relimit: Some(re) });
            out.push(WScenario { values: vals.clone(), max_len: Some(300), ctor: 1, relimit: Some(re) });
        }
        out.push(WScenario { values: vec![small.clone(), tiny.clone()], max_len: Some(2), ctor: 0, relimit: Some((0, 3)) });
    }
    let bound = format!(
        "0..={} values over {} kinds (3 arrays, 2 failing encoders, 1 value that encodes to zero bytes), max_len in {{default, 1, 2, 3}}, plus values with payloads of 255..65537 bytes (max_len L-1, L, default; writes of more than 32 bytes accepted whole or, as one deviation each, 1 / half / all-but-one bytes); Writer::new and Writer::with_buffer(recycled buffer, also one with 640 KiB of capacity); set_max_len lowered / raised after a value on a used writer (11 scenarios); limits 600000 (with values of 512 KiB and 512 KiB + 1) and 2^31-1 .. u32::MAX; all splits of every write into accepted sizes; <= {} Interrupted errors anywhere",
        max_vals, vals.len(), interrupts
    );
    (out, interrupts, bound)
}

pub fn run(r: &Report) {
    const FIRST: usize = 12;
    if r.tier == Tier::Thorough {
        // one scenario lets the reader provide a 2 GiB buffer (declared length 2^31 under a limit of u32::MAX): the
        // emergency cap moves out of the way, the per-call bound (2 x largest admissible frame + 4096) stays
        mcx::alloc::CAP.store(5 << 30, std::sync::atomic::Ordering::SeqCst);
        // .. and zero-filling 2 GiB can take seconds on a loaded machine: one execution may be silent for longer
        if std::env::var("VERIF_HANG_SECS").is_err() {
            std::env::set_var("VERIF_HANG_SECS", "180");
        }
    }
    let (rs, rint, rbound) = reader_scenarios(r.tier);
    r.space("reader-fragmentation", true, &rbound, 3);
    mcx::par::run_shards(
        rs.len() * FIRST,
        |shard| {
            let i = shard / FIRST;
            let first = (shard % FIRST) as u32;
            let sc = &rs[i];
            mcx::slot::case("c14-reader", sc.json().to_string().as_bytes());
            let mut outcomes: BTreeMap<String, u64> = BTreeMap::new();
            let mut nontrivial = 0u64;
            let (stats, fail) = explore_from(rint, Some((first, FIRST as u32)), |ch| {
                let mut o = None;
                let res = match mcx::par::guard(|| run_reader(sc, rint, ch, &mut o)) {
                    Ok(x) => x,
                    Err(p) => Err(format!("panic: {}", p)),
                };
                if let Some(o) = o {
                    *outcomes.entry(format!("{} values then {:?}", o.len() - 1, o.last().unwrap())).or_default() += 1;
                    if o.len() > 1 {
                        nontrivial += 1;
                    }
                }
                res
            });
            r.add("reader-fragmentation", stats.executions, nontrivial.min(stats.executions));
            r.add_states("reader-fragmentation", stats.executions, stats.choice_points);
            r.outcomes("reader-fragmentation", &outcomes);
            if i % 301 == 0 && first == 0 {
                r.sample("reader-fragmentation", json!({"scenario": sc.json(), "executions_in_shard": stats.executions}));
            }
            if let Some((choices, labels, msg)) = fail {
                let again = || {
                    let mut o = None;
                    replay(&choices, |ch| match mcx::par::guard(|| run_reader(sc, rint, ch, &mut o)) {
                        Ok(x) => x,
                        Err(p) => Err(format!("panic: {}", p)),
                    })
                    .1
                };
                if again() != Err(msg.clone()) || again() != Err(msg.clone()) {
                    r.machinery_error(format!("nondeterministic replay of a failing schedule: {}", msg));
                }
                r.fail("reader-fragmentation", None, json!({"scenario": sc.json(), "interrupts": rint, "choices": choices, "schedule": labels}), msg);
            }
        },
        crate::hang_handler(r.property.clone()),
    );
    let (ws, wint, wbound) = writer_scenarios(r.tier);
    r.space("writer-short-writes", true, &wbound, 2);
    mcx::par::run_shards(
        ws.len() * FIRST,
        |shard| {
            let i = shard / FIRST;
            let first = (shard % FIRST) as u32;
            let sc = &ws[i];
            mcx::slot::case("c14-writer", sc.json().to_string().as_bytes());
            let mut outcomes: BTreeMap<String, u64> = BTreeMap::new();
            let mut nontrivial = 0u64;
            let (stats, fail) = explore_from(wint, Some((first, FIRST as u32)), |ch| {
                let mut o = None;
                let res = match mcx::par::guard(|| run_writer(sc, wint, ch, &mut o)) {
                    Ok(x) => x,
                    Err(p) => Err(format!("panic: {}", p)),
                };
                if let Some(n) = o {
                    *outcomes.entry(format!("{} sink bytes", n)).or_default() += 1;
                    if n > 0 {
                        nontrivial += 1;
                    }
                }
                res
            });
            r.add("writer-short-writes", stats.executions, nontrivial.min(stats.executions));
            r.add_states("writer-short-writes", stats.executions, stats.choice_points);
            r.outcomes("writer-short-writes", &outcomes);
            if i % 53 == 0 && first == 0 {
                r.sample("writer-short-writes", json!({"scenario": sc.json(), "executions_in_shard": stats.executions}));
            }
            if let Some((choices, labels, msg)) = fail {
                r.fail("writer-short-writes", None, json!({"scenario": sc.json(), "interrupts": wint, "choices": choices, "schedule": labels}), msg);
            }
        },
        crate::hang_handler(r.property.clone()),
    );
}

pub fn replay_case(case: &serde_json::Value) -> Result<(), String> {
    let sc = &case["scenario"];
    let choices: Vec<u32> = case["choices"].as_array().unwrap().iter().map(|x| x.as_u64().unwrap() as u32).collect();
    let ints = case["interrupts"].as_u64().unwrap() as u32;
    if sc["side"] == "reader" {
        let names: Vec<String> = sc["frames"].as_array().unwrap().iter().map(|x| x.as_str().unwrap().to_string()).collect();
        let all: Vec<Frame> = frame_kinds().into_iter().chain(hostile_frames()).chain(large_frames()).chain([frame_2_pow_31()]).collect();
        let frames: Vec<Frame> = names.iter().map(|n| all.iter().find(|f| f.name == n).unwrap().clone()).collect();
        let scen = RScenario { frames, avail: sc["bytes_before_end_of_stream"].as_u64().unwrap() as usize, max_len: sc["max_len"].as_u64().map(|x| x as u32), ctor: sc["constructor"].as_u64().unwrap_or(0) as u8, relimit: sc["relimit"].as_array().map(|a| (a[0].as_u64().unwrap() as usize, a[1].as_u64().unwrap() as u32)) };
        let mut o = None;
        let (labels, res) = replay(&choices, |ch| run_reader(&scen, ints, ch, &mut o));
        for l in labels {
            println!("  {}", l);
        }
        println!("  results: {:?}", o);
        res
    } else {
        Err("writer-side cases are replayed by re-running the check".to_string())
    }
}
