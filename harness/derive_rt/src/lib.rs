//! Run-time support for the generated derive types: harness field types with custom
//! codecs, result types of the generated entry points.

use minicbor::decode::{self, Decode, Decoder};
use minicbor::encode::{self, CborLen, Encode, Encoder, Write};
use refmodel::schema::GenVal;

#[derive(Debug, Clone, Copy, PartialEq, Eq, Hash, PartialOrd, Ord)]
pub enum ErrClass {
    EndOfInput,
    TypeMismatch,
    TagMismatch,
    Message,
    Custom,
    UnknownVariant,
    MissingValue,
    Other,
}

pub fn classify(e: &decode::Error) -> ErrClass {
    if e.is_end_of_input() {
        ErrClass::EndOfInput
    } else if e.is_type_mismatch() {
        ErrClass::TypeMismatch
    } else if e.is_tag_mismatch() {
        ErrClass::TagMismatch
    } else if e.is_message() {
        ErrClass::Message
    } else if e.is_custom() {
        ErrClass::Custom
    } else if e.is_unknown_variant() {
        ErrClass::UnknownVariant
    } else if e.is_missing_value() {
        ErrClass::MissingValue
    } else {
        ErrClass::Other
    }
}

#[derive(Debug, Clone, PartialEq)]
pub enum DecRes {
    /// value, position after decoding, borrowed fields point into the input
    Ok(GenVal, usize, bool),
    Err(ErrClass, usize),
}

pub struct Entry {
    pub id: usize,
    pub to_vec: fn(&GenVal) -> Result<Vec<u8>, String>,
    pub len: fn(&GenVal) -> usize,
    /// (Ok or Err(is_write_error), number of bytes accepted by the slice)
    pub encode_slice: fn(&GenVal, &mut [u8]) -> (Result<(), bool>, usize),
    pub decode: fn(&[u8]) -> DecRes,
}

pub fn inside(buf: &[u8], p: *const u8, len: usize) -> bool {
    let s = buf.as_ptr() as usize;
    len == 0 || (p as usize >= s && p as usize + len <= s + buf.len())
}

/// A u8 with a nil value; has no Encode/Decode impls of its own: only usable through the
/// custom codec functions in `nilu8`.
#[derive(Debug, Clone, Copy, PartialEq, Eq)]
pub struct NilU8(pub Option<u8>);

/// A type whose own impls write an unsigned integer and accept either an integer or a one-element array; fields of
/// this type carry a custom codec for ONE direction only (`encode_with` alone writes the array form, `decode_with`
/// alone reads both forms), so the derived code has to combine a custom function with the type's own impl.
#[derive(Debug, Clone, PartialEq)]
pub struct Flex(pub u8);

pub mod flex {
    use super::*;

    pub fn encode_arr<C, W: Write>(v: &Flex, e: &mut Encoder<W>, _: &mut C) -> Result<(), encode::Error<W::Error>> {
        e.array(1)?.u8(v.0)?.ok()
    }

    pub fn cbor_len_arr<C>(v: &Flex, ctx: &mut C) -> usize {
        1 + v.0.cbor_len(ctx)
    }

    pub fn decode_any<'b, C>(d: &mut Decoder<'b>, _: &mut C) -> Result<Flex, decode::Error> {
        use minicbor::data::Type;
        match d.datatype()? {
            Type::Array | Type::ArrayIndef => {
                let p = d.position();
                let mut it = d.array_iter::<u8>()?;
                let x = it.next().ok_or_else(|| decode::Error::message("flex: empty array").at(p))??;
                if it.next().is_some() {
                    return Err(decode::Error::message("flex: more than one element").at(p));
                }
                Ok(Flex(x))
            }
            _ => d.u8().map(Flex),
        }
    }
}

// The type's own impls declare Flex(0) to be its nil value. A field that carries a custom codec - for either
// direction - takes its nil-ness from `is_nil` / `nil` / `has_nil` or from being spelled `Option` on BOTH sides
// (the attributes are documented as the way to give a custom-codec field a nil value), never from the type's own
// impls: Flex fields therefore are always written and always required. What the round trip needs is that the
// encoding and the decoding side agree on this.
impl<C> Encode<C> for Flex {
    fn encode<W: Write>(&self, e: &mut Encoder<W>, _: &mut C) -> Result<(), encode::Error<W::Error>> {
        e.u8(self.0)?.ok()
    }
    fn is_nil(&self) -> bool {
        self.0 == 0
    }
}

impl<'b, C> Decode<'b, C> for Flex {
    fn decode(d: &mut Decoder<'b>, ctx: &mut C) -> Result<Self, decode::Error> {
        flex::decode_any(d, ctx)
    }
    fn nil() -> Option<Self> {
        Some(Flex(0))
    }
}

impl<C> CborLen<C> for Flex {
    fn cbor_len(&self, ctx: &mut C) -> usize {
        self.0.cbor_len(ctx)
    }
}

pub mod nilu8 {
    use super::*;

    pub fn encode<C, W: Write>(v: &NilU8, e: &mut Encoder<W>, _: &mut C) -> Result<(), encode::Error<W::Error>> {
        match v.0 {
            Some(x) => e.u8(x)?.ok(),
            None => e.null()?.ok(),
        }
    }

    pub fn decode<'b, C>(d: &mut Decoder<'b>, _: &mut C) -> Result<NilU8, decode::Error> {
        if d.datatype()? == minicbor::data::Type::Null {
            d.null()?;
            return Ok(NilU8(None));
        }
        d.u8().map(|x| NilU8(Some(x)))
    }

    pub fn is_nil(v: &NilU8) -> bool {
        v.0.is_none()
    }

    pub fn nil() -> Option<NilU8> {
        Some(NilU8(None))
    }

    pub fn cbor_len<C>(v: &NilU8, ctx: &mut C) -> usize {
        match v.0 {
            Some(x) => x.cbor_len(ctx),
            None => 1,
        }
    }
}

// Decoy impls: a field of this type always carries a custom codec, so these must never be used
// by derived code; if they are (a derive that falls back to the type's own impl), the result is
// visibly wrong instead of a compile error.
impl<C> Encode<C> for NilU8 {
    fn encode<W: Write>(&self, e: &mut Encoder<W>, _: &mut C) -> Result<(), encode::Error<W::Error>> {
        e.str("decoy: NilU8's own Encode impl was used")?.ok()
    }
}

impl<'b, C> Decode<'b, C> for NilU8 {
    fn decode(d: &mut Decoder<'b>, _: &mut C) -> Result<Self, decode::Error> {
        Err(decode::Error::message("decoy: NilU8's own Decode impl was used").at(d.position()))
    }
}

impl<C> CborLen<C> for NilU8 {
    fn cbor_len(&self, _: &mut C) -> usize {
        100
    }
}

/// Encodes as an indefinite-length array of u8 (exercises `skip()`'s stack mode inside derived decoders).
#[derive(Debug, Clone, PartialEq, Eq)]
pub struct IndefArr(pub Vec<u8>);

impl<C> Encode<C> for IndefArr {
    fn encode<W: Write>(&self, e: &mut Encoder<W>, _: &mut C) -> Result<(), encode::Error<W::Error>> {
        e.begin_array()?;
        for x in &self.0 {
            e.u8(*x)?;
        }
        e.end()?.ok()
    }
}

impl<'b, C> Decode<'b, C> for IndefArr {
    fn decode(d: &mut Decoder<'b>, _: &mut C) -> Result<Self, decode::Error> {
        let mut v = Vec::new();
        for x in d.array_iter::<u8>()? {
            v.push(x?)
        }
        Ok(IndefArr(v))
    }
}

impl<C> CborLen<C> for IndefArr {
    fn cbor_len(&self, ctx: &mut C) -> usize {
        2 + self.0.iter().map(|x| x.cbor_len(ctx)).sum::<usize>()
    }
}
