//! The deterministic input corpus shared by the feature-configuration probes (C20) and the
//! comparator: both sides regenerate it, so transcripts can be compared record by record.

use crate::enumerate::*;
use crate::item::*;

/// Inputs for the decoding operations.
pub fn cfg_inputs(thorough: bool) -> Vec<Vec<u8>> {
    let mut v: Vec<Vec<u8>> = Vec::new();
    for n in 0..=2 {
        for_each_bytes(n, 0..256, |b| v.push(b.to_vec()));
    }
    if thorough {
        // all 3-byte strings behind one initial byte of every head class (the six transcripts of ~85 operations are
        // held in memory: all 2^24 strings would need > 100 GB)
        for first in [0x18u8, 0x19, 0x38, 0x39, 0x58, 0x5f, 0x78, 0x7f, 0x81, 0x82, 0x98, 0x9f, 0xa1, 0xb8, 0xbf, 0xc1, 0xd8, 0xf8, 0xf9, 0xfa] {
            for_each_bytes(3, first as usize..first as usize + 1, |b| v.push(b.to_vec()));
        }
    }
    v.extend(hostile_heads());
    // nesting beyond what an 8- / 16-bit depth counter holds (containers of one kind, so that the builds without
    // alloc can skip them), long containers and strings
    for depth in [256usize, 65536] {
        for opener in [&[0x9fu8][..], &[0xbf, 0x00][..], &[0x81][..]] {
            let mut b: Vec<u8> = Vec::new();
            for _ in 0..depth {
                b.extend_from_slice(opener);
            }
            b.push(0x00);
            if opener[0] != 0x81 {
                b.extend(std::iter::repeat(0xff).take(depth));
            }
            b.push(0x05);
            v.push(b);
        }
        let mut a = preferred_head(4, depth as u64);
        a.extend(std::iter::repeat(0x00).take(depth));
        v.push(a);
        let mut t = preferred_head(3, depth as u64);
        t.extend(std::iter::repeat(b'a').take(depth));
        v.push(t);
    }
    let nodes = if thorough { 5 } else { 4 };
    let alpha = if thorough { Alphabet::medium() } else { Alphabet::full() };
    for t in trees_up_to(nodes, &alpha) {
        v.push(t.to_bytes());
        if t.nodes() <= 3 {
            for d in deviations(&t, true, true) {
                v.push(d.to_bytes());
            }
        }
    }
    // a few encodings of the derived probe types and of typed values
    for h in ["8205f6", "83051807", "a2000502f6", "bf0005ff", "820082f601", "82018118ff", "8200a0", "9f0005ff", "c18100", "d81845000102", "821b00000000ffffffff1a3b9ac9ff", "8201820102", "82624142f5", "a1616101", "bf616101ff", "8361610203",
        // tagged derived probe types: right tags, wrong tags, missing tags
        "c582c601d9012c02", "c582c601", "c482c601", "c582c701", "c58201", "c582c601d9012d02", "c582c601f6", "82c601d9012c02", "c1a100c107", "c1a10007", "c2a100c107", "a100c107", "8200c180", "820080", "8200c280", "8201c181c105", "8201c18105", "8201c281c105", "8201c181c205",
        // nested / index-only / transparent probe types
        "8300a2006161020582c601f6", "8303f6f6", "8305f6f6", "83f6a0c582c601d9012c02", "83f6a0c482c601", "820507", "03", "04",
        // Cow probe types
        "83616141ff6162", "837f616161ffff5f4101ff60", "6161", "7f6161ff", "836161f6f6",
        // fixed-size arrays with too few / too many elements
        "80", "8101", "820102", "83010203", "9f0102ff", "9f010203ff", "84f6f6f6f6"] {
        v.push(unhex(h));
    }
    v
}

/// The trees used by the skip check in the builds without `alloc` (C06).
pub fn skip_trees(thorough: bool) -> Vec<Item> {
    let mut v = trees_up_to(if thorough { 6 } else { 5 }, &Alphabet::structural());
    v.extend(skip_leaf_form_trees());
    v
}

/// Small trees over every leaf head form (each form is its own arm in `skip`).
pub fn skip_leaf_form_trees() -> Vec<Item> {
    trees_up_to(3, &Alphabet::leaf_forms())
}
