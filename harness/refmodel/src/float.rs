//! Bit-level IEEE 754 conversions between binary16, binary32 and binary64,
//! written from the standard and independent of the `half` crate.

/// Round-to-nearest-even right shift.
fn rne_shift(x: u64, shift: u32) -> u64 {
    if shift == 0 {
        return x;
    }
    if shift >= 64 {
        return 0;
    }
    let q = x >> shift;
    let rem = x & ((1u64 << shift) - 1);
    let half = 1u64 << (shift - 1);
    if rem > half || (rem == half && q & 1 == 1) {
        q + 1
    } else {
        q
    }
}

pub fn f16_is_nan(h: u16) -> bool {
    h & 0x7c00 == 0x7c00 && h & 0x03ff != 0
}

pub fn f32_is_nan(b: u32) -> bool {
    b & 0x7f80_0000 == 0x7f80_0000 && b & 0x007f_ffff != 0
}

pub fn f64_is_nan(b: u64) -> bool {
    b & 0x7ff0_0000_0000_0000 == 0x7ff0_0000_0000_0000 && b & 0x000f_ffff_ffff_ffff != 0
}

/// Is this half pattern a signalling NaN (NaN with the quiet bit clear)?
pub fn f16_is_snan(h: u16) -> bool {
    f16_is_nan(h) && h & 0x0200 == 0
}

/// Exact widening binary16 -> binary32 (NaN payload moved to the top mantissa bits).
pub fn f16_to_f32(h: u16) -> u32 {
    let sign = ((h >> 15) as u32) << 31;
    let e = ((h >> 10) & 0x1f) as i32;
    let mut m = (h & 0x3ff) as u32;
    if e == 0 {
        if m == 0 {
            return sign;
        }
        // subnormal: value = m / 1024 * 2^-14; normalise
        let mut ex = -14i32;
        while m & 0x400 == 0 {
            m <<= 1;
            ex -= 1;
        }
        m &= 0x3ff;
        return sign | (((ex + 127) as u32) << 23) | (m << 13);
    }
    if e == 31 {
        return sign | 0x7f80_0000 | (m << 13);
    }
    sign | (((e - 15 + 127) as u32) << 23) | (m << 13)
}

/// Exact widening binary32 -> binary64.
pub fn f32_to_f64(b: u32) -> u64 {
    let sign = ((b >> 31) as u64) << 63;
    let e = ((b >> 23) & 0xff) as i64;
    let mut m = (b & 0x7f_ffff) as u64;
    if e == 0 {
        if m == 0 {
            return sign;
        }
        let mut ex = -126i64;
        while m & 0x80_0000 == 0 {
            m <<= 1;
            ex -= 1;
        }
        m &= 0x7f_ffff;
        return sign | (((ex + 1023) as u64) << 52) | (m << 29);
    }
    if e == 255 {
        return sign | 0x7ff0_0000_0000_0000 | (m << 29);
    }
    sign | (((e - 127 + 1023) as u64) << 52) | (m << 29)
}

pub fn f16_to_f64(h: u16) -> u64 {
    f32_to_f64(f16_to_f32(h))
}

/// Narrowing binary32 -> binary16 with round-to-nearest-even; overflow gives infinity.
/// For NaN inputs the result is *some* NaN (callers must not compare NaN payloads).
pub fn f32_to_f16(b: u32) -> u16 {
    let sign = ((b >> 31) as u16) << 15;
    let exp = ((b >> 23) & 0xff) as i32;
    let man = (b & 0x7f_ffff) as u64;
    if exp == 255 {
        if man == 0 {
            return sign | 0x7c00;
        }
        return sign | 0x7e00;
    }
    if exp == 0 {
        // zero or binary32 subnormal (< 2^-126): far below half of the smallest half subnormal
        return sign;
    }
    let unbiased = exp - 127;
    let half_exp = unbiased + 15;
    if half_exp >= 31 {
        return sign | 0x7c00;
    }
    if half_exp <= 0 {
        // subnormal result: q = value / 2^-24 = man_full * 2^(unbiased + 1), unbiased + 1 < 0
        let man_full = man | 0x80_0000;
        let shift = (-(unbiased + 1)) as u32;
        let q = rne_shift(man_full, shift) as u16;
        return sign | q;
    }
    let q = rne_shift(man, 13) as u16;
    // carry out of the mantissa increments the exponent; 30 + carry = 31 with mantissa 0 = infinity
    sign | (((half_exp as u16) << 10) + q)
}

/// Is the binary32 value exactly representable in binary16? (NaNs: false.)
pub fn f32_fits_f16(b: u32) -> bool {
    if f32_is_nan(b) {
        return false;
    }
    f16_to_f32(f32_to_f16(b)) == b
}

#[cfg(test)]
mod tests {
    use super::*;

    #[test]
    fn known_values() {
        assert_eq!(f16_to_f32(0x3c00), 1.0f32.to_bits());
        assert_eq!(f16_to_f32(0x3e00), 1.5f32.to_bits());
        assert_eq!(f16_to_f32(0xc000), (-2.0f32).to_bits());
        assert_eq!(f16_to_f32(0x7bff), 65504.0f32.to_bits());
        assert_eq!(f16_to_f32(0x0001), (5.960464477539063e-8f32).to_bits());
        assert_eq!(f16_to_f32(0x0400), (0.00006103515625f32).to_bits());
        assert_eq!(f16_to_f32(0x7c00), f32::INFINITY.to_bits());
        assert_eq!(f32_to_f64(1.5f32.to_bits()), 1.5f64.to_bits());
        assert_eq!(f32_to_f64(f32::MIN_POSITIVE.to_bits()), (f32::MIN_POSITIVE as f64).to_bits());
        assert_eq!(f32_to_f64(1u32), (f32::from_bits(1) as f64).to_bits());
        assert_eq!(f32_to_f16(65504.0f32.to_bits()), 0x7bff);
        assert_eq!(f32_to_f16(65520.0f32.to_bits()), 0x7c00); // tie rounds to even = inf
        assert_eq!(f32_to_f16(65519.99f32.to_bits()), 0x7bff);
        assert_eq!(f32_to_f16(1.0f32.to_bits()), 0x3c00);
        assert_eq!(f32_to_f16((2.0f32.powi(-25)).to_bits()), 0x0000); // tie to even
        assert_eq!(f32_to_f16((2.0f32.powi(-25) * 1.0001).to_bits()), 0x0001);
        assert_eq!(f32_to_f16((2.0f32.powi(-24) * 1.5).to_bits()), 0x0002); // 1.5 -> tie to even 2
    }

    #[test]
    fn widen_agrees_with_std() {
        for b in (0u64..=u32::MAX as u64).step_by(65521) {
            let b = b as u32;
            let f = f32::from_bits(b);
            if f.is_nan() {
                assert!(f64_is_nan(f32_to_f64(b)));
            } else {
                assert_eq!(f32_to_f64(b), (f as f64).to_bits());
            }
        }
    }

    #[test]
    fn half_roundtrip() {
        for h in 0..=u16::MAX {
            if f16_is_nan(h) {
                assert!(f32_is_nan(f16_to_f32(h)));
                continue;
            }
            assert_eq!(f32_to_f16(f16_to_f32(h)), h, "h={:04x}", h);
        }
    }
}
