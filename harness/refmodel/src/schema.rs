//! Schema IR for minicbor-derive inputs: the grammar of type definitions that is
//! enumerated (and compiled by `gen_derive/build.rs`), the generic value tree, the
//! documented wire format as an interpreter (`schema_encode`) and the documented
//! decoding / compatibility rules as an interpreter (`schema_decode`).
//!
//! The generator and the run-time oracle share this one data structure, so generated
//! code and interpreted schema cannot drift.

use crate::item::*;

#[derive(Debug, Clone, Copy, PartialEq, Eq, Hash)]
pub enum Enc {
    Array,
    Map,
}

#[derive(Debug, Clone, Copy, PartialEq, Eq, Hash)]
pub enum Shape {
    Named,
    Tuple,
    Unit,
}

/// Field types of the grammar.
#[derive(Debug, Clone, PartialEq, Eq, Hash)]
pub enum FTy {
    U8,
    OptU8,
    Str,
    OptStr,
    /// `&'a str`
    StrRef,
    /// `Cow<'a, str>` (borrows when annotated with #[b])
    CowStr,
    /// `Vec<u8>` with `#[cbor(with = "minicbor::bytes")]`
    BytesVec,
    /// `Option<&'a [u8]>` with `#[cbor(with = "minicbor::bytes")]`
    OptBytesRef,
    /// `[u8; 4]` with `#[cbor(with = "minicbor::bytes")]`
    ByteArr4,
    /// `Cow<'a, [u8]>` with `#[cbor(with = "minicbor::bytes")]` (borrows when annotated with #[b])
    CowBytes,
    /// `Option<minicbor::bytes::ByteVec>` (no attribute: the newtype has its own impls)
    OptByteVec,
    /// `&'a minicbor::bytes::ByteSlice`
    ByteSliceRef,
    /// `minicbor::bytes::ByteArray<4>`
    ByteArrayT,
    /// nested generated type (schema id)
    Nested(usize),
    OptNested(usize),
    /// a generic parameter `G` instantiated with `Option<T{id}>`: optional only through `Decode::nil` / `Encode::is_nil`
    GenericOptNested(usize),
    /// generic parameter `G`, instantiated with u8
    GenericU8,
    /// generic parameter `G`, instantiated with Option<u8>
    GenericOptU8,
    /// harness type with a nil-aware custom codec via encode_with / decode_with / is_nil / nil / cbor_len
    NilU8Fns,
    /// same functions, attributes given in other orders / split over two attributes (the order must not matter)
    NilU8FnsB,
    NilU8FnsC,
    NilU8FnsD,
    /// same type via `with = "module"` + `has_nil`
    NilU8With,
    /// `Box<Option<u8>>`: `Box` forwards both `is_nil` and `nil`, the field is optional like `Option<u8>`
    BoxOptU8,
    /// `minicbor::data::Tagged<7, Option<u8>>`: forwards neither, always written as 7(null) / 7(n) and required
    TaggedOptU8,
    /// `std::cell::Cell<Option<u8>>`: `Cell` forwards neither, the field is always written (NULL for `None`) and required
    CellOptU8,
    /// derive_rt::Flex with `encode_with` + `cbor_len` only (array form on the wire; the type's own Decode reads it)
    FlexEncOnly,
    /// derive_rt::Flex with `decode_with` only (the type's own Encode writes the integer form)
    FlexDecOnly,
    /// harness type that encodes as an indefinite-length array of u8
    IndefArr,
    /// `Option<IndefArr>`
    OptIndefArr,
}

#[derive(Debug, Clone, PartialEq, Eq, Hash)]
pub struct FieldS {
    pub idx: u32,
    /// `#[b(..)]` instead of `#[n(..)]`
    pub borrow: bool,
    pub ty: FTy,
    pub tag: Option<u64>,
    /// `#[cbor(skip)]` (type is u8, value on decode is the default)
    pub skip: bool,
}

#[derive(Debug, Clone, PartialEq, Eq, Hash)]
pub struct StructS {
    pub shape: Shape,
    pub enc: Option<Enc>,
    pub tag: Option<u64>,
    pub transparent: bool,
    /// in declaration order
    pub fields: Vec<FieldS>,
}

#[derive(Debug, Clone, PartialEq, Eq, Hash)]
pub struct VariantS {
    pub idx: u32,
    pub shape: Shape,
    pub enc: Option<Enc>,
    pub tag: Option<u64>,
    pub fields: Vec<FieldS>,
}

#[derive(Debug, Clone, PartialEq, Eq, Hash)]
pub struct EnumS {
    pub enc: Option<Enc>,
    pub tag: Option<u64>,
    pub index_only: bool,
    pub variants: Vec<VariantS>,
}

#[derive(Debug, Clone, PartialEq, Eq, Hash)]
pub enum Kind {
    Struct(StructS),
    Enum(EnumS),
}

#[derive(Debug, Clone, PartialEq, Eq, Hash)]
pub struct Schema {
    pub id: usize,
    /// sub-grammar this schema belongs to
    pub family: &'static str,
    pub kind: Kind,
    /// only used as a field type of other schemas (not checked on its own)
    pub helper: bool,
}

/// Generic value tree.
#[derive(Debug, Clone, PartialEq, Eq, Hash)]
pub enum GenVal {
    U8(u8),
    Opt(Option<Box<GenVal>>),
    Str(String),
    Bytes(Vec<u8>),
    /// one value per declared field (skipped fields included)
    Struct(Vec<GenVal>),
    /// variant by position in the declaration, one value per declared field
    Enum(usize, Vec<GenVal>),
}

impl GenVal {
    pub fn u8(&self) -> u8 {
        match self {
            GenVal::U8(x) => *x,
            o => panic!("GenVal::u8 on {:?}", o),
        }
    }
    pub fn opt(&self) -> Option<&GenVal> {
        match self {
            GenVal::Opt(x) => x.as_deref(),
            o => panic!("GenVal::opt on {:?}", o),
        }
    }
    pub fn str(&self) -> &str {
        match self {
            GenVal::Str(x) => x,
            o => panic!("GenVal::str on {:?}", o),
        }
    }
    pub fn bytes(&self) -> &[u8] {
        match self {
            GenVal::Bytes(x) => x,
            o => panic!("GenVal::bytes on {:?}", o),
        }
    }
    pub fn fields(&self) -> &[GenVal] {
        match self {
            GenVal::Struct(f) => f,
            GenVal::Enum(_, f) => f,
            o => panic!("GenVal::fields on {:?}", o),
        }
    }
    pub fn variant(&self) -> usize {
        match self {
            GenVal::Enum(v, _) => *v,
            o => panic!("GenVal::variant on {:?}", o),
        }
    }
    pub fn some(v: GenVal) -> GenVal {
        GenVal::Opt(Some(Box::new(v)))
    }
    pub fn none() -> GenVal {
        GenVal::Opt(None)
    }
}

impl FTy {
    /// Can the field be absent (its type has a nil value)?
    pub fn nilable(&self) -> bool {
        matches!(self, FTy::BoxOptU8 | FTy::OptU8 | FTy::OptStr | FTy::OptBytesRef | FTy::OptByteVec | FTy::OptNested(_) | FTy::GenericOptNested(_) | FTy::GenericOptU8 | FTy::NilU8Fns | FTy::NilU8FnsB | FTy::NilU8FnsC | FTy::NilU8FnsD | FTy::NilU8With | FTy::OptIndefArr)
    }
    pub fn has_lifetime(&self, all: &[Schema]) -> bool {
        match self {
            FTy::StrRef | FTy::CowStr | FTy::OptBytesRef | FTy::CowBytes | FTy::ByteSliceRef => true,
            FTy::Nested(j) | FTy::OptNested(j) | FTy::GenericOptNested(j) => all[*j].has_lifetime(all),
            _ => false,
        }
    }
}

impl Schema {
    pub fn all_fields(&self) -> Vec<&FieldS> {
        match &self.kind {
            Kind::Struct(s) => s.fields.iter().collect(),
            Kind::Enum(e) => e.variants.iter().flat_map(|v| v.fields.iter()).collect(),
        }
    }
    pub fn has_lifetime(&self, all: &[Schema]) -> bool {
        self.all_fields().iter().any(|f| f.ty.has_lifetime(all))
    }
    pub fn generic(&self) -> Option<String> {
        for f in self.all_fields() {
            match f.ty {
                FTy::GenericU8 => return Some("u8".to_string()),
                FTy::GenericOptU8 => return Some("Option<u8>".to_string()),
                FTy::GenericOptNested(j) => return Some(format!("Option<T{}>", j)),
                _ => {}
            }
        }
        None
    }
}

// =============================================================================================
// Values

fn is_nil(v: &GenVal) -> bool {
    matches!(v, GenVal::Opt(None))
}

/// A few values of a field type; the first is the "distinguishable default" used while
/// another field varies (`salt` makes defaults of different fields different).
pub fn field_values(ty: &FTy, all: &[Schema], salt: u8) -> Vec<GenVal> {
    let d = 1 + (salt % 20);
    match ty {
        FTy::U8 | FTy::GenericU8 | FTy::FlexEncOnly | FTy::FlexDecOnly => vec![GenVal::U8(d), GenVal::U8(0), GenVal::U8(23), GenVal::U8(24), GenVal::U8(255)],
        FTy::OptU8 | FTy::BoxOptU8 | FTy::CellOptU8 | FTy::TaggedOptU8 | FTy::GenericOptU8 | FTy::NilU8Fns | FTy::NilU8FnsB | FTy::NilU8FnsC | FTy::NilU8FnsD | FTy::NilU8With => vec![GenVal::some(GenVal::U8(d)), GenVal::none(), GenVal::some(GenVal::U8(24)), GenVal::some(GenVal::U8(255))],
        FTy::Str | FTy::StrRef | FTy::CowStr => vec![GenVal::Str(format!("s{}", d)), GenVal::Str(String::new()), GenVal::Str("x".repeat(24))],
        FTy::OptStr => vec![GenVal::some(GenVal::Str(format!("s{}", d))), GenVal::none(), GenVal::some(GenVal::Str(String::new()))],
        FTy::BytesVec | FTy::CowBytes | FTy::ByteSliceRef => vec![GenVal::Bytes(vec![d]), GenVal::Bytes(vec![]), GenVal::Bytes(vec![0x99; 24]), GenVal::Bytes(vec![0x18, 0xff])],
        FTy::ByteArr4 | FTy::ByteArrayT => vec![GenVal::Bytes(vec![d, 0, 255, 24]), GenVal::Bytes(vec![0; 4])],
        FTy::OptBytesRef | FTy::OptByteVec => vec![GenVal::some(GenVal::Bytes(vec![d])), GenVal::none(), GenVal::some(GenVal::Bytes(vec![])), GenVal::some(GenVal::Bytes(vec![0xfe, 0x18]))],
        FTy::IndefArr => vec![GenVal::Bytes(vec![d, 2]), GenVal::Bytes(vec![])],
        FTy::OptIndefArr => vec![GenVal::some(GenVal::Bytes(vec![d])), GenVal::none(), GenVal::some(GenVal::Bytes(vec![]))],
        FTy::Nested(j) => {
            let v = values(&all[*j], all);
            pick(v, 3)
        }
        FTy::OptNested(j) | FTy::GenericOptNested(j) => {
            let v = values(&all[*j], all);
            let mut out: Vec<GenVal> = vec![];
            let picked = pick(v, 3);
            out.push(GenVal::some(picked[0].clone()));
            out.push(GenVal::none());
            for p in picked.into_iter().skip(1) {
                out.push(GenVal::some(p));
            }
            out
        }
    }
}

fn pick(v: Vec<GenVal>, n: usize) -> Vec<GenVal> {
    if v.len() <= n {
        return v;
    }
    let mut out = vec![v[0].clone()];
    let step = (v.len() - 1) / (n - 1);
    for k in 1..n {
        out.push(v[(k * step).min(v.len() - 1)].clone());
    }
    out
}

fn fields_values(fields: &[FieldS], all: &[Schema]) -> Vec<Vec<GenVal>> {
    let doms: Vec<Vec<GenVal>> = fields.iter().enumerate().map(|(k, f)| if f.skip { vec![GenVal::U8(0), GenVal::U8(9)] } else { field_values(&f.ty, all, (k as u8).wrapping_mul(3).wrapping_add(f.idx as u8)) }).collect();
    if fields.is_empty() {
        return vec![vec![]];
    }
    let mut out: Vec<Vec<GenVal>> = Vec::new();
    // all presence combinations of nil-able fields (others at their default) ...
    let nil_pos: Vec<usize> = fields.iter().enumerate().filter(|(_, f)| !f.skip && f.ty.nilable()).map(|(k, _)| k).collect();
    let combos = 1usize << nil_pos.len().min(6);
    for mask in 0..combos {
        let mut v: Vec<GenVal> = doms.iter().map(|d| d[0].clone()).collect();
        for (b, k) in nil_pos.iter().enumerate().take(6) {
            if mask & (1 << b) != 0 {
                v[*k] = GenVal::none();
            }
        }
        out.push(v);
    }
    // ... and each field in turn at each of its values while the others hold their default
    for k in 0..fields.len() {
        for x in doms[k].iter().skip(1) {
            let mut v: Vec<GenVal> = doms.iter().map(|d| d[0].clone()).collect();
            v[k] = x.clone();
            if !out.contains(&v) {
                out.push(v);
            }
        }
    }
    out
}

/// The value domain of a schema.
pub fn values(s: &Schema, all: &[Schema]) -> Vec<GenVal> {
    match &s.kind {
        Kind::Struct(st) => fields_values(&st.fields, all).into_iter().map(GenVal::Struct).collect(),
        Kind::Enum(e) => {
            let mut out = Vec::new();
            for (p, v) in e.variants.iter().enumerate() {
                for f in fields_values(&v.fields, all) {
                    out.push(GenVal::Enum(p, f));
                }
            }
            out
        }
    }
}

/// Replace the values of skipped fields by their default (what a decoder produces).
pub fn normalise(s: &Schema, all: &[Schema], v: &GenVal) -> GenVal {
    fn norm_fields(fields: &[FieldS], all: &[Schema], vals: &[GenVal]) -> Vec<GenVal> {
        fields
            .iter()
            .zip(vals)
            .map(|(f, v)| {
                if f.skip {
                    return GenVal::U8(0);
                }
                match (&f.ty, v) {
                    (FTy::Nested(j), x) => normalise(&all[*j], all, x),
                    (FTy::OptNested(j) | FTy::GenericOptNested(j), GenVal::Opt(Some(x))) => GenVal::some(normalise(&all[*j], all, x)),
                    _ => v.clone(),
                }
            })
            .collect()
    }
    match (&s.kind, v) {
        (Kind::Struct(st), GenVal::Struct(f)) => GenVal::Struct(norm_fields(&st.fields, all, f)),
        (Kind::Enum(e), GenVal::Enum(p, f)) => GenVal::Enum(*p, norm_fields(&e.variants[*p].fields, all, f)),
        _ => v.clone(),
    }
}

// =============================================================================================
// Reference encoder: the documented wire format

fn tagged(tag: Option<u64>, i: Item) -> Item {
    match tag {
        Some(t) => Item::tag(t, i),
        None => i,
    }
}

fn encode_field_value(ty: &FTy, all: &[Schema], v: &GenVal) -> Item {
    match (ty, v) {
        (FTy::TaggedOptU8, GenVal::Opt(x)) => Item::tag(7, x.as_ref().map(|y| Item::uint(y.u8() as u64)).unwrap_or(NULL)),
        (_, GenVal::Opt(None)) => NULL,
        (FTy::U8 | FTy::GenericU8 | FTy::FlexDecOnly, GenVal::U8(x)) => Item::uint(*x as u64),
        (FTy::FlexEncOnly, GenVal::U8(x)) => Item::array(vec![Item::uint(*x as u64)]),
        (FTy::OptU8 | FTy::BoxOptU8 | FTy::CellOptU8 | FTy::GenericOptU8 | FTy::NilU8Fns | FTy::NilU8FnsB | FTy::NilU8FnsC | FTy::NilU8FnsD | FTy::NilU8With, GenVal::Opt(Some(x))) => Item::uint(x.u8() as u64),
        (FTy::Str | FTy::StrRef | FTy::CowStr, GenVal::Str(s)) => Item::text(s),
        (FTy::OptStr, GenVal::Opt(Some(x))) => Item::text(x.str()),
        (FTy::BytesVec | FTy::CowBytes | FTy::ByteSliceRef | FTy::ByteArr4 | FTy::ByteArrayT, GenVal::Bytes(b)) => Item::bytes(b),
        (FTy::OptBytesRef | FTy::OptByteVec, GenVal::Opt(Some(x))) => Item::bytes(x.bytes()),
        (FTy::IndefArr, GenVal::Bytes(b)) => Item::Array(b.iter().map(|x| Item::uint(*x as u64)).collect(), Len::Indef),
        (FTy::OptIndefArr, GenVal::Opt(Some(x))) => Item::Array(x.bytes().iter().map(|x| Item::uint(*x as u64)).collect(), Len::Indef),
        (FTy::Nested(j), x) => schema_encode(&all[*j], all, x),
        (FTy::OptNested(j) | FTy::GenericOptNested(j), GenVal::Opt(Some(x))) => schema_encode(&all[*j], all, x),
        (t, v) => panic!("value {:?} does not fit field type {:?}", v, t),
    }
}

fn encode_fields(fields: &[FieldS], enc: Enc, all: &[Schema], vals: &[GenVal]) -> Item {
    // (index, field, value) of the encoded (non-skipped) fields, ascending by index
    let mut fs: Vec<(&FieldS, &GenVal)> = fields.iter().zip(vals).filter(|(f, _)| !f.skip).collect();
    fs.sort_by_key(|(f, _)| f.idx);
    match enc {
        Enc::Map => {
            // (a None of a type that has no nil value - Cell<Option<_>> - is a present field holding NULL)
            let is_nil = |f: &FieldS, v: &GenVal| f.ty.nilable() && is_nil(v);
            let entries: Vec<(Item, Item)> = fs.iter().filter(|(f, v)| !is_nil(f, v)).map(|(f, v)| (Item::uint(f.idx as u64), tagged(f.tag, encode_field_value(&f.ty, all, v)))).collect();
            Item::map(entries)
        }
        Enc::Array => {
            let is_nil = |f: &FieldS, v: &GenVal| f.ty.nilable() && is_nil(v);
            let max = fs.iter().filter(|(f, v)| !is_nil(f, v)).map(|(f, _)| f.idx).max();
            match max {
                None => Item::array(vec![]),
                Some(m) => {
                    let mut items = Vec::new();
                    for i in 0..=m {
                        match fs.iter().find(|(f, _)| f.idx == i) {
                            // a field below the highest present index is written even when it is nil
                            // (as null); tags precede what they annotate, so a tagged field carries its tag
                            Some((f, v)) => items.push(tagged(f.tag, encode_field_value(&f.ty, all, v))),
                            None => items.push(NULL),
                        }
                    }
                    Item::array(items)
                }
            }
        }
    }
}

/// The documented encoding of `v` under schema `s`.
pub fn schema_encode(s: &Schema, all: &[Schema], v: &GenVal) -> Item {
    match (&s.kind, v) {
        (Kind::Struct(st), GenVal::Struct(vals)) => {
            if st.transparent {
                let (f, x) = st.fields.iter().zip(vals).find(|(f, _)| !f.skip).expect("transparent struct has one field");
                return encode_field_value(&f.ty, all, x);
            }
            tagged(st.tag, encode_fields(&st.fields, st.enc.unwrap_or(Enc::Array), all, vals))
        }
        (Kind::Enum(e), GenVal::Enum(p, vals)) => {
            let var = &e.variants[*p];
            if e.index_only {
                return tagged(e.tag, Item::uint(var.idx as u64));
            }
            let enc = var.enc.or(e.enc).unwrap_or(Enc::Array);
            let body = if var.shape == Shape::Unit {
                match enc {
                    Enc::Array => Item::array(vec![]),
                    Enc::Map => Item::map(vec![]),
                }
            } else {
                encode_fields(&var.fields, enc, all, vals)
            };
            tagged(e.tag, Item::array(vec![Item::uint(var.idx as u64), tagged(var.tag, body)]))
        }
        (k, v) => panic!("value {:?} does not fit schema {:?}", v, k),
    }
}

// =============================================================================================
// Reference decoder: documented decoding and compatibility rules

#[derive(Debug, Clone, Copy, PartialEq, Eq)]
pub enum ErrKind {
    TagMismatch,
    MissingValue,
    UnknownVariant,
    /// wrong shape / type / anything else
    Other,
}

#[derive(Debug, Clone, PartialEq)]
pub enum SVerdict {
    Ok(GenVal),
    Err(ErrKind),
    /// the documentation makes no promise for this input (indefinite enum pair, chunked strings,
    /// duplicate keys): not judged
    May,
}

type R = Result<GenVal, Stop>;

enum Stop {
    Err(ErrKind),
    May,
}

fn untag<'a>(tag: Option<u64>, i: &'a Item) -> Result<&'a Item, Stop> {
    match tag {
        None => Ok(i),
        Some(t) => match i {
            Item::Tag(x, _, inner) if *x == t => Ok(inner),
            Item::Tag(..) => Err(Stop::Err(ErrKind::TagMismatch)),
            _ => Err(Stop::Err(ErrKind::Other)),
        },
    }
}

fn u8_of(i: &Item) -> Result<u8, Stop> {
    match i {
        Item::Uint(n, _) if *n <= 255 => Ok(*n as u8),
        _ => Err(Stop::Err(ErrKind::Other)),
    }
}

fn text_of(i: &Item) -> Result<String, Stop> {
    match i {
        Item::Text(d, StrForm::Def(_)) => String::from_utf8(d.clone()).map_err(|_| Stop::Err(ErrKind::Other)),
        Item::Text(..) => Err(Stop::May),
        _ => Err(Stop::Err(ErrKind::Other)),
    }
}

fn bytes_of(i: &Item) -> Result<Vec<u8>, Stop> {
    match i {
        Item::Bytes(d, StrForm::Def(_)) => Ok(d.clone()),
        Item::Bytes(..) => Err(Stop::May),
        _ => Err(Stop::Err(ErrKind::Other)),
    }
}

fn u8_array_of(i: &Item) -> Result<Vec<u8>, Stop> {
    match i {
        Item::Array(v, _) => v.iter().map(u8_of).collect(),
        _ => Err(Stop::Err(ErrKind::Other)),
    }
}

fn decode_field_value(ty: &FTy, all: &[Schema], i: &Item) -> R {
    let opt = |r: Result<GenVal, Stop>| r.map(GenVal::some);
    match ty {
        FTy::U8 | FTy::GenericU8 => u8_of(i).map(GenVal::U8),
        FTy::FlexEncOnly | FTy::FlexDecOnly => match i {
            Item::Array(v, _) if v.len() == 1 => u8_of(&v[0]).map(GenVal::U8),
            Item::Array(..) => Err(Stop::Err(ErrKind::Other)),
            _ => u8_of(i).map(GenVal::U8),
        },
        FTy::Str | FTy::StrRef | FTy::CowStr => text_of(i).map(GenVal::Str),
        FTy::BytesVec | FTy::CowBytes | FTy::ByteSliceRef => bytes_of(i).map(GenVal::Bytes),
        FTy::ByteArr4 | FTy::ByteArrayT => match bytes_of(i) {
            Ok(b) if b.len() == 4 => Ok(GenVal::Bytes(b)),
            Ok(_) => Err(Stop::Err(ErrKind::Other)),
            Err(e) => Err(e),
        },
        FTy::IndefArr => u8_array_of(i).map(GenVal::Bytes),
        FTy::Nested(j) => decode_inner(&all[*j], all, i),
        FTy::TaggedOptU8 => {
            let inner = untag(Some(7), i)?;
            if *inner == NULL {
                Ok(GenVal::none())
            } else {
                opt(u8_of(inner).map(GenVal::U8))
            }
        }
        _ if *i == NULL => Ok(GenVal::none()),
        FTy::OptU8 | FTy::BoxOptU8 | FTy::CellOptU8 | FTy::GenericOptU8 | FTy::NilU8Fns | FTy::NilU8FnsB | FTy::NilU8FnsC | FTy::NilU8FnsD | FTy::NilU8With => opt(u8_of(i).map(GenVal::U8)),
        FTy::OptStr => opt(text_of(i).map(GenVal::Str)),
        FTy::OptBytesRef | FTy::OptByteVec => opt(bytes_of(i).map(GenVal::Bytes)),
        FTy::OptIndefArr => opt(u8_array_of(i).map(GenVal::Bytes)),
        FTy::OptNested(j) | FTy::GenericOptNested(j) => opt(decode_inner(&all[*j], all, i)),
    }
}

fn decode_fields(fields: &[FieldS], enc: Enc, all: &[Schema], i: &Item) -> Result<Vec<GenVal>, Stop> {
    let mut slots: Vec<Option<GenVal>> = vec![None; fields.len()];
    let mut put = |idx: u64, item: &Item, slots: &mut Vec<Option<GenVal>>| -> Result<(), Stop> {
        let Some((k, f)) = fields.iter().enumerate().find(|(_, f)| !f.skip && f.idx as u64 == idx) else {
            return Ok(()); // unknown fields are ignored whatever their content
        };
        // "optional types default to None if their value is not present": a null standing in for an
        // absent optional value is an absent value, tagged or not
        if f.ty.nilable() && *item == NULL {
            slots[k] = Some(GenVal::none());
            return Ok(());
        }
        let inner = untag(f.tag, item)?;
        match decode_field_value(&f.ty, all, inner) {
            Ok(v) => {
                slots[k] = Some(v);
                Ok(())
            }
            // "optional enums default to None if an unknown variant is encountered"
            Err(Stop::Err(ErrKind::UnknownVariant)) if f.ty.nilable() => match &f.ty {
                FTy::OptNested(j) | FTy::GenericOptNested(j) if matches!(all[*j].kind, Kind::Enum(_)) => {
                    slots[k] = Some(GenVal::none());
                    Ok(())
                }
                // an unknown variant deeper inside an optional struct: no documented promise
                _ => Err(Stop::May),
            },
            Err(e) => Err(e),
        }
    };
    match (enc, i) {
        (Enc::Array, Item::Array(v, _)) => {
            for (pos, x) in v.iter().enumerate() {
                put(pos as u64, x, &mut slots)?;
            }
        }
        (Enc::Map, Item::Map(v, _)) => {
            let mut seen = std::collections::HashSet::new();
            for (k, x) in v {
                let idx = match k {
                    Item::Uint(n, _) if *n <= u32::MAX as u64 => *n,
                    _ => return Err(Stop::Err(ErrKind::Other)),
                };
                if !seen.insert(idx) {
                    return Err(Stop::May);
                }
                put(idx, x, &mut slots)?;
            }
        }
        _ => return Err(Stop::Err(ErrKind::Other)),
    }
    let mut out = Vec::new();
    for (f, s) in fields.iter().zip(slots) {
        if f.skip {
            out.push(GenVal::U8(0));
            continue;
        }
        match s {
            Some(v) => out.push(v),
            None if f.ty.nilable() => out.push(GenVal::none()),
            None => return Err(Stop::Err(ErrKind::MissingValue)),
        }
    }
    Ok(out)
}

fn decode_inner(s: &Schema, all: &[Schema], i: &Item) -> R {
    match &s.kind {
        Kind::Struct(st) => {
            if st.transparent {
                let k = st.fields.iter().position(|f| !f.skip).unwrap();
                let v = decode_field_value(&st.fields[k].ty, all, i)?;
                let mut out: Vec<GenVal> = st.fields.iter().map(|_| GenVal::U8(0)).collect();
                out[k] = v;
                return Ok(GenVal::Struct(out));
            }
            let inner = untag(st.tag, i)?;
            decode_fields(&st.fields, st.enc.unwrap_or(Enc::Array), all, inner).map(GenVal::Struct)
        }
        Kind::Enum(e) => {
            let inner = untag(e.tag, i)?;
            if e.index_only {
                let idx = match inner {
                    Item::Uint(n, _) if *n <= u32::MAX as u64 => *n,
                    _ => return Err(Stop::Err(ErrKind::Other)),
                };
                return match e.variants.iter().position(|v| v.idx as u64 == idx) {
                    Some(p) => Ok(GenVal::Enum(p, vec![])),
                    None => Err(Stop::Err(ErrKind::UnknownVariant)),
                };
            }
            let (idx, body) = match inner {
                Item::Array(v, Len::Def(_)) if v.len() == 2 => match &v[0] {
                    Item::Uint(n, _) if *n <= u32::MAX as u64 => (*n, &v[1]),
                    _ => return Err(Stop::Err(ErrKind::Other)),
                },
                Item::Array(v, Len::Indef) if v.len() == 2 => return Err(Stop::May),
                _ => return Err(Stop::Err(ErrKind::Other)),
            };
            let Some(p) = e.variants.iter().position(|v| v.idx as u64 == idx) else {
                return Err(Stop::Err(ErrKind::UnknownVariant));
            };
            let var = &e.variants[p];
            let body = untag(var.tag, body)?;
            if var.shape == Shape::Unit {
                // a unit variant ignores its body (this is what lets it grow optional fields later)
                return Ok(GenVal::Enum(p, vec![]));
            }
            let enc = var.enc.or(e.enc).unwrap_or(Enc::Array);
            decode_fields(&var.fields, enc, all, body).map(|f| GenVal::Enum(p, f))
        }
    }
}

/// What decoding `item` as schema `s` must give according to the documentation.
pub fn schema_decode(s: &Schema, all: &[Schema], item: &Item) -> SVerdict {
    match decode_inner(s, all, item) {
        Ok(v) => SVerdict::Ok(v),
        Err(Stop::Err(k)) => SVerdict::Err(k),
        Err(Stop::May) => SVerdict::May,
    }
}

// =============================================================================================
// Enumeration of the grammar

fn fld(idx: u32, ty: FTy) -> FieldS {
    FieldS { idx, borrow: false, ty, tag: None, skip: false }
}

struct Builder {
    all: Vec<Schema>,
}

impl Builder {
    fn push(&mut self, family: &'static str, helper: bool, mut kind: Kind) -> usize {
        // nested types with a lifetime must be annotated with #[b(..)] (documented requirement)
        {
            let all = &self.all;
            let fix = |fields: &mut Vec<FieldS>| {
                for f in fields.iter_mut() {
                    if let FTy::Nested(j) | FTy::OptNested(j) | FTy::GenericOptNested(j) = &f.ty {
                        if all[*j].has_lifetime(all) {
                            f.borrow = true;
                        }
                    }
                }
            };
            match &mut kind {
                Kind::Struct(s) => fix(&mut s.fields),
                Kind::Enum(e) => e.variants.iter_mut().for_each(|v| fix(&mut v.fields)),
            }
        }
        let id = self.all.len();
        self.all.push(Schema { id, family, kind, helper });
        id
    }
    fn st(&mut self, family: &'static str, shape: Shape, enc: Option<Enc>, tag: Option<u64>, fields: Vec<FieldS>) -> usize {
        let shape = if fields.is_empty() && shape == Shape::Tuple { Shape::Tuple } else { shape };
        self.push(family, false, Kind::Struct(StructS { shape, enc, tag, transparent: false, fields }))
    }
}

const ENCS: [Option<Enc>; 3] = [None, Some(Enc::Array), Some(Enc::Map)];

fn subsets(set: &[u32], k: usize) -> Vec<Vec<u32>> {
    if k == 0 {
        return vec![vec![]];
    }
    let mut out = Vec::new();
    for i in 0..set.len() {
        for mut rest in subsets(&set[i + 1..], k - 1) {
            let mut v = vec![set[i]];
            v.append(&mut rest);
            out.push(v);
        }
    }
    out
}

/// The deterministic list of schemas (grammar families + compatibility family).
pub fn enumerate_schemas(thorough: bool) -> Vec<Schema> {
    enumerate_with_pairs(thorough).0
}

/// The grammar families. Helper schemas (used as nested field types) come first.
fn enumerate_schemas_base(thorough: bool) -> Vec<Schema> {
    let mut b = Builder { all: Vec::new() };
    // ---- helpers
    let h_arr = b.push("helper", true, Kind::Struct(StructS { shape: Shape::Named, enc: None, tag: None, transparent: false, fields: vec![fld(0, FTy::U8), fld(1, FTy::OptU8)] }));
    let h_map = b.push("helper", true, Kind::Struct(StructS { shape: Shape::Named, enc: Some(Enc::Map), tag: None, transparent: false, fields: vec![fld(0, FTy::U8), fld(1, FTy::OptU8)] }));
    let h_enum = b.push(
        "helper",
        true,
        Kind::Enum(EnumS {
            enc: None,
            tag: None,
            index_only: false,
            variants: vec![
                VariantS { idx: 0, shape: Shape::Unit, enc: None, tag: None, fields: vec![] },
                VariantS { idx: 1, shape: Shape::Tuple, enc: None, tag: None, fields: vec![fld(0, FTy::U8)] },
                VariantS { idx: 2, shape: Shape::Named, enc: None, tag: None, fields: vec![fld(0, FTy::OptU8)] },
            ],
        }),
    );
    let h_ionly = b.push(
        "helper",
        true,
        Kind::Enum(EnumS {
            enc: None,
            tag: None,
            index_only: true,
            variants: [0u32, 1, 5].iter().map(|i| VariantS { idx: *i, shape: Shape::Unit, enc: None, tag: None, fields: vec![] }).collect(),
        }),
    );
    let h_life = b.push("helper", true, Kind::Struct(StructS { shape: Shape::Named, enc: None, tag: None, transparent: false, fields: vec![fld(0, FTy::StrRef)] }));
    let h_tagged = b.push("helper", true, Kind::Struct(StructS { shape: Shape::Named, enc: None, tag: Some(1), transparent: false, fields: vec![fld(0, FTy::OptU8)] }));
    let h_allopt_map = b.push("helper", true, Kind::Struct(StructS { shape: Shape::Named, enc: Some(Enc::Map), tag: None, transparent: false, fields: vec![fld(0, FTy::OptU8), fld(2, FTy::OptU8)] }));

    // ---- G-idx: index sets x order x encoding x shape x mandatory/optional
    let base: [u32; 4] = [0, 1, 2, 4];
    for enc in ENCS {
        b.st("G-idx", Shape::Named, enc, None, vec![]);
        b.st("G-idx", Shape::Tuple, enc, None, vec![]);
        b.st("G-idx", Shape::Unit, enc, None, vec![]);
    }
    for k in 1..=3usize {
        let mut sets = subsets(&base, k);
        if k <= 2 {
            sets.extend(subsets(&[23, 24, 255, 256], k));
        }
        // optional patterns: bit j set = field j optional
        let pats: Vec<u32> = match k {
            1 => vec![0, 1],
            2 => vec![0, 3, 2, 1],
            _ => vec![0, 7, 6, 5, 3],
        };
        for set in &sets {
            for descending in [false, true] {
                if k == 1 && descending {
                    continue;
                }
                for enc in ENCS {
                    for pat in &pats {
                        let mut fields: Vec<FieldS> = set.iter().enumerate().map(|(j, i)| fld(*i, if pat & (1 << j) != 0 { FTy::OptU8 } else { FTy::U8 })).collect();
                        if descending {
                            fields.reverse();
                        }
                        b.st("G-idx", Shape::Named, enc, None, fields.clone());
                        // tuple structs: default encoding only (shape does not interact with the encoding attribute)
                        if enc.is_none() && (thorough || set.iter().all(|i| *i < 23)) {
                            b.st("G-idx", Shape::Tuple, enc, None, fields);
                        }
                    }
                }
            }
        }
    }
    // field indices over the whole u32 range (map encoding only: in array encoding the index is a position). The index
    // is written as an unsigned integer of its own width; 2^31 and the top of the range are where a narrower or a
    // signed intermediate type shows
    for x in [65535u32, 65536, 0x7fff_ffff, 0x8000_0000, 0xfffe_ffff, 0xffff_0000, 0xffff_fffe, 0xffff_ffff] {
        b.st("G-idx", Shape::Named, Some(Enc::Map), None, vec![fld(x, FTy::U8)]);
        b.st("G-idx", Shape::Named, Some(Enc::Map), None, vec![fld(1, FTy::OptU8), fld(x, FTy::OptU8)]);
        b.st("G-idx", Shape::Tuple, Some(Enc::Map), None, vec![fld(x, FTy::U8), fld(0, FTy::U8)]);
    }
    if thorough {
        // all permutations of three fields, mixed optionality, four fields
        for set in subsets(&base, 3) {
            for perm in [[0usize, 2, 1], [1, 0, 2], [1, 2, 0], [2, 0, 1]] {
                for enc in [None, Some(Enc::Map)] {
                    let fields: Vec<FieldS> = perm.iter().map(|j| fld(set[*j], if *j == 1 { FTy::U8 } else { FTy::OptU8 })).collect();
                    b.st("G-idx", Shape::Named, enc, None, fields);
                }
            }
        }
        for pat in 0..16u32 {
            for enc in [None, Some(Enc::Map)] {
                let fields: Vec<FieldS> = base.iter().enumerate().map(|(j, i)| fld(*i, if pat & (1 << j) != 0 { FTy::OptU8 } else { FTy::U8 })).collect();
                b.st("G-idx", Shape::Named, enc, None, fields);
            }
        }
    }

    // ---- G-many: more fields than one digit of a positional identifier (_10 sorts before _2), more fields than an
    // 8-bit counter holds
    {
        let twelve = |skip_at: Option<usize>| -> Vec<FieldS> {
            (0..12u32)
                .map(|i| {
                    let mut f = fld(i, if i % 3 == 1 { FTy::OptU8 } else if i % 3 == 2 { FTy::Str } else { FTy::U8 });
                    if skip_at == Some(i as usize) {
                        f.ty = FTy::U8;
                        f.skip = true;
                    }
                    f
                })
                .collect()
        };
        for enc in [None, Some(Enc::Map)] {
            b.st("G-many", Shape::Tuple, enc, None, twelve(None));
            b.st("G-many", Shape::Named, enc, None, twelve(None));
            b.st("G-many", Shape::Tuple, enc, None, twelve(Some(10)));
            b.push(
                "G-many",
                false,
                Kind::Enum(EnumS {
                    enc,
                    tag: None,
                    index_only: false,
                    variants: vec![
                        VariantS { idx: 0, shape: Shape::Tuple, enc: None, tag: None, fields: twelve(None) },
                        VariantS { idx: 1, shape: Shape::Unit, enc: None, tag: None, fields: vec![] },
                        VariantS { idx: 2, shape: Shape::Named, enc: None, tag: None, fields: twelve(None) },
                        VariantS { idx: 3, shape: Shape::Tuple, enc: None, tag: None, fields: twelve(Some(2)) },
                    ],
                }),
            );
        }
        // 257 fields: the map header counts the present ones; in array encoding the last present index decides
        let many = |opt_from: u32| -> Vec<FieldS> { (0..257u32).map(|i| fld(i, if i >= opt_from { FTy::OptU8 } else { FTy::U8 })).collect() };
        b.st("G-many", Shape::Named, Some(Enc::Map), None, many(255));
        b.st("G-many", Shape::Named, Some(Enc::Array), None, many(254));
        b.push(
            "G-many",
            false,
            Kind::Enum(EnumS { enc: Some(Enc::Map), tag: None, index_only: false, variants: vec![VariantS { idx: 0, shape: Shape::Named, enc: None, tag: None, fields: many(256) }, VariantS { idx: 1, shape: Shape::Unit, enc: None, tag: None, fields: vec![] }] }),
        );
    }

    // ---- G-tag: tags on the type and on fields x optional x encoding
    for stag in [None, Some(1u64), Some(256)] {
        for t0 in [None, Some(24u64)] {
            for t1 in [None, Some(1u64)] {
                for ty0 in [FTy::U8, FTy::OptU8] {
                    for enc in [None, Some(Enc::Map)] {
                        if stag.is_none() && t0.is_none() && t1.is_none() {
                            continue;
                        }
                        let mut f0 = fld(0, ty0.clone());
                        f0.tag = t0;
                        let mut f1 = fld(2, FTy::OptU8);
                        f1.tag = t1;
                        b.st("G-tag", Shape::Named, enc, stag, vec![f0, f1]);
                    }
                }
            }
        }
    }
    // tagged optional field below a mandatory one (the null-with-tag position)
    for enc in [None, Some(Enc::Map)] {
        let mut f0 = fld(0, FTy::OptU8);
        f0.tag = Some(7);
        b.st("G-tag", Shape::Named, enc, None, vec![f0.clone(), fld(1, FTy::U8)]);
        let mut f1 = fld(1, FTy::OptStr);
        f1.tag = Some(300);
        b.st("G-tag", Shape::Named, enc, None, vec![fld(0, FTy::U8), f1, fld(2, FTy::OptU8)]);
    }

    // tag numbers on both sides of every head-width boundary, at every level (type, variant, field)
    for (k, t) in [23u64, 24, 255, 256, 65535, 65536, 0xffff_ffff, 0x1_0000_0000, u64::MAX].iter().enumerate() {
        let enc = if k % 2 == 0 { None } else { Some(Enc::Map) };
        let mut f0 = fld(0, FTy::OptU8);
        f0.tag = Some(*t);
        let mut f1 = fld(1, FTy::U8);
        f1.tag = Some(*t);
        b.st("G-tag", Shape::Named, enc, Some(*t), vec![f0.clone(), f1.clone()]);
        b.st("G-tag", Shape::Tuple, enc, None, vec![f0.clone(), fld(1, FTy::OptU8)]);
        let variants = vec![
            VariantS { idx: 0, shape: Shape::Unit, enc: None, tag: Some(*t), fields: vec![] },
            VariantS { idx: 1, shape: Shape::Tuple, enc: None, tag: Some(*t), fields: vec![f0.clone(), f1.clone()] },
        ];
        b.push("G-tag", false, Kind::Enum(EnumS { enc, tag: Some(*t), index_only: false, variants }));
    }

    // tagged optional fields followed by two or three more fields (running length accounting across fields)
    for enc in [None, Some(Enc::Map)] {
        let mut f0 = fld(0, FTy::OptU8);
        f0.tag = Some(1000);
        b.st("G-tag", Shape::Named, enc, None, vec![f0.clone(), fld(1, FTy::OptU8), fld(2, FTy::OptU8)]);
        let mut f2 = fld(2, FTy::OptU8);
        f2.tag = Some(24);
        b.st("G-tag", Shape::Named, enc, None, vec![f0.clone(), fld(1, FTy::U8), f2.clone(), fld(3, FTy::U8)]);
        let mut f1 = fld(1, FTy::OptU8);
        f1.tag = Some(65536);
        b.st("G-tag", Shape::Named, enc, None, vec![f0, f1, f2, fld(4, FTy::OptU8)]);
    }

    // ---- G-twin: the derive macros have separate code paths for named structs, tuple structs and enum
    // variants (named and tuple); every tagged layout and every mixed-optional layout is replicated in
    // all of them
    {
        let snapshot: Vec<StructS> = b
            .all
            .iter()
            .filter_map(|s| match (&s.kind, s.family) {
                (Kind::Struct(st), "G-tag") if st.shape == Shape::Named => Some(st.clone()),
                (Kind::Struct(st), "G-idx") if st.shape == Shape::Named && st.fields.len() >= 2 && st.fields.iter().any(|f| f.ty == FTy::OptU8) && st.fields.iter().all(|f| f.idx < 23) && st.fields.windows(2).all(|w| w[0].idx < w[1].idx) => Some(st.clone()),
                _ => None,
            })
            .collect();
        for st in snapshot {
            if st.tag.is_some() || st.fields.iter().any(|f| f.tag.is_some()) {
                b.st("G-twin", Shape::Tuple, st.enc, st.tag, st.fields.clone());
            }
            for shape in [Shape::Named, Shape::Tuple] {
                let variants = vec![
                    VariantS { idx: 0, shape, enc: st.enc, tag: st.tag, fields: st.fields.clone() },
                    VariantS { idx: 1, shape: Shape::Unit, enc: None, tag: None, fields: vec![] },
                ];
                b.push("G-twin", false, Kind::Enum(EnumS { enc: None, tag: None, index_only: false, variants }));
            }
        }
    }

    // ---- G-enum
    for eenc in ENCS {
        for over in ENCS {
            for etag in [None, Some(1u64)] {
                for vtag in [None, Some(24u64)] {
                    let variants = vec![
                        VariantS { idx: 0, shape: Shape::Unit, enc: None, tag: None, fields: vec![] },
                        VariantS { idx: 1, shape: Shape::Tuple, enc: None, tag: vtag, fields: vec![fld(0, FTy::U8), fld(1, FTy::OptU8)] },
                        VariantS { idx: 5, shape: Shape::Named, enc: over, tag: None, fields: vec![fld(0, FTy::OptU8), fld(2, FTy::OptU8)] },
                    ];
                    b.push("G-enum", false, Kind::Enum(EnumS { enc: eenc, tag: etag, index_only: false, variants }));
                }
            }
        }
    }
    for n in 1..=3usize {
        for eenc in ENCS {
            let variants = [0u32, 1, 5][..n].iter().map(|i| VariantS { idx: *i, shape: Shape::Unit, enc: None, tag: None, fields: vec![] }).collect();
            b.push("G-enum", false, Kind::Enum(EnumS { enc: eenc, tag: None, index_only: true, variants }));
        }
    }
    for eenc in ENCS {
        // unit variants with a tag and per-variant encoding; single-variant enums
        let variants = vec![
            VariantS { idx: 0, shape: Shape::Unit, enc: Some(Enc::Map), tag: Some(2), fields: vec![] },
            VariantS { idx: 3, shape: Shape::Unit, enc: Some(Enc::Array), tag: None, fields: vec![] },
        ];
        b.push("G-enum", false, Kind::Enum(EnumS { enc: eenc, tag: None, index_only: false, variants }));
        let one = vec![VariantS { idx: 256, shape: Shape::Named, enc: None, tag: None, fields: vec![fld(1, FTy::U8)] }];
        b.push("G-enum", false, Kind::Enum(EnumS { enc: eenc, tag: None, index_only: false, variants: one }));
        // index_only enum whose variants carry tags: accepted by the macros, the bare index is written (the tag has nothing to annotate)
        let tagged_io: Vec<VariantS> = [(0u32, Some(5u64)), (1, None), (24, Some(256))].iter().map(|(i, t)| VariantS { idx: *i, shape: Shape::Unit, enc: None, tag: *t, fields: vec![] }).collect();
        b.push("G-enum", false, Kind::Enum(EnumS { enc: eenc, tag: None, index_only: true, variants: tagged_io }));
        // variants declared in non-ascending index order (the index belongs to the variant, not to its position)
        let shuffled = vec![
            VariantS { idx: 5, shape: Shape::Tuple, enc: None, tag: None, fields: vec![fld(0, FTy::U8)] },
            VariantS { idx: 0, shape: Shape::Unit, enc: None, tag: None, fields: vec![] },
            VariantS { idx: 2, shape: Shape::Named, enc: None, tag: None, fields: vec![fld(0, FTy::OptU8), fld(1, FTy::U8)] },
            VariantS { idx: 1, shape: Shape::Unit, enc: None, tag: None, fields: vec![] },
        ];
        b.push("G-enum", false, Kind::Enum(EnumS { enc: eenc, tag: None, index_only: false, variants: shuffled }));
        let shuffled_io: Vec<VariantS> = [7u32, 0, 300, 3].iter().map(|i| VariantS { idx: *i, shape: Shape::Unit, enc: None, tag: None, fields: vec![] }).collect();
        b.push("G-enum", false, Kind::Enum(EnumS { enc: eenc, tag: None, index_only: true, variants: shuffled_io }));
        // variant indices on both sides of every head-width boundary
        let wide: Vec<VariantS> = [23u32, 24, 255, 256, 65535, 65536, 0x7fff_ffff, 0x8000_0000, 0xfffe_ffff, 0xffff_0000, 0xffff_fffe, 0xffff_ffff]
            .iter()
            .enumerate()
            .map(|(k, i)| match k % 3 {
                0 => VariantS { idx: *i, shape: Shape::Unit, enc: None, tag: None, fields: vec![] },
                1 => VariantS { idx: *i, shape: Shape::Tuple, enc: None, tag: None, fields: vec![fld(0, FTy::U8)] },
                _ => VariantS { idx: *i, shape: Shape::Named, enc: Some(Enc::Map), tag: Some(24), fields: vec![fld(24, FTy::OptU8)] },
            })
            .collect();
        b.push("G-enum", false, Kind::Enum(EnumS { enc: eenc, tag: None, index_only: false, variants: wide }));
        let wide_io: Vec<VariantS> = [23u32, 24, 255, 256, 65535, 65536, 0x7fff_ffff, 0x8000_0000, 0xfffe_ffff, 0xffff_0000, 0xffff_fffe, 0xffff_ffff].iter().map(|i| VariantS { idx: *i, shape: Shape::Unit, enc: None, tag: None, fields: vec![] }).collect();
        b.push("G-enum", false, Kind::Enum(EnumS { enc: eenc, tag: None, index_only: true, variants: wide_io }));
    }

    // ---- G-type: every field type in every container position
    let tys: Vec<FTy> = vec![
        FTy::U8, FTy::OptU8, FTy::BoxOptU8, FTy::CellOptU8, FTy::TaggedOptU8, FTy::Str, FTy::OptStr, FTy::StrRef, FTy::CowStr, FTy::BytesVec, FTy::OptBytesRef, FTy::ByteArr4, FTy::CowBytes, FTy::OptByteVec, FTy::ByteSliceRef, FTy::ByteArrayT, FTy::GenericU8, FTy::GenericOptU8, FTy::NilU8Fns, FTy::NilU8FnsB, FTy::NilU8FnsC, FTy::NilU8FnsD, FTy::NilU8With, FTy::IndefArr, FTy::OptIndefArr, FTy::FlexEncOnly, FTy::FlexDecOnly,
        FTy::Nested(h_arr), FTy::OptNested(h_arr), FTy::Nested(h_map), FTy::OptNested(h_map), FTy::Nested(h_enum), FTy::OptNested(h_enum), FTy::Nested(h_ionly), FTy::OptNested(h_ionly), FTy::Nested(h_life), FTy::OptNested(h_tagged),
        FTy::OptNested(h_allopt_map),
    ];
    for ty in &tys {
        for enc in [None, Some(Enc::Map)] {
            for borrow in [false, true] {
                if borrow && !matches!(ty, FTy::CowStr | FTy::CowBytes | FTy::StrRef | FTy::ByteSliceRef | FTy::OptBytesRef | FTy::Nested(_)) {
                    continue;
                }
                // the field under test sits at index 1 (a gap before it) and is followed by a mandatory sibling
                let mut f = fld(1, ty.clone());
                f.borrow = borrow;
                b.st("G-type", Shape::Named, enc, None, vec![f.clone(), fld(2, FTy::U8)]);
                // ... and as the only / last field
                b.st("G-type", Shape::Named, enc, None, vec![fld(0, FTy::U8), f.clone()]);
                b.st("G-type", Shape::Tuple, enc, None, vec![f.clone(), fld(2, FTy::OptU8)]);
                // inside an enum variant
                if !matches!(ty, FTy::GenericU8 | FTy::GenericOptU8) || !borrow {
                    for vshape in [Shape::Named, Shape::Tuple] {
                        let variants = vec![
                            VariantS { idx: 0, shape: vshape, enc: None, tag: None, fields: vec![f.clone(), fld(2, FTy::OptU8)] },
                            VariantS { idx: 1, shape: Shape::Unit, enc: None, tag: None, fields: vec![] },
                        ];
                        b.push("G-type", false, Kind::Enum(EnumS { enc, tag: None, index_only: false, variants }));
                    }
                }
            }
        }
        // transparent newtypes
        for shape in [Shape::Named, Shape::Tuple] {
            let mut f = fld(0, ty.clone());
            f.borrow = matches!(ty, FTy::CowStr | FTy::CowBytes);
            b.push("G-type", false, Kind::Struct(StructS { shape, enc: None, tag: None, transparent: true, fields: vec![f] }));
        }
    }
    // transparent newtypes whose field carries a tag attribute: "transparent newtypes encode as their field" - the
    // struct's own layer, including anything attached to the field position, is not on the wire
    for ty in [FTy::U8, FTy::Str, FTy::OptU8] {
        for shape in [Shape::Named, Shape::Tuple] {
            let mut f = fld(0, ty.clone());
            f.tag = Some(1);
            b.push("G-type", false, Kind::Struct(StructS { shape, enc: None, tag: None, transparent: true, fields: vec![f] }));
        }
    }
    // skipped fields
    for shape in [Shape::Named, Shape::Tuple] {
        for enc in [None, Some(Enc::Map)] {
            let skip = FieldS { idx: 0, borrow: false, ty: FTy::U8, tag: None, skip: true };
            b.st("G-type", shape, enc, None, vec![fld(0, FTy::U8), skip.clone(), fld(2, FTy::OptU8)]);
            b.st("G-type", shape, enc, None, vec![skip, fld(1, FTy::OptU8)]);
        }
    }

    // ---- G-nest: two levels
    let mid = b.push("helper", true, Kind::Struct(StructS { shape: Shape::Named, enc: None, tag: None, transparent: false, fields: vec![fld(0, FTy::OptNested(h_enum)), fld(1, FTy::Nested(h_arr))] }));
    let mid_map = b.push("helper", true, Kind::Struct(StructS { shape: Shape::Named, enc: Some(Enc::Map), tag: None, transparent: false, fields: vec![fld(0, FTy::OptNested(h_ionly)), fld(3, FTy::U8)] }));
    for enc in [None, Some(Enc::Map)] {
        b.st("G-nest", Shape::Named, enc, None, vec![fld(0, FTy::Nested(mid)), fld(1, FTy::OptU8)]);
        b.st("G-nest", Shape::Named, enc, None, vec![fld(0, FTy::OptNested(mid)), fld(2, FTy::U8)]);
        b.st("G-nest", Shape::Named, enc, None, vec![fld(1, FTy::OptNested(mid_map)), fld(2, FTy::U8)]);
        b.st("G-nest", Shape::Tuple, enc, None, vec![fld(0, FTy::Nested(mid_map)), fld(1, FTy::Nested(h_enum))]);
        let variants = vec![
            VariantS { idx: 0, shape: Shape::Tuple, enc: None, tag: None, fields: vec![fld(0, FTy::Nested(mid))] },
            VariantS { idx: 1, shape: Shape::Named, enc: Some(Enc::Map), tag: None, fields: vec![fld(0, FTy::OptNested(mid_map)), fld(1, FTy::OptNested(h_enum))] },
        ];
        b.push("G-nest", false, Kind::Enum(EnumS { enc, tag: None, index_only: false, variants }));
    }

    // ---- G-many: 23 / 24 / 25 optional fields (the one-byte / two-byte header boundary)
    for n in [23u32, 24, 25] {
        for enc in [None, Some(Enc::Map)] {
            b.st("G-many", Shape::Named, enc, None, (0..n).map(|i| fld(i, FTy::OptU8)).collect());
            let mut f: Vec<FieldS> = (0..n).map(|i| fld(i, FTy::OptU8)).collect();
            f[0] = fld(0, FTy::U8);
            b.st("G-many", Shape::Named, enc, None, f);
        }
    }
    b.all
}

// =============================================================================================
// Rust source emission (used by gen_derive/build.rs)

fn ty_src(ty: &FTy, all: &[Schema]) -> String {
    match ty {
        FTy::U8 => "u8".into(),
        FTy::OptU8 => "Option<u8>".into(),
        FTy::BoxOptU8 => "Box<Option<u8>>".into(),
        FTy::CellOptU8 => "std::cell::Cell<Option<u8>>".into(),
        FTy::TaggedOptU8 => "minicbor::data::Tagged<7, Option<u8>>".into(),
        FTy::Str => "String".into(),
        FTy::OptStr => "Option<String>".into(),
        FTy::StrRef => "&'a str".into(),
        FTy::CowStr => "std::borrow::Cow<'a, str>".into(),
        FTy::BytesVec => "Vec<u8>".into(),
        FTy::OptBytesRef => "Option<&'a [u8]>".into(),
        FTy::ByteArr4 => "[u8; 4]".into(),
        FTy::CowBytes => "std::borrow::Cow<'a, [u8]>".into(),
        FTy::OptByteVec => "Option<minicbor::bytes::ByteVec>".into(),
        FTy::ByteSliceRef => "&'a minicbor::bytes::ByteSlice".into(),
        FTy::ByteArrayT => "minicbor::bytes::ByteArray<4>".into(),
        FTy::Nested(j) => type_use(&all[*j], all, "'a"),
        FTy::OptNested(j) => format!("Option<{}>", type_use(&all[*j], all, "'a")),
        FTy::GenericU8 | FTy::GenericOptU8 | FTy::GenericOptNested(_) => "G".into(),
        FTy::NilU8Fns | FTy::NilU8FnsB | FTy::NilU8FnsC | FTy::NilU8FnsD | FTy::NilU8With => "derive_rt::NilU8".into(),
        FTy::FlexEncOnly | FTy::FlexDecOnly => "derive_rt::Flex".into(),
        FTy::IndefArr => "derive_rt::IndefArr".into(),
        FTy::OptIndefArr => "Option<derive_rt::IndefArr>".into(),
    }
}

/// The field type as written in the source: `Option` is spelled with a path in two of the three
/// attribute styles (the macros recognise optional fields syntactically).
fn ty_spelled(ty: &FTy, all: &[Schema], style: usize) -> String {
    let t = ty_src(ty, all);
    match (style, t.strip_prefix("Option<")) {
        (1, Some(rest)) => format!("std::option::Option<{}", rest),
        (2, Some(rest)) => format!("::core::option::Option<{}", rest),
        // through a module alias (`use core::option;` at the top of the generated file)
        (3, Some(rest)) => format!("option::Option<{}", rest),
        _ => t,
    }
}

/// How a schema's type is written at a use site.
pub fn type_use(s: &Schema, all: &[Schema], lt: &str) -> String {
    let mut args = Vec::new();
    if s.has_lifetime(all) {
        args.push(lt.to_string());
    }
    if let Some(g) = s.generic() {
        args.push(g.to_string());
    }
    if args.is_empty() {
        format!("T{}", s.id)
    } else {
        format!("T{}<{}>", s.id, args.join(", "))
    }
}

/// Attribute spelling is a dimension of its own: the same schema must behave identically whether the
/// index is written `#[n(i)]` or `#[cbor(n(i))]`, whether tag / codec attributes come before or after
/// it, in one `#[cbor(..)]` list or in several, and whether the byte-string codec is named through
/// `with` or through `encode_with` + `decode_with` + `cbor_len`. The style is chosen by schema id % 3.
fn field_attrs(f: &FieldS, style: usize) -> String {
    if f.skip {
        return "#[cbor(skip)] ".into();
    }
    let idx_kw = if f.borrow { "b" } else { "n" };
    let mut parts: Vec<String> = Vec::new();
    if let Some(t) = f.tag {
        parts.push(format!("tag({})", t));
    }
    match f.ty {
        FTy::BytesVec | FTy::OptBytesRef | FTy::ByteArr4 | FTy::CowBytes => {
            if style == 1 {
                parts.push("encode_with = \"minicbor::bytes::encode\"".into());
                parts.push("decode_with = \"minicbor::bytes::decode\"".into());
                parts.push("cbor_len = \"minicbor::bytes::cbor_len\"".into());
            } else {
                parts.push("with = \"minicbor::bytes\"".into());
            }
        }
        FTy::NilU8With => {
            if style == 2 {
                parts.push("has_nil".into());
                parts.push("with = \"derive_rt::nilu8\"".into());
            } else {
                parts.push("with = \"derive_rt::nilu8\"".into());
                parts.push("has_nil".into());
            }
        }
        _ => {}
    }
    let custom = match f.ty {
        FTy::NilU8Fns => "#[cbor(encode_with = \"derive_rt::nilu8::encode\", decode_with = \"derive_rt::nilu8::decode\", is_nil = \"derive_rt::nilu8::is_nil\", nil = \"derive_rt::nilu8::nil\", cbor_len = \"derive_rt::nilu8::cbor_len\")] ",
        FTy::NilU8FnsB => "#[cbor(encode_with = \"derive_rt::nilu8::encode\", is_nil = \"derive_rt::nilu8::is_nil\", cbor_len = \"derive_rt::nilu8::cbor_len\", decode_with = \"derive_rt::nilu8::decode\", nil = \"derive_rt::nilu8::nil\")] ",
        FTy::NilU8FnsC => "#[cbor(decode_with = \"derive_rt::nilu8::decode\", nil = \"derive_rt::nilu8::nil\")] #[cbor(encode_with = \"derive_rt::nilu8::encode\", is_nil = \"derive_rt::nilu8::is_nil\")] #[cbor(cbor_len = \"derive_rt::nilu8::cbor_len\")] ",
        FTy::FlexEncOnly => "#[cbor(encode_with = \"derive_rt::flex::encode_arr\", cbor_len = \"derive_rt::flex::cbor_len_arr\")] ",
        FTy::FlexDecOnly => "#[cbor(decode_with = \"derive_rt::flex::decode_any\")] ",
        FTy::NilU8FnsD => "#[cbor(is_nil = \"derive_rt::nilu8::is_nil\")] #[cbor(encode_with = \"derive_rt::nilu8::encode\")] #[cbor(decode_with = \"derive_rt::nilu8::decode\", nil = \"derive_rt::nilu8::nil\", cbor_len = \"derive_rt::nilu8::cbor_len\")] ",
        _ => "",
    };
    // a nested type with a lifetime only compiles when its field is marked as borrowing: those always use the
    // plain #[b(i)] spelling, so that the spelling dimension cannot turn into a compile failure of this family
    let style = if f.borrow && matches!(f.ty, FTy::Nested(_) | FTy::OptNested(_)) { 0 } else { style };
    match style {
        // #[n(i)] first, every other attribute in its own #[cbor(..)]
        0 => format!("#[{}({})] {}{}", idx_kw, f.idx, parts.iter().map(|p| format!("#[cbor({})] ", p)).collect::<String>(), custom),
        // one combined list, index first
        1 => {
            let mut all = vec![format!("{}({})", idx_kw, f.idx)];
            all.extend(parts);
            format!("#[cbor({})] {}", all.join(", "), custom)
        }
        // other attributes first (one list), the index last and spelled through cbor(..)
        _ => {
            let pre = if parts.is_empty() { String::new() } else { format!("#[cbor({})] ", parts.join(", ")) };
            format!("{}{}#[cbor({}({}))] ", custom, pre, idx_kw, f.idx)
        }
    }
}

/// Attribute style `id % 3`; every fourth schema of attribute style 0 spells `Option` through a module alias (style 3,
/// which writes attributes like style 0).
fn spelling_style(id: usize) -> usize {
    if id % 12 == 9 {
        3
    } else {
        id % 3
    }
}

fn fields_src(fields: &[FieldS], shape: Shape, all: &[Schema], public: bool, style: usize) -> String {
    let vis = if public { "pub " } else { "" };
    match shape {
        Shape::Unit => String::new(),
        Shape::Named => format!(" {{ {} }}", fields.iter().enumerate().map(|(k, f)| format!("{}{}f{}: {}", field_attrs(f, style), vis, k, if f.skip { "u8".to_string() } else { ty_spelled(&f.ty, all, style) })).collect::<Vec<_>>().join(", ")),
        Shape::Tuple => format!("({})", fields.iter().map(|f| format!("{}{}{}", field_attrs(f, style), vis, if f.skip { "u8".to_string() } else { ty_spelled(&f.ty, all, style) })).collect::<Vec<_>>().join(", ")),
    }
}

fn make_expr(f: &FieldS, x: &str) -> String {
    if f.skip {
        return format!("{}.u8()", x);
    }
    match &f.ty {
        FTy::U8 | FTy::GenericU8 => format!("{}.u8()", x),
        FTy::FlexEncOnly | FTy::FlexDecOnly => format!("derive_rt::Flex({}.u8())", x),
        FTy::OptU8 | FTy::GenericOptU8 => format!("{}.opt().map(|y| y.u8())", x),
        FTy::BoxOptU8 => format!("Box::new({}.opt().map(|y| y.u8()))", x),
        FTy::CellOptU8 => format!("std::cell::Cell::new({}.opt().map(|y| y.u8()))", x),
        FTy::TaggedOptU8 => format!("minicbor::data::Tagged::new({}.opt().map(|y| y.u8()))", x),
        FTy::Str => format!("{}.str().to_string()", x),
        FTy::OptStr => format!("{}.opt().map(|y| y.str().to_string())", x),
        FTy::StrRef => format!("{}.str()", x),
        FTy::CowStr => format!("std::borrow::Cow::Borrowed({}.str())", x),
        FTy::BytesVec => format!("{}.bytes().to_vec()", x),
        FTy::OptBytesRef => format!("{}.opt().map(|y| y.bytes())", x),
        FTy::ByteArr4 => format!("<[u8; 4]>::try_from({}.bytes()).unwrap()", x),
        FTy::CowBytes => format!("std::borrow::Cow::Borrowed({}.bytes())", x),
        FTy::OptByteVec => format!("{}.opt().map(|y| minicbor::bytes::ByteVec::from(y.bytes().to_vec()))", x),
        FTy::ByteSliceRef => format!("<&minicbor::bytes::ByteSlice>::from({}.bytes())", x),
        FTy::ByteArrayT => format!("minicbor::bytes::ByteArray::from(<[u8; 4]>::try_from({}.bytes()).unwrap())", x),
        FTy::Nested(j) => format!("make_{}(&{})", j, x),
        FTy::OptNested(j) | FTy::GenericOptNested(j) => format!("{}.opt().map(|y| make_{}(y))", x, j),
        FTy::NilU8Fns | FTy::NilU8FnsB | FTy::NilU8FnsC | FTy::NilU8FnsD | FTy::NilU8With => format!("derive_rt::NilU8({}.opt().map(|y| y.u8()))", x),
        FTy::IndefArr => format!("derive_rt::IndefArr({}.bytes().to_vec())", x),
        FTy::OptIndefArr => format!("{}.opt().map(|y| derive_rt::IndefArr(y.bytes().to_vec()))", x),
    }
}

/// `t` is an expression of type `&FieldType`
fn view_expr(f: &FieldS, t: &str) -> String {
    if f.skip {
        return format!("GenVal::U8(*{})", t);
    }
    match &f.ty {
        FTy::U8 | FTy::GenericU8 => format!("GenVal::U8(*{})", t),
        FTy::FlexEncOnly | FTy::FlexDecOnly => format!("GenVal::U8({}.0)", t),
        FTy::OptU8 | FTy::GenericOptU8 => format!("GenVal::Opt({}.map(|y| Box::new(GenVal::U8(y))))", t),
        FTy::BoxOptU8 => format!("GenVal::Opt((**{}).map(|y| Box::new(GenVal::U8(y))))", t),
        FTy::CellOptU8 => format!("GenVal::Opt({}.get().map(|y| Box::new(GenVal::U8(y))))", t),
        FTy::TaggedOptU8 => format!("GenVal::Opt((*{}.value()).map(|y| Box::new(GenVal::U8(y))))", t),
        FTy::Str | FTy::StrRef | FTy::CowStr => format!("GenVal::Str({}.to_string())", t),
        FTy::OptStr => format!("GenVal::Opt({}.as_ref().map(|y| Box::new(GenVal::Str(y.to_string()))))", t),
        FTy::BytesVec => format!("GenVal::Bytes({}.to_vec())", t),
        FTy::OptBytesRef => format!("GenVal::Opt({}.map(|y| Box::new(GenVal::Bytes(y.to_vec()))))", t),
        FTy::ByteArr4 | FTy::CowBytes | FTy::ByteSliceRef | FTy::ByteArrayT => format!("GenVal::Bytes({}.to_vec())", t),
        FTy::OptByteVec => format!("GenVal::Opt({}.as_ref().map(|y| Box::new(GenVal::Bytes(y.to_vec()))))", t),
        FTy::Nested(j) => format!("view_{}({})", j, t),
        FTy::OptNested(j) | FTy::GenericOptNested(j) => format!("GenVal::Opt({}.as_ref().map(|y| Box::new(view_{}(y))))", t, j),
        FTy::NilU8Fns | FTy::NilU8FnsB | FTy::NilU8FnsC | FTy::NilU8FnsD | FTy::NilU8With => format!("GenVal::Opt({}.0.map(|y| Box::new(GenVal::U8(y))))", t),
        FTy::IndefArr => format!("GenVal::Bytes({}.0.clone())", t),
        FTy::OptIndefArr => format!("GenVal::Opt({}.as_ref().map(|y| Box::new(GenVal::Bytes(y.0.clone()))))", t),
    }
}

/// `t` is an expression of type `&FieldType`; result: bool expression
fn borrow_expr(f: &FieldS, t: &str, all: &[Schema]) -> Option<String> {
    if f.skip {
        return None;
    }
    match &f.ty {
        FTy::StrRef => Some(format!("derive_rt::inside(b, {0}.as_ptr(), {0}.len())", t)),
        FTy::CowStr if f.borrow => Some(format!("matches!({}, std::borrow::Cow::Borrowed(s) if derive_rt::inside(b, s.as_ptr(), s.len()))", t)),
        FTy::OptBytesRef => Some(format!("{}.map(|y| derive_rt::inside(b, y.as_ptr(), y.len())).unwrap_or(true)", t)),
        FTy::ByteSliceRef => Some(format!("derive_rt::inside(b, {0}.as_ptr(), {0}.len())", t)),
        FTy::CowBytes if f.borrow => Some(format!("matches!({}, std::borrow::Cow::Borrowed(s) if derive_rt::inside(b, s.as_ptr(), s.len()))", t)),
        FTy::Nested(j) if all[*j].has_lifetime(all) => Some(format!("borrow_{}({}, b)", j, t)),
        FTy::OptNested(j) if all[*j].has_lifetime(all) => Some(format!("{}.as_ref().map(|y| borrow_{}(y, b)).unwrap_or(true)", t, j)),
        _ => None,
    }
}

/// Emit the Rust source for all schemas: type definitions, make / view / borrow functions and the entry table.
pub fn emit_rust(all: &[Schema], shard: usize, shards: usize) -> String {
    let mine = |s: &Schema| s.helper || s.id % shards == shard;
    let entry = |s: &Schema| if s.helper { shard == 0 } else { s.id % shards == shard };
    let mut o = String::new();
    o.push_str("// @generated by refmodel::schema::emit_rust\n#[allow(unused_imports)]\nuse core::option;\nuse refmodel::schema::GenVal;\n\n");
    for s in all {
        if !mine(s) {
            continue;
        }
        let mut generics = Vec::new();
        if s.has_lifetime(all) {
            generics.push("'a");
        }
        if s.generic().is_some() {
            generics.push("G");
        }
        let gdecl = if generics.is_empty() { String::new() } else { format!("<{}>", generics.join(", ")) };
        let derives = "#[derive(minicbor::Encode, minicbor::Decode, minicbor::CborLen, Debug, PartialEq)]";
        let enc_attr = |e: &Option<Enc>| match e {
            None => "",
            Some(Enc::Array) => "#[cbor(array)] ",
            Some(Enc::Map) => "#[cbor(map)] ",
        };
        let tag_attr = |t: &Option<u64>| t.map(|t| format!("#[cbor(tag({}))] ", t)).unwrap_or_default();
        // container level: encoding and tag in separate attributes, or combined in either order
        let enc_tag = |e: &Option<Enc>, t: &Option<u64>| -> String {
            let en = match e {
                None => None,
                Some(Enc::Array) => Some("array"),
                Some(Enc::Map) => Some("map"),
            };
            match (en, t, s.id % 3) {
                (Some(en), Some(t), 1) => format!("#[cbor({}, tag({}))] ", en, t),
                (Some(en), Some(t), 2) => format!("#[cbor(tag({}), {})] ", t, en),
                _ => format!("{}{}", enc_attr(e), tag_attr(t)),
            }
        };
        match &s.kind {
            Kind::Struct(st) => {
                o.push_str(&format!("{}\n{}{}pub struct T{}{}{}{}\n", derives, enc_tag(&st.enc, &st.tag), if st.transparent { "#[cbor(transparent)] " } else { "" }, s.id, gdecl, fields_src(&st.fields, st.shape, all, true, spelling_style(s.id)), if st.shape == Shape::Named { "" } else { ";" }));
            }
            Kind::Enum(e) => {
                o.push_str(&format!("{}\n{}{}pub enum T{}{} {{\n", derives, enc_tag(&e.enc, &e.tag), if e.index_only { "#[cbor(index_only)] " } else { "" }, s.id, gdecl));
                for (p, v) in e.variants.iter().enumerate() {
                    o.push_str(&format!("    {} {}V{}{},\n", if s.id % 3 == 2 { format!("#[cbor(n({}))]", v.idx) } else { format!("#[n({})]", v.idx) }, enc_tag(&v.enc, &v.tag), p, fields_src(&v.fields, v.shape, all, false, spelling_style(s.id))));
                }
                o.push_str("}\n");
            }
        }
        let tu = type_use(s, all, "'a");
        let tu_anon = type_use(s, all, "'_");
        // make
        o.push_str(&format!("pub fn make_{}<'a>(g: &'a GenVal) -> {} {{\n", s.id, tu));
        match &s.kind {
            Kind::Struct(st) => {
                let exprs: Vec<String> = st.fields.iter().enumerate().map(|(k, f)| make_expr(f, &format!("g.fields()[{}]", k))).collect();
                match st.shape {
                    Shape::Unit => o.push_str(&format!("    T{}\n", s.id)),
                    Shape::Named => o.push_str(&format!("    T{} {{ {} }}\n", s.id, exprs.iter().enumerate().map(|(k, e)| format!("f{}: {}", k, e)).collect::<Vec<_>>().join(", "))),
                    Shape::Tuple => o.push_str(&format!("    T{}({})\n", s.id, exprs.join(", "))),
                }
            }
            Kind::Enum(e) => {
                o.push_str("    match g.variant() {\n");
                for (p, v) in e.variants.iter().enumerate() {
                    let exprs: Vec<String> = v.fields.iter().enumerate().map(|(k, f)| make_expr(f, &format!("g.fields()[{}]", k))).collect();
                    let body = match v.shape {
                        Shape::Unit => format!("T{}::V{}", s.id, p),
                        Shape::Named => format!("T{}::V{} {{ {} }}", s.id, p, exprs.iter().enumerate().map(|(k, e)| format!("f{}: {}", k, e)).collect::<Vec<_>>().join(", ")),
                        Shape::Tuple => format!("T{}::V{}({})", s.id, p, exprs.join(", ")),
                    };
                    o.push_str(&format!("        {} => {},\n", p, body));
                }
                o.push_str("        _ => unreachable!(),\n    }\n");
            }
        }
        o.push_str("}\n");
        // view + borrow
        let mut view = format!("pub fn view_{}(v: &{}) -> GenVal {{\n", s.id, tu_anon);
        let mut bor = format!("pub fn borrow_{}(v: &{}, b: &[u8]) -> bool {{\n    let mut ok = true;\n", s.id, tu_anon);
        match &s.kind {
            Kind::Struct(st) => {
                let acc = |k: usize| match st.shape {
                    Shape::Named => format!("(&v.f{})", k),
                    _ => format!("(&v.{})", k),
                };
                view.push_str(&format!("    GenVal::Struct(vec![{}])\n", st.fields.iter().enumerate().map(|(k, f)| view_expr(f, &acc(k))).collect::<Vec<_>>().join(", ")));
                for (k, f) in st.fields.iter().enumerate() {
                    if let Some(e) = borrow_expr(f, &acc(k), all) {
                        bor.push_str(&format!("    ok &= {};\n", e));
                    }
                }
            }
            Kind::Enum(e) => {
                view.push_str("    match v {\n");
                bor.push_str("    match v {\n");
                for (p, v) in e.variants.iter().enumerate() {
                    let binds: Vec<String> = (0..v.fields.len()).map(|k| format!("x{}", k)).collect();
                    let pat = match v.shape {
                        Shape::Unit => format!("T{}::V{}", s.id, p),
                        Shape::Named => format!("T{}::V{} {{ {} }}", s.id, p, binds.iter().enumerate().map(|(k, b)| format!("f{}: {}", k, b)).collect::<Vec<_>>().join(", ")),
                        Shape::Tuple => format!("T{}::V{}({})", s.id, p, binds.join(", ")),
                    };
                    view.push_str(&format!("        {} => GenVal::Enum({}, vec![{}]),\n", pat, p, v.fields.iter().enumerate().map(|(k, f)| view_expr(f, &format!("x{}", k))).collect::<Vec<_>>().join(", ")));
                    let checks: Vec<String> = v.fields.iter().enumerate().filter_map(|(k, f)| borrow_expr(f, &format!("x{}", k), all)).collect();
                    bor.push_str(&format!("        {} => {{ {} }}\n", pat, checks.iter().map(|c| format!("ok &= {};", c)).collect::<Vec<_>>().join(" ")));
                }
                view.push_str("    }\n");
                bor.push_str("    }\n");
            }
        }
        view.push_str("}\n");
        bor.push_str("    ok\n}\n");
        o.push_str(&view);
        o.push_str(&bor);
        // entry points
        o.push_str(&format!(
            "fn enc_{i}(g: &GenVal) -> Result<Vec<u8>, String> {{ let v = make_{i}(g); minicbor::to_vec(&v).map_err(|e| e.to_string()) }}\n\
             fn len_{i}(g: &GenVal) -> usize {{ let v = make_{i}(g); minicbor::len(&v) }}\n\
             fn slice_{i}(g: &GenVal, buf: &mut [u8]) -> (Result<(), bool>, usize) {{ let v = make_{i}(g); let cap = buf.len(); let mut s: &mut [u8] = buf; let r = minicbor::encode(&v, &mut s); let w = cap - s.len(); (r.map_err(|e| e.is_write()), w) }}\n\
             fn dec_{i}(b: &[u8]) -> derive_rt::DecRes {{ let mut d = minicbor::Decoder::new(b); match d.decode::<{t}>() {{ Ok(v) => {{ let ok = borrow_{i}(&v, b); derive_rt::DecRes::Ok(view_{i}(&v), d.position(), ok) }} Err(e) => derive_rt::DecRes::Err(derive_rt::classify(&e), d.position()) }} }}\n\n",
            i = s.id,
            t = tu_anon
        ));
    }
    o.push_str("pub fn entries() -> Vec<derive_rt::Entry> {\n    vec![\n");
    for s in all.iter().filter(|s| entry(s)) {
        o.push_str(&format!("        derive_rt::Entry {{ id: {i}, to_vec: enc_{i}, len: len_{i}, encode_slice: slice_{i}, decode: dec_{i} }},\n", i = s.id));
    }
    o.push_str("    ]\n}\n");
    o
}

// =============================================================================================
// Compatibility pairs (C10)

/// (older schema id, newer schema id, description of the documented-compatible edit).
/// `compatible == false` marks pairs where the reader has a mandatory field the writer lacks.
#[derive(Debug, Clone)]
pub struct Pair {
    pub old: usize,
    pub new: usize,
    pub edit: String,
    pub compatible: bool,
}

/// Appends the compatibility family to `all` and returns the pairs. Called by `enumerate_with_pairs`.
fn compat_family(b: &mut Builder) -> Vec<Pair> {
    let mut pairs = Vec::new();
    let unit = |idx| VariantS { idx, shape: Shape::Unit, enc: None, tag: None, fields: vec![] };
    // enums used only as optional field types
    let e0 = b.push("G-compat", true, Kind::Enum(EnumS { enc: None, tag: None, index_only: false, variants: vec![unit(0), VariantS { idx: 1, shape: Shape::Tuple, enc: None, tag: None, fields: vec![fld(0, FTy::U8)] }] }));
    let mut e_edits: Vec<(usize, &'static str)> = Vec::new();
    {
        let base = |extra: Vec<VariantS>, first: VariantS| {
            let mut v = vec![first, VariantS { idx: 1, shape: Shape::Tuple, enc: None, tag: None, fields: vec![fld(0, FTy::U8)] }];
            v.extend(extra);
            Kind::Enum(EnumS { enc: None, tag: None, index_only: false, variants: v })
        };
        e_edits.push((b.push("G-compat", true, base(vec![unit(2)], unit(0))), "add a unit variant"));
        e_edits.push((b.push("G-compat", true, base(vec![VariantS { idx: 2, shape: Shape::Tuple, enc: None, tag: None, fields: vec![fld(0, FTy::U8)] }], unit(0))), "add a tuple variant"));
        e_edits.push((b.push("G-compat", true, base(vec![VariantS { idx: 2, shape: Shape::Named, enc: Some(Enc::Map), tag: None, fields: vec![fld(0, FTy::U8), fld(1, FTy::OptStr)] }], unit(0))), "add a struct variant (map)"));
        e_edits.push((b.push("G-compat", true, base(vec![], VariantS { idx: 0, shape: Shape::Tuple, enc: None, tag: None, fields: vec![fld(0, FTy::OptU8)] })), "turn the unit variant into a tuple variant with an optional field"));
        e_edits.push((b.push("G-compat", true, base(vec![], VariantS { idx: 0, shape: Shape::Named, enc: None, tag: None, fields: vec![fld(0, FTy::OptU8), fld(1, FTy::OptStr)] })), "turn the unit variant into a struct variant with optional fields"));
    }
    let i0 = b.push("G-compat", true, Kind::Enum(EnumS { enc: None, tag: None, index_only: true, variants: vec![unit(0), unit(1)] }));
    let i1 = b.push("G-compat", true, Kind::Enum(EnumS { enc: None, tag: None, index_only: true, variants: vec![unit(0), unit(1), unit(5)] }));
    let nested = b.push("G-compat", true, Kind::Struct(StructS { shape: Shape::Named, enc: None, tag: None, transparent: false, fields: vec![fld(0, FTy::U8), fld(1, FTy::OptU8)] }));
    let nested_map = b.push("G-compat", true, Kind::Struct(StructS { shape: Shape::Named, enc: Some(Enc::Map), tag: None, transparent: false, fields: vec![fld(0, FTy::U8)] }));

    let menu: Vec<(FTy, Option<u64>, &'static str)> = vec![
        (FTy::OptU8, None, "Option<u8>"),
        (FTy::OptStr, None, "Option<String>"),
        (FTy::OptNested(nested), None, "Option<struct>"),
        (FTy::OptNested(nested_map), None, "Option<map struct>"),
        (FTy::OptBytesRef, None, "Option<&[u8]>"),
        (FTy::OptU8, Some(9), "tagged Option<u8>"),
        (FTy::OptNested(e0), None, "Option<enum>"),
        (FTy::OptNested(i0), None, "Option<index_only enum>"),
        (FTy::NilU8Fns, None, "nil-aware custom codec"),
        (FTy::NilU8FnsB, None, "nil-aware custom codec (attribute order B)"),
        (FTy::NilU8FnsC, None, "nil-aware custom codec (attribute order C)"),
        (FTy::NilU8FnsD, None, "nil-aware custom codec (attribute order D)"),
        (FTy::NilU8With, None, "nil-aware codec module (with + has_nil)"),
        (FTy::OptByteVec, None, "Option<ByteVec>"),
        (FTy::OptStr, Some(300), "tagged Option<String>"),
        (FTy::OptIndefArr, None, "Option<indefinite array type>"),
        (FTy::GenericOptU8, None, "generic parameter T = Option<u8> (optional through Decode::nil, not spelled Option)"),
    ];
    for (enc, shape) in [(None, Shape::Named), (Some(Enc::Map), Shape::Named), (None, Shape::Tuple), (Some(Enc::Map), Shape::Tuple)] {
        let en = match (enc.is_none(), shape == Shape::Named) {
            (true, true) => "array",
            (false, true) => "map",
            (true, false) => "array, tuple struct",
            (false, false) => "map, tuple struct",
        };
        let mk = |b: &mut Builder, fields: Vec<FieldS>| b.push("G-compat", false, Kind::Struct(StructS { shape, enc, tag: None, transparent: false, fields }));
        // bases: the field under edit is followed by a mandatory sibling
        let b1 = mk(b, vec![fld(0, FTy::U8), fld(2, FTy::U8)]);
        let b2 = mk(b, vec![fld(0, FTy::OptU8), fld(2, FTy::U8)]);
        let b3 = mk(b, vec![fld(0, FTy::OptNested(e0)), fld(2, FTy::U8)]);
        let b4 = mk(b, vec![fld(0, FTy::OptNested(i0)), fld(2, FTy::U8)]);
        // the enum-typed optional field spelled through a generic parameter (G = Option<E>)
        let b3g = mk(b, vec![fld(0, FTy::GenericOptNested(e0)), fld(2, FTy::U8)]);
        let b4g = mk(b, vec![fld(0, FTy::GenericOptNested(i0)), fld(2, FTy::U8)]);
        for (e, what) in &e_edits {
            let n = mk(b, vec![fld(0, FTy::GenericOptNested(*e)), fld(2, FTy::U8)]);
            pairs.push(Pair { old: b3g, new: n, edit: format!("{}: enum in an optional field spelled as a generic parameter G = Option<E>: {}", en, what), compatible: true });
        }
        let ng = mk(b, vec![fld(0, FTy::GenericOptNested(i1)), fld(2, FTy::U8)]);
        pairs.push(Pair { old: b4g, new: ng, edit: format!("{}: index_only enum in an optional field spelled as a generic parameter: add a variant", en), compatible: true });
        let only_z = mk(b, vec![fld(2, FTy::U8)]);
        pairs.push(Pair { old: b2, new: only_z, edit: format!("{}: drop the optional field at index 0", en), compatible: true });
        pairs.push(Pair { old: only_z, new: b1, edit: format!("{}: (incompatible) add a mandatory field at index 0", en), compatible: false });
        for (ty, tag, name) in &menu {
            for base in [b1, b2] {
                let base_fields = match &b.all[base].kind {
                    Kind::Struct(s) => s.fields.clone(),
                    _ => unreachable!(),
                };
                for at in [1u32, 3] {
                    let mut f = fld(at, ty.clone());
                    f.tag = *tag;
                    let mut fields = base_fields.clone();
                    // declaration order of the new field: in the middle for the gap, last for the new highest index
                    if at == 1 {
                        fields.insert(1, f);
                    } else {
                        fields.push(f);
                    }
                    let n = mk(b, fields);
                    pairs.push(Pair { old: base, new: n, edit: format!("{}: add {} at {} index {}", en, name, if at == 1 { "gap" } else { "new highest" }, at), compatible: true });
                }
            }
        }
        // enum edits behind an optional field
        for (e, what) in &e_edits {
            let n = mk(b, vec![fld(0, FTy::OptNested(*e)), fld(2, FTy::U8)]);
            pairs.push(Pair { old: b3, new: n, edit: format!("{}: enum in an optional field: {}", en, what), compatible: true });
            // two edits: also add an optional field at the gap
            let n2 = mk(b, vec![fld(0, FTy::OptNested(*e)), fld(1, FTy::OptStr), fld(2, FTy::U8)]);
            pairs.push(Pair { old: b3, new: n2, edit: format!("{}: enum in an optional field: {} + add Option<String> at gap index 1", en, what), compatible: true });
        }
        // unit variants whose encoding is overridden at the variant level (the empty body must follow the
        // variant's encoding, or the later struct / tuple variant cannot read it)
        for (eenc, venc) in [(None, Enc::Map), (Some(Enc::Map), Enc::Array), (Some(Enc::Array), Enc::Map)] {
            let vn = if venc == Enc::Map { "map" } else { "array" };
            let old_e = b.push("G-compat", true, Kind::Enum(EnumS { enc: eenc, tag: None, index_only: false, variants: vec![VariantS { idx: 0, shape: Shape::Unit, enc: Some(venc), tag: None, fields: vec![] }, VariantS { idx: 1, shape: Shape::Tuple, enc: None, tag: None, fields: vec![fld(0, FTy::U8)] }] }));
            let new_named = b.push("G-compat", true, Kind::Enum(EnumS { enc: eenc, tag: None, index_only: false, variants: vec![VariantS { idx: 0, shape: Shape::Named, enc: Some(venc), tag: None, fields: vec![fld(0, FTy::OptU8), fld(1, FTy::OptStr)] }, VariantS { idx: 1, shape: Shape::Tuple, enc: None, tag: None, fields: vec![fld(0, FTy::U8)] }] }));
            let new_tuple = b.push("G-compat", true, Kind::Enum(EnumS { enc: eenc, tag: None, index_only: false, variants: vec![VariantS { idx: 0, shape: Shape::Tuple, enc: Some(venc), tag: None, fields: vec![fld(0, FTy::OptU8)] }, VariantS { idx: 1, shape: Shape::Tuple, enc: None, tag: None, fields: vec![fld(0, FTy::U8)] }] }));
            let o = mk(b, vec![fld(0, FTy::OptNested(old_e)), fld(2, FTy::U8)]);
            let n1 = mk(b, vec![fld(0, FTy::OptNested(new_named)), fld(2, FTy::U8)]);
            let n2 = mk(b, vec![fld(0, FTy::OptNested(new_tuple)), fld(2, FTy::U8)]);
            pairs.push(Pair { old: o, new: n1, edit: format!("{}: unit variant with #[cbor({})] override -> struct variant with optional fields", en, vn), compatible: true });
            pairs.push(Pair { old: o, new: n2, edit: format!("{}: unit variant with #[cbor({})] override -> tuple variant with an optional field", en, vn), compatible: true });
            // the enums themselves as mandatory fields (top-level use of the edited enum)
            let om = mk(b, vec![fld(0, FTy::Nested(old_e)), fld(1, FTy::U8)]);
            let nm = mk(b, vec![fld(0, FTy::Nested(new_named)), fld(1, FTy::U8)]);
            pairs.push(Pair { old: om, new: nm, edit: format!("{}: mandatory enum field: unit variant with #[cbor({})] override -> struct variant with optional fields", en, vn), compatible: true });
        }
        let n = mk(b, vec![fld(0, FTy::OptNested(i1)), fld(2, FTy::U8)]);
        pairs.push(Pair { old: b4, new: n, edit: format!("{}: index_only enum in an optional field: add a variant", en), compatible: true });
        let n2 = mk(b, vec![fld(0, FTy::OptNested(i1)), fld(2, FTy::U8), fld(3, FTy::OptU8)]);
        pairs.push(Pair { old: b4, new: n2, edit: format!("{}: index_only enum in an optional field: add a variant + add Option<u8> at index 3", en), compatible: true });
        // the enum in the last position and in a tuple struct
        let l0 = mk(b, vec![fld(0, FTy::U8), fld(1, FTy::OptNested(i0))]);
        let l1 = mk(b, vec![fld(0, FTy::U8), fld(1, FTy::OptNested(i1))]);
        pairs.push(Pair { old: l0, new: l1, edit: format!("{}: index_only enum as the last optional field: add a variant", en), compatible: true });
    }
    pairs
}

/// All schemas (grammar + compatibility family) and the compatibility pairs.
pub fn enumerate_with_pairs(thorough: bool) -> (Vec<Schema>, Vec<Pair>) {
    let all = enumerate_schemas_base(thorough);
    let mut b = Builder { all };
    let pairs = compat_family(&mut b);
    (b.all, pairs)
}
