//! Reference model for the minicbor verification harness.
//! Independent of minicbor: data model, RFC 8949 parser/encoder, enumerators,
//! IEEE 754 conversions.

pub mod item;
pub mod enumerate;
pub mod float;
pub mod shape;
pub mod render;
pub mod schema;
pub mod corpus;

pub use item::*;
