//! The relation between RFC 8949 data items and the Rust types / accessors that
//! decode them: `decode_ref(shape, item)` says what a correct decoder of a value
//! of `shape` must do on a well-formed `item`.
//!
//! Three verdicts keep the oracle no stronger than the property:
//! * `MustOk(v)`: the item has the shape the target is documented to accept;
//! * `MustErr`: the item cannot denote a value of the target;
//! * `May(v)`: the data model would allow a value but the API documents a
//!   restriction or leniency (definite-only strings, definite-only tuples,
//!   extra trailing elements that are skipped for forward compatibility);
//!   either an error or exactly `v` is accepted.

use crate::float::*;
use crate::item::*;

#[derive(Debug, Clone, PartialEq, Eq)]
pub enum Shape {
    Bool,
    /// unsigned integer of the given bit width
    UInt(u32),
    /// signed integer of the given bit width
    SInt(u32),
    /// the full CBOR integer range [-2^64, 2^64-1]
    IntFull,
    Char,
    NonZeroU(u32),
    NonZeroS(u32),
    /// the `f16()` accessor: half items only
    F16Acc,
    F32,
    F64,
    /// definite text (str(), String, &str, Box<str>, Cow<str>, paths)
    Str,
    /// definite bytes (bytes(), ByteVec, &ByteSlice)
    Bytes,
    ByteArray(usize),
    CStr,
    Null,
    Undefined,
    /// the `simple()` accessor
    SimpleAcc,
    Option(Box<Shape>),
    Result(Box<Shape>, Box<Shape>),
    Unit,
    Tuple(Vec<Shape>),
    FixedArray(Box<Shape>, usize),
    Seq(Box<Shape>),
    /// collection compared as a sorted multiset (BinaryHeap)
    Bag(Box<Shape>),
    /// collection compared as a sorted set (BTreeSet, HashSet)
    Set(Box<Shape>),
    /// keyed collection, last duplicate wins, compared sorted by key
    Map(Box<Shape>, Box<Shape>),
    /// the map_iter accessor: list of pairs, order and duplicates kept
    Pairs(Box<Shape>, Box<Shape>),
    /// types built with decode_fields!: positional fields, extra elements skipped
    Fields(Vec<Shape>),
    Duration,
    SystemTime,
    /// [variant index, payload] with the payload shape per index
    Enum(Vec<Shape>),
    Bound(Box<Shape>),
    Tagged(u64, Box<Shape>),
    /// all chunks of a byte string (bytes_iter): value is the list of chunks
    ByteChunks,
    /// all chunks of a text string (str_iter)
    TextChunks,
}

#[derive(Debug, Clone, PartialEq)]
pub enum Verdict {
    MustOk(Item),
    MustErr,
    May(Item),
}

use Verdict::*;

impl Verdict {
    fn weaken(self) -> Verdict {
        match self {
            MustOk(v) => May(v),
            o => o,
        }
    }
}

/// Combine component verdicts into the verdict for a composite built by `f`.
fn combine(parts: Vec<Verdict>, f: impl FnOnce(Vec<Item>) -> Item) -> Verdict {
    let mut may = false;
    let mut vals = Vec::with_capacity(parts.len());
    for p in parts {
        match p {
            MustErr => return MustErr,
            May(v) => {
                may = true;
                vals.push(v)
            }
            MustOk(v) => vals.push(v),
        }
    }
    if may {
        May(f(vals))
    } else {
        MustOk(f(vals))
    }
}

fn umax(bits: u32) -> u128 {
    (1u128 << bits) - 1
}

fn int_value(item: &Item) -> Option<i128> {
    match item {
        Item::Uint(n, _) => Some(*n as i128),
        Item::Nint(n, _) => Some(-1 - *n as i128),
        _ => None,
    }
}

fn is_scalar(n: u32) -> bool {
    char::from_u32(n).is_some()
}

fn sort_items(v: &mut Vec<Item>) {
    v.sort_by_key(|i| i.to_bytes());
}

pub fn decode_ref(shape: &Shape, item: &Item) -> Verdict {
    match shape {
        Shape::Bool => match item {
            Item::Simple(20) | Item::Simple(21) => MustOk(item.clone()),
            _ => MustErr,
        },
        Shape::UInt(bits) => match item {
            Item::Uint(n, _) if (*n as u128) <= umax(*bits) => MustOk(Item::uint(*n)),
            _ => MustErr,
        },
        Shape::SInt(bits) => match int_value(item) {
            Some(v) if v >= -(1i128 << (bits - 1)) && v < (1i128 << (bits - 1)) => MustOk(Item::int(v)),
            _ => MustErr,
        },
        Shape::IntFull => match int_value(item) {
            Some(v) => MustOk(Item::int(v)),
            None => MustErr,
        },
        Shape::Char => match item {
            Item::Uint(n, _) if *n <= u32::MAX as u64 && is_scalar(*n as u32) => MustOk(Item::uint(*n)),
            _ => MustErr,
        },
        Shape::NonZeroU(bits) => match item {
            Item::Uint(n, _) if *n != 0 && (*n as u128) <= umax(*bits) => MustOk(Item::uint(*n)),
            _ => MustErr,
        },
        Shape::NonZeroS(bits) => match int_value(item) {
            Some(v) if v != 0 && v >= -(1i128 << (bits - 1)) && v < (1i128 << (bits - 1)) => MustOk(Item::int(v)),
            _ => MustErr,
        },
        Shape::F16Acc => match item {
            Item::Float(b, FW::F16) => MustOk(Item::f32(f16_to_f32(*b as u16))),
            _ => MustErr,
        },
        Shape::F32 => match item {
            Item::Float(b, FW::F16) => MustOk(Item::f32(f16_to_f32(*b as u16))),
            Item::Float(b, FW::F32) => MustOk(Item::f32(*b as u32)),
            _ => MustErr,
        },
        Shape::F64 => match item {
            Item::Float(b, FW::F16) => MustOk(Item::f64(f16_to_f64(*b as u16))),
            Item::Float(b, FW::F32) => MustOk(Item::f64(f32_to_f64(*b as u32))),
            Item::Float(b, FW::F64) => MustOk(Item::f64(*b)),
            _ => MustErr,
        },
        Shape::Str => match item {
            Item::Text(d, f) => {
                if !item.utf8_ok() {
                    return MustErr;
                }
                let v = Item::Text(d.clone(), StrForm::Def(W::min_for(d.len() as u64)));
                match f {
                    StrForm::Def(_) => MustOk(v),
                    StrForm::Indef(_) => May(v),
                }
            }
            _ => MustErr,
        },
        Shape::Bytes => match item {
            Item::Bytes(d, StrForm::Def(_)) => MustOk(Item::bytes(d)),
            Item::Bytes(d, StrForm::Indef(_)) => May(Item::bytes(d)),
            _ => MustErr,
        },
        Shape::ByteArray(n) => match item {
            Item::Bytes(d, f) if d.len() == *n => match f {
                StrForm::Def(_) => MustOk(Item::bytes(d)),
                StrForm::Indef(_) => May(Item::bytes(d)),
            },
            _ => MustErr,
        },
        Shape::CStr => match item {
            Item::Bytes(d, f) if d.last() == Some(&0) && !d[..d.len() - 1].contains(&0) => match f {
                StrForm::Def(_) => MustOk(Item::bytes(d)),
                StrForm::Indef(_) => May(Item::bytes(d)),
            },
            _ => MustErr,
        },
        Shape::Null => match item {
            Item::Simple(22) => MustOk(NULL),
            _ => MustErr,
        },
        Shape::Undefined => match item {
            Item::Simple(23) => MustOk(UNDEFINED),
            _ => MustErr,
        },
        Shape::SimpleAcc => match item {
            // false/true/null/undefined are simple values 20..23 in the data model, but the API
            // has dedicated accessors for them and documents no promise for simple()
            Item::Simple(s) if (20..=23).contains(s) => May(Item::uint(*s as u64)),
            Item::Simple(s) => MustOk(Item::uint(*s as u64)),
            _ => MustErr,
        },
        Shape::Option(t) => match item {
            Item::Simple(22) => MustOk(NULL),
            _ => decode_ref(t, item),
        },
        Shape::Result(t, e) => decode_ref(&Shape::Enum(vec![(**t).clone(), (**e).clone()]), item),
        Shape::Enum(variants) => match item {
            Item::Array(v, l) if v.len() == 2 => {
                let idx = match &v[0] {
                    Item::Uint(n, _) if (*n as usize) < variants.len() => *n as usize,
                    _ => return MustErr,
                };
                let r = combine(vec![decode_ref(&variants[idx], &v[1])], |mut x| Item::array(vec![Item::uint(idx as u64), x.remove(0)]));
                match l {
                    Len::Def(_) => r,
                    Len::Indef => r.weaken(),
                }
            }
            _ => MustErr,
        },
        Shape::Unit => match item {
            Item::Array(v, Len::Def(_)) if v.is_empty() => MustOk(Item::array(vec![])),
            Item::Array(v, Len::Indef) if v.is_empty() => May(Item::array(vec![])),
            _ => MustErr,
        },
        Shape::Tuple(shapes) => match item {
            Item::Array(v, l) if v.len() == shapes.len() => {
                let r = combine(v.iter().zip(shapes).map(|(i, s)| decode_ref(s, i)).collect(), Item::array);
                match l {
                    Len::Def(_) => r,
                    Len::Indef => r.weaken(),
                }
            }
            _ => MustErr,
        },
        Shape::FixedArray(t, n) => match item {
            Item::Array(v, _) if v.len() == *n => combine(v.iter().map(|i| decode_ref(t, i)).collect(), Item::array),
            _ => MustErr,
        },
        Shape::Seq(t) => match item {
            Item::Array(v, _) => combine(v.iter().map(|i| decode_ref(t, i)).collect(), Item::array),
            _ => MustErr,
        },
        Shape::Bag(t) => match item {
            Item::Array(v, _) => combine(v.iter().map(|i| decode_ref(t, i)).collect(), |mut x| {
                sort_items(&mut x);
                Item::array(x)
            }),
            _ => MustErr,
        },
        Shape::Set(t) => match item {
            Item::Array(v, _) => combine(v.iter().map(|i| decode_ref(t, i)).collect(), |mut x| {
                sort_items(&mut x);
                x.dedup();
                Item::array(x)
            }),
            _ => MustErr,
        },
        Shape::Pairs(k, x) => match item {
            Item::Map(v, _) => combine(v.iter().flat_map(|(a, b)| [decode_ref(k, a), decode_ref(x, b)]).collect(), |f| {
                Item::map(f.chunks(2).map(|c| (c[0].clone(), c[1].clone())).collect())
            }),
            _ => MustErr,
        },
        Shape::Map(k, x) => match decode_ref(&Shape::Pairs(k.clone(), x.clone()), item) {
            MustErr => MustErr,
            MustOk(m) => MustOk(canon_map(m)),
            May(m) => May(canon_map(m)),
        },
        Shape::Fields(shapes) => match item {
            Item::Array(v, _) if v.len() >= shapes.len() => {
                let r = combine(v.iter().zip(shapes).map(|(i, s)| decode_ref(s, i)).collect(), Item::array);
                if v.len() > shapes.len() {
                    // surplus elements are skipped (forward compatibility); not part of the data model of the type
                    r.weaken()
                } else {
                    r
                }
            }
            _ => MustErr,
        },
        Shape::Duration => {
            let fields = decode_ref(&Shape::Fields(vec![Shape::UInt(64), Shape::UInt(32)]), item);
            let (v, was_must) = match fields {
                MustErr => return MustErr,
                MustOk(v) => (v, true),
                May(v) => (v, false),
            };
            let (secs, nanos) = match &v {
                Item::Array(f, _) => match (&f[0], &f[1]) {
                    (Item::Uint(s, _), Item::Uint(n, _)) => (*s, *n),
                    _ => unreachable!(),
                },
                _ => unreachable!(),
            };
            if nanos < 1_000_000_000 {
                let val = Item::array(vec![Item::uint(secs), Item::uint(nanos)]);
                if was_must { MustOk(val) } else { May(val) }
            } else {
                // not a canonical Duration encoding: a decoder may normalise (carry into the seconds) or refuse
                let carry = nanos / 1_000_000_000;
                match secs.checked_add(carry) {
                    Some(s) => May(Item::array(vec![Item::uint(s), Item::uint(nanos % 1_000_000_000)])),
                    None => MustErr,
                }
            }
        }
        Shape::SystemTime => {
            // Duration since the epoch; the platform range (i64 seconds) limits what can be represented
            match decode_ref(&Shape::Duration, item) {
                MustErr => MustErr,
                MustOk(v) | May(v) if !systime_fits(&v) => {
                    let _ = v;
                    MustErr
                }
                o => o,
            }
        }
        Shape::Bound(t) => match item {
            Item::Array(v, l) if v.len() == 2 => {
                let r = match &v[0] {
                    Item::Uint(n @ (0 | 1), _) => combine(vec![decode_ref(t, &v[1])], |mut x| Item::array(vec![Item::uint(*n), x.remove(0)])),
                    Item::Uint(2, _) => {
                        let val = Item::array(vec![Item::uint(2), Item::array(vec![])]);
                        if matches!(&v[1], Item::Array(e, Len::Def(_)) if e.is_empty()) {
                            MustOk(val)
                        } else {
                            May(val)
                        }
                    }
                    _ => return MustErr,
                };
                match l {
                    Len::Def(_) => r,
                    Len::Indef => r.weaken(),
                }
            }
            _ => MustErr,
        },
        Shape::Tagged(n, t) => match item {
            Item::Tag(tag, _, inner) if tag == n => combine(vec![decode_ref(t, inner)], |mut x| Item::tag(*n, x.remove(0))),
            _ => MustErr,
        },
        Shape::ByteChunks => match item {
            Item::Bytes(d, f) => MustOk(chunk_list(d, f, false)),
            _ => MustErr,
        },
        Shape::TextChunks => match item {
            Item::Text(d, f) => {
                if item.utf8_ok() {
                    MustOk(chunk_list(d, f, true))
                } else {
                    MustErr
                }
            }
            _ => MustErr,
        },
    }
}

fn systime_fits(v: &Item) -> bool {
    match v {
        Item::Array(f, _) => match &f[0] {
            Item::Uint(s, _) => *s <= i64::MAX as u64,
            _ => false,
        },
        _ => false,
    }
}

/// The chunks an iterator over a string yields: one chunk for a definite string
/// (none if it is empty), the chunks in order for an indefinite one.
fn chunk_list(d: &[u8], f: &StrForm, text: bool) -> Item {
    let mk = |b: &[u8]| if text { Item::Text(b.to_vec(), StrForm::Def(W::min_for(b.len() as u64))) } else { Item::bytes(b) };
    match f {
        StrForm::Def(_) => {
            if d.is_empty() {
                Item::array(vec![])
            } else {
                Item::array(vec![mk(d)])
            }
        }
        StrForm::Indef(c) => {
            let mut o = 0;
            let mut v = Vec::new();
            for (n, _) in c {
                v.push(mk(&d[o..o + n]));
                o += n;
            }
            Item::array(v)
        }
    }
}

/// Last duplicate key wins, then sort by encoded key.
pub fn canon_map(m: Item) -> Item {
    match m {
        Item::Map(v, _) => {
            let mut out: Vec<(Item, Item)> = Vec::new();
            for (k, x) in v {
                if let Some(p) = out.iter_mut().find(|(k2, _)| *k2 == k) {
                    p.1 = x;
                } else {
                    out.push((k, x));
                }
            }
            out.sort_by_key(|(k, _)| k.to_bytes());
            Item::map(out)
        }
        o => o,
    }
}

/// Sort the elements of an array item by their encoding (multiset canonical form).
pub fn canon_bag(a: Item) -> Item {
    match a {
        Item::Array(mut v, _) => {
            sort_items(&mut v);
            Item::array(v)
        }
        o => o,
    }
}

/// Model equality: floats that are NaN at the same width are equal whatever their payload
/// (a change of width is not required to preserve NaN payloads).
pub fn model_eq(a: &Item, b: &Item) -> bool {
    match (a, b) {
        (Item::Float(x, FW::F32), Item::Float(y, FW::F32)) => x == y || (f32_is_nan(*x as u32) && f32_is_nan(*y as u32)),
        (Item::Float(x, FW::F64), Item::Float(y, FW::F64)) => x == y || (f64_is_nan(*x) && f64_is_nan(*y)),
        (Item::Array(x, lx), Item::Array(y, ly)) => lx == ly && x.len() == y.len() && x.iter().zip(y).all(|(p, q)| model_eq(p, q)),
        (Item::Map(x, lx), Item::Map(y, ly)) => lx == ly && x.len() == y.len() && x.iter().zip(y).all(|(p, q)| model_eq(&p.0, &q.0) && model_eq(&p.1, &q.1)),
        (Item::Tag(t, w, x), Item::Tag(u, v, y)) => t == u && w == v && model_eq(x, y),
        _ => a == b,
    }
}

/// Shape-directed canonical form of a model value: unordered collections are sorted
/// (sets deduplicated, maps last-wins), everything else is kept.
pub fn canon(shape: &Shape, item: &Item) -> Item {
    match (shape, item) {
        (Shape::Seq(t), Item::Array(v, _)) | (Shape::FixedArray(t, _), Item::Array(v, _)) => Item::array(v.iter().map(|x| canon(t, x)).collect()),
        (Shape::Bag(t), Item::Array(v, _)) => canon_bag(Item::array(v.iter().map(|x| canon(t, x)).collect())),
        (Shape::Set(t), Item::Array(v, _)) => {
            let mut x: Vec<Item> = v.iter().map(|x| canon(t, x)).collect();
            sort_items(&mut x);
            x.dedup();
            Item::array(x)
        }
        (Shape::Map(k, x), Item::Map(v, _)) => canon_map(Item::map(v.iter().map(|(a, b)| (canon(k, a), canon(x, b))).collect())),
        (Shape::Pairs(k, x), Item::Map(v, _)) => Item::map(v.iter().map(|(a, b)| (canon(k, a), canon(x, b))).collect()),
        (Shape::Option(_), Item::Simple(22)) => NULL,
        (Shape::Option(t), i) => canon(t, i),
        (Shape::Result(t, e), Item::Array(v, _)) if v.len() == 2 => match &v[0] {
            Item::Uint(0, _) => Item::array(vec![Item::uint(0), canon(t, &v[1])]),
            Item::Uint(1, _) => Item::array(vec![Item::uint(1), canon(e, &v[1])]),
            _ => item.clone(),
        },
        (Shape::Enum(vs), Item::Array(v, _)) if v.len() == 2 => match &v[0] {
            Item::Uint(n, _) if (*n as usize) < vs.len() => Item::array(vec![Item::uint(*n), canon(&vs[*n as usize], &v[1])]),
            _ => item.clone(),
        },
        (Shape::Tuple(ss), Item::Array(v, _)) | (Shape::Fields(ss), Item::Array(v, _)) if v.len() == ss.len() => Item::array(v.iter().zip(ss).map(|(x, s)| canon(s, x)).collect()),
        (Shape::Bound(t), Item::Array(v, _)) if v.len() == 2 => match &v[0] {
            Item::Uint(n @ (0 | 1), _) => Item::array(vec![Item::uint(*n), canon(t, &v[1])]),
            _ => item.clone(),
        },
        (Shape::Tagged(n, t), Item::Tag(m, _, inner)) if n == m => Item::tag(*n, canon(t, inner)),
        _ => item.clone(),
    }
}
