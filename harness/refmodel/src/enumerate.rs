//! Deterministic enumerators: item trees by node count, encoding deviations
//! (head widths, indefinite framing, chunking), byte strings, hostile heads and
//! the 64-bit boundary lattice.

use crate::item::*;
use std::collections::HashSet;

/// Alphabet for tree enumeration.
#[derive(Clone)]
pub struct Alphabet {
    pub leaves: Vec<Item>,
    /// chunk payloads available for indefinite byte strings
    pub byte_chunks: Vec<Vec<u8>>,
    /// chunk payloads available for indefinite text strings
    pub text_chunks: Vec<Vec<u8>>,
    pub tags: Vec<u64>,
    pub arrays: bool,
    pub maps: bool,
    pub indefinite: bool,
}

impl Alphabet {
    /// The general-purpose alphabet: one leaf per major kind and per float width.
    pub fn full() -> Self {
        Alphabet {
            leaves: vec![
                Item::uint(0),
                Item::uint(24),
                Item::nint(0),
                Item::bytes(&[1]),
                Item::text("a"),
                Item::text(""),
                // well-formed CBOR whose text is not valid UTF-8
                Item::Text(vec![0xff], StrForm::Def(W::Imm)),
                NULL,
                TRUE,
                Item::Simple(32),
                Item::f16(0x3e00),
                Item::f32(1.5f32.to_bits()),
                Item::f64(1.5f64.to_bits()),
            ],
            byte_chunks: vec![vec![], vec![2]],
            // c3 / a9: a two-byte character split over two chunks (each chunk is invalid on its own)
            text_chunks: vec![vec![], vec![b'b'], vec![0xc3], vec![0xa9]],
            tags: vec![1],
            arrays: true,
            maps: true,
            indefinite: true,
        }
    }

    /// A reduced alphabet for larger trees (one leaf per shape that decoders distinguish).
    pub fn medium() -> Self {
        Alphabet {
            leaves: vec![Item::uint(0), Item::uint(24), Item::nint(0), Item::bytes(&[1]), Item::text("a"), Item::Text(vec![0xc3], StrForm::Def(W::Imm)), NULL, Item::f16(0x3e00)],
            byte_chunks: vec![vec![2]],
            text_chunks: vec![vec![b'b'], vec![0xa9]],
            tags: vec![1],
            arrays: true,
            maps: true,
            indefinite: true,
        }
    }

    /// Every *form* a leaf head can take (all argument widths of integers and string lengths, one- and
    /// two-byte simple values, the three float widths): each of these is a separate arm in a decoder
    /// that walks over items. Meant for small trees (<= 4 nodes).
    pub fn leaf_forms() -> Self {
        let mut leaves = Vec::new();
        for w in ALL_W {
            leaves.push(Item::Uint(0, w));
            leaves.push(Item::Nint(0, w));
            leaves.push(Item::Bytes(vec![1], StrForm::Def(w)));
            leaves.push(Item::Text(vec![b'a'], StrForm::Def(w)));
        }
        leaves.push(Item::uint(23));
        leaves.push(Item::uint(24));
        leaves.push(Item::nint(23));
        leaves.push(Item::nint(24));
        // the extremes of the integer range: only data::Int can hold the negative ones
        leaves.push(Item::uint(u64::MAX));
        leaves.push(Item::nint(u64::MAX));
        leaves.push(Item::nint(1 << 63));
        leaves.push(Item::bytes(&[]));
        leaves.push(Item::bytes(&[7; 24]));
        leaves.push(Item::text(""));
        for s in [0u8, 19, 20, 21, 22, 23, 32, 255] {
            leaves.push(Item::Simple(s));
        }
        leaves.push(Item::f16(0x3e00));
        leaves.push(Item::f32(1.5f32.to_bits()));
        leaves.push(Item::f64(1.5f64.to_bits()));
        Alphabet { leaves, byte_chunks: vec![vec![2]], text_chunks: vec![vec![b'b']], tags: vec![1], arrays: true, maps: true, indefinite: true }
    }

    /// Structural alphabet: only what influences item boundaries.
    pub fn structural() -> Self {
        Alphabet {
            leaves: vec![Item::uint(0), Item::uint(24), Item::f16(0), Item::bytes(&[1]), Item::text("")],
            byte_chunks: vec![vec![2]],
            text_chunks: vec![vec![b'b']],
            tags: vec![1],
            arrays: true,
            maps: true,
            indefinite: true,
        }
    }
}

/// All item trees with exactly `n` nodes for every `n` in `0..=max` (index = node count).
/// Trees are in preferred form except for the definite/indefinite choice.
pub fn trees_by_size(max: usize, a: &Alphabet) -> Vec<Vec<Item>> {
    // seqs[m] = all sequences of trees with total size m
    // pairs[m] = all map-entry sequences with total size m
    let mut trees: Vec<Vec<Item>> = vec![vec![]; max + 1];
    let mut seqs: Vec<Vec<Vec<Item>>> = vec![vec![]; max + 1];
    let mut mseqs: Vec<Vec<Vec<(Item, Item)>>> = vec![vec![]; max + 1];
    seqs[0].push(vec![]);
    mseqs[0].push(vec![]);
    // chunk sequences by count
    fn chunk_seqs(k: usize, chunks: &[Vec<u8>]) -> Vec<Vec<Vec<u8>>> {
        if k == 0 {
            return vec![vec![]];
        }
        let mut out = Vec::new();
        for rest in chunk_seqs(k - 1, chunks) {
            for c in chunks {
                let mut v = vec![c.clone()];
                v.extend(rest.iter().cloned());
                out.push(v);
            }
        }
        out
    }
    for n in 1..=max {
        let mut t = Vec::new();
        if n == 1 {
            t.extend(a.leaves.iter().cloned());
        }
        if a.arrays {
            for s in &seqs[n - 1] {
                t.push(Item::array(s.clone()));
                if a.indefinite {
                    t.push(Item::Array(s.clone(), Len::Indef));
                }
            }
        }
        if a.maps {
            for s in &mseqs[n - 1] {
                t.push(Item::map(s.clone()));
                if a.indefinite {
                    t.push(Item::Map(s.clone(), Len::Indef));
                }
            }
        }
        if n >= 2 {
            for tag in &a.tags {
                for inner in &trees[n - 1] {
                    t.push(Item::tag(*tag, inner.clone()));
                }
            }
        }
        if a.indefinite {
            // indefinite strings with n-1 chunks
            let k = n - 1;
            if k <= 3 {
                for (is_text, chunks) in [(false, &a.byte_chunks), (true, &a.text_chunks)] {
                    if chunks.is_empty() {
                        continue;
                    }
                    for cs in chunk_seqs(k, chunks) {
                        let data: Vec<u8> = cs.iter().flatten().copied().collect();
                        let form = StrForm::Indef(cs.iter().map(|c| (c.len(), W::min_for(c.len() as u64))).collect());
                        t.push(if is_text { Item::Text(data, form) } else { Item::Bytes(data, form) });
                    }
                }
            }
        }
        trees[n] = t;
        // extend sequences of total size n (needed for containers of size n+1)
        if n < max {
            let mut s = Vec::new();
            for first in 1..=n {
                for x in &trees[first] {
                    for rest in &seqs[n - first] {
                        let mut v = Vec::with_capacity(1 + rest.len());
                        v.push(x.clone());
                        v.extend(rest.iter().cloned());
                        s.push(v);
                    }
                }
            }
            seqs[n] = s;
            let mut ms = Vec::new();
            for ksz in 1..n {
                for vsz in 1..=(n - ksz) {
                    for k in &trees[ksz] {
                        for v in &trees[vsz] {
                            for rest in &mseqs[n - ksz - vsz] {
                                let mut e = Vec::with_capacity(1 + rest.len());
                                e.push((k.clone(), v.clone()));
                                e.extend(rest.iter().cloned());
                                ms.push(e);
                            }
                        }
                    }
                }
            }
            mseqs[n] = ms;
        }
    }
    trees
}

/// All trees with at most `max` nodes, smallest first.
pub fn trees_up_to(max: usize, a: &Alphabet) -> Vec<Item> {
    trees_by_size(max, a).into_iter().flatten().collect()
}

/// Every variant of `item` with exactly one encoding deviation applied somewhere:
/// one head at a wider width, one definite array/map made indefinite, or one
/// definite string split into an indefinite string with 1..=3 chunks
/// (all compositions, plus an empty leading/trailing chunk form).
pub fn deviations(item: &Item, widths: bool, framing: bool) -> Vec<Item> {
    deviations_ex(item, widths, framing, framing)
}

/// Like `deviations` with separate switches for indefinite containers and chunked strings.
pub fn deviations_ex(item: &Item, widths: bool, containers: bool, chunks: bool) -> Vec<Item> {
    let framing = containers;
    let mut out = Vec::new();
    let wider = |n: u64, w: W| -> Vec<W> {
        if !widths {
            return vec![];
        }
        W::admissible(n).iter().copied().filter(|x| *x > w).collect()
    };
    fn splits(len: usize) -> Vec<Vec<usize>> {
        // compositions of len into 1..=3 parts (parts >= 1), plus forms with an empty chunk
        let mut v = Vec::new();
        if len == 0 {
            v.push(vec![]);
            v.push(vec![0]);
            return v;
        }
        v.push(vec![len]);
        for a in 1..len {
            v.push(vec![a, len - a]);
            for b in 1..(len - a) {
                v.push(vec![a, b, len - a - b]);
            }
        }
        v.push(vec![0, len]);
        v.push(vec![len, 0]);
        v
    }
    match item {
        Item::Uint(n, w) => {
            for x in wider(*n, *w) {
                out.push(Item::Uint(*n, x))
            }
        }
        Item::Nint(n, w) => {
            for x in wider(*n, *w) {
                out.push(Item::Nint(*n, x))
            }
        }
        Item::Bytes(d, f) | Item::Text(d, f) => {
            let is_text = matches!(item, Item::Text(..));
            let mk = |f: StrForm| if is_text { Item::Text(d.clone(), f) } else { Item::Bytes(d.clone(), f) };
            match f {
                StrForm::Def(w) => {
                    for x in wider(d.len() as u64, *w) {
                        out.push(mk(StrForm::Def(x)))
                    }
                    if chunks {
                        for sp in splits(d.len()) {
                            if is_text {
                                // only split at char boundaries so that the value stays valid text
                                let mut o = 0;
                                let mut ok = true;
                                for n in &sp {
                                    if core::str::from_utf8(&d[o..o + n]).is_err() {
                                        ok = false;
                                        break;
                                    }
                                    o += n;
                                }
                                if !ok {
                                    continue;
                                }
                            }
                            out.push(mk(StrForm::Indef(sp.iter().map(|n| (*n, W::min_for(*n as u64))).collect())))
                        }
                    }
                }
                StrForm::Indef(chunks) => {
                    for (i, (n, w)) in chunks.iter().enumerate() {
                        for x in wider(*n as u64, *w) {
                            let mut c = chunks.clone();
                            c[i].1 = x;
                            out.push(mk(StrForm::Indef(c)))
                        }
                    }
                }
            }
        }
        Item::Array(v, l) => {
            if let Len::Def(w) = l {
                for x in wider(v.len() as u64, *w) {
                    out.push(Item::Array(v.clone(), Len::Def(x)))
                }
                if framing {
                    out.push(Item::Array(v.clone(), Len::Indef))
                }
            }
            for i in 0..v.len() {
                for c in deviations_ex(&v[i], widths, containers, chunks) {
                    let mut v2 = v.clone();
                    v2[i] = c;
                    out.push(Item::Array(v2, *l))
                }
            }
        }
        Item::Map(v, l) => {
            if let Len::Def(w) = l {
                for x in wider(v.len() as u64, *w) {
                    out.push(Item::Map(v.clone(), Len::Def(x)))
                }
                if framing {
                    out.push(Item::Map(v.clone(), Len::Indef))
                }
            }
            for i in 0..v.len() {
                for c in deviations_ex(&v[i].0, widths, containers, chunks) {
                    let mut v2 = v.clone();
                    v2[i].0 = c;
                    out.push(Item::Map(v2, *l))
                }
                for c in deviations_ex(&v[i].1, widths, containers, chunks) {
                    let mut v2 = v.clone();
                    v2[i].1 = c;
                    out.push(Item::Map(v2, *l))
                }
            }
        }
        Item::Tag(t, w, i) => {
            for x in wider(*t, *w) {
                out.push(Item::Tag(*t, x, i.clone()))
            }
            for c in deviations_ex(i, widths, containers, chunks) {
                out.push(Item::Tag(*t, *w, Box::new(c)))
            }
        }
        Item::Simple(_) | Item::Float(..) => {}
    }
    out
}

/// All variants with at most `k` deviations (including the item itself), deduplicated,
/// in order of increasing deviation count.
pub fn deviations_up_to(item: &Item, k: usize, widths: bool, framing: bool) -> Vec<Item> {
    deviations_up_to_ex(item, k, widths, framing, framing)
}

pub fn deviations_up_to_ex(item: &Item, k: usize, widths: bool, containers: bool, chunks: bool) -> Vec<Item> {
    let mut seen: HashSet<Item> = HashSet::new();
    let mut out = vec![item.clone()];
    seen.insert(item.clone());
    let mut frontier = vec![item.clone()];
    for _ in 0..k {
        let mut next = Vec::new();
        for f in &frontier {
            for d in deviations_ex(f, widths, containers, chunks) {
                if seen.insert(d.clone()) {
                    out.push(d.clone());
                    next.push(d);
                }
            }
        }
        frontier = next;
    }
    out
}

/// Every assignment of admissible head widths to every head of `item` (framing unchanged).
pub fn all_width_assignments(item: &Item) -> Vec<Item> {
    fn cross(lists: Vec<Vec<Item>>) -> Vec<Vec<Item>> {
        let mut acc: Vec<Vec<Item>> = vec![vec![]];
        for l in lists {
            let mut n = Vec::with_capacity(acc.len() * l.len());
            for a in &acc {
                for x in &l {
                    let mut v = a.clone();
                    v.push(x.clone());
                    n.push(v);
                }
            }
            acc = n;
        }
        acc
    }
    match item {
        Item::Uint(n, _) => W::admissible(*n).iter().map(|w| Item::Uint(*n, *w)).collect(),
        Item::Nint(n, _) => W::admissible(*n).iter().map(|w| Item::Nint(*n, *w)).collect(),
        Item::Bytes(d, f) | Item::Text(d, f) => {
            let is_text = matches!(item, Item::Text(..));
            let mk = |f: StrForm| if is_text { Item::Text(d.clone(), f) } else { Item::Bytes(d.clone(), f) };
            match f {
                StrForm::Def(_) => W::admissible(d.len() as u64).iter().map(|w| mk(StrForm::Def(*w))).collect(),
                StrForm::Indef(chunks) => {
                    let mut acc: Vec<Vec<(usize, W)>> = vec![vec![]];
                    for (n, _) in chunks {
                        let mut nx = Vec::new();
                        for a in &acc {
                            for w in W::admissible(*n as u64) {
                                let mut v = a.clone();
                                v.push((*n, *w));
                                nx.push(v);
                            }
                        }
                        acc = nx;
                    }
                    acc.into_iter().map(|c| mk(StrForm::Indef(c))).collect()
                }
            }
        }
        Item::Array(v, l) => {
            let kids = cross(v.iter().map(all_width_assignments).collect());
            let lens: Vec<Len> = match l {
                Len::Def(_) => W::admissible(v.len() as u64).iter().map(|w| Len::Def(*w)).collect(),
                Len::Indef => vec![Len::Indef],
            };
            let mut out = Vec::new();
            for l in lens {
                for k in &kids {
                    out.push(Item::Array(k.clone(), l))
                }
            }
            out
        }
        Item::Map(v, l) => {
            let flat: Vec<Vec<Item>> = v.iter().flat_map(|(k, x)| [all_width_assignments(k), all_width_assignments(x)]).collect();
            let kids = cross(flat);
            let lens: Vec<Len> = match l {
                Len::Def(_) => W::admissible(v.len() as u64).iter().map(|w| Len::Def(*w)).collect(),
                Len::Indef => vec![Len::Indef],
            };
            let mut out = Vec::new();
            for l in lens {
                for k in &kids {
                    let entries: Vec<(Item, Item)> = k.chunks(2).map(|c| (c[0].clone(), c[1].clone())).collect();
                    out.push(Item::Map(entries, l))
                }
            }
            out
        }
        Item::Tag(t, _, i) => {
            let mut out = Vec::new();
            for w in W::admissible(*t) {
                for k in all_width_assignments(i) {
                    out.push(Item::Tag(*t, *w, Box::new(k)))
                }
            }
            out
        }
        Item::Simple(_) | Item::Float(..) => vec![item.clone()],
    }
}

/// Call `f` with every byte string of length exactly `n` (lexicographic order),
/// restricted to those whose first byte is in `first` (for sharding).
pub fn for_each_bytes(n: usize, first: core::ops::Range<usize>, mut f: impl FnMut(&[u8])) {
    if n == 0 {
        if first.start == 0 {
            f(&[]);
        }
        return;
    }
    let mut buf = vec![0u8; n];
    for b0 in first {
        buf[0] = b0 as u8;
        for x in buf[1..].iter_mut() {
            *x = 0;
        }
        'outer: loop {
            f(&buf);
            // increment the tail
            let mut i = n;
            loop {
                if i == 1 {
                    break 'outer;
                }
                i -= 1;
                if buf[i] == 0xff {
                    buf[i] = 0;
                } else {
                    buf[i] += 1;
                    break;
                }
            }
        }
    }
}

/// The 64-bit boundary lattice: 2^k and 2^k +- 1..3 for every k, plus 0 and u64::MAX. Sorted, unique.
pub fn lattice64() -> Vec<u64> {
    let mut v = vec![0u64, u64::MAX];
    for k in 0..=64u32 {
        let p: u128 = 1u128 << k;
        for d in -3i128..=3 {
            let x = p as i128 + d;
            if x >= 0 && x <= u64::MAX as i128 {
                v.push(x as u64);
            }
        }
    }
    v.sort_unstable();
    v.dedup();
    v
}

/// Signed lattice: the i128 values n and -1-n for n in lattice64 (i.e. the whole CBOR integer range boundaries).
pub fn lattice_int() -> Vec<i128> {
    let mut v = Vec::new();
    for n in lattice64() {
        v.push(n as i128);
        v.push(-1 - n as i128);
    }
    v.sort_unstable();
    v.dedup();
    v
}

/// Hostile heads: every initial byte with every argument width it selects, with boundary
/// arguments (including "bytes remaining +- 1"), followed by short fillers.
pub fn hostile_heads() -> Vec<Vec<u8>> {
    let args: [u64; 15] = [
        0, 1, 23, 24, 255, 256, 65535, 65536,
        0x7fff_ffff, 0x8000_0000, 0xffff_ffff, 0x1_0000_0000,
        0x7fff_ffff_ffff_ffff, 0x8000_0000_0000_0000, u64::MAX,
    ];
    let fillers: [&[u8]; 9] = [&[], &[0x00], &[0x61], &[0xff], &[0x00, 0x00], &[0x01, 0xff], &[0x61, 0x61], &[0xff, 0xff], &[0x00, 0x01, 0x02]];
    let mut out = Vec::new();
    let mut seen = HashSet::new();
    for ib in 0u16..=255 {
        let ib = ib as u8;
        let ai = ib & 31;
        let width = match ai {
            24 => 1,
            25 => 2,
            26 => 4,
            27 => 8,
            _ => 0,
        };
        for fill in fillers {
            let mut cand: Vec<u64> = args.to_vec();
            let r = fill.len() as u64;
            cand.extend([r.wrapping_sub(1), r, r + 1]);
            if width == 0 {
                cand = vec![0];
            }
            for a in cand {
                let mut v = vec![ib];
                match width {
                    0 => {}
                    1 => v.push(a as u8),
                    2 => v.extend_from_slice(&(a as u16).to_be_bytes()),
                    4 => v.extend_from_slice(&(a as u32).to_be_bytes()),
                    _ => v.extend_from_slice(&a.to_be_bytes()),
                }
                v.extend_from_slice(fill);
                if seen.insert(v.clone()) {
                    out.push(v);
                }
            }
        }
    }
    out
}

#[cfg(test)]
mod tests {
    use super::*;

    #[test]
    fn trees_are_wellformed_and_roundtrip() {
        let a = Alphabet::full();
        let t = trees_by_size(3, &a);
        let mut n = 0;
        for (sz, l) in t.iter().enumerate() {
            for i in l {
                assert_eq!(i.nodes(), sz, "{:?}", i);
                let b = i.to_bytes();
                let (p, used) = parse(&b).unwrap();
                assert_eq!(used, b.len());
                assert_eq!(&p, i);
                n += 1;
            }
        }
        assert!(n > 1000);
    }

    #[test]
    fn deviations_keep_value() {
        let a = Alphabet::medium();
        for i in trees_up_to(3, &a) {
            for d in deviations_up_to(&i, 2, true, true) {
                assert!(d.same_value(&i));
                let b = d.to_bytes();
                let (p, used) = parse(&b).unwrap();
                assert_eq!(used, b.len());
                assert_eq!(p, d);
            }
            for d in all_width_assignments(&i) {
                assert!(d.same_value(&i));
            }
        }
    }

    #[test]
    fn prefixes_are_end_of_input() {
        for i in trees_up_to(3, &Alphabet::full()) {
            let b = i.to_bytes();
            for k in 0..b.len() {
                assert_eq!(parse(&b[..k]).err(), Some(ParseErr::EndOfInput));
            }
        }
    }

    #[test]
    fn bytes_count() {
        let mut n = 0u64;
        for_each_bytes(2, 0..256, |_| n += 1);
        assert_eq!(n, 65536);
        let mut n = 0u64;
        for_each_bytes(0, 0..256, |_| n += 1);
        assert_eq!(n, 1);
    }
}

/// Near-miss shapes of an item: every variant in which exactly one string is one byte longer or
/// shorter, one array has one element more (a copy of its last element, or 0) or fewer, one map has
/// one entry more or fewer, one integer crosses to the other major type, or one tag number is
/// bumped. The result is well-formed; whether a target type must accept it is decided by the
/// reference relation.
pub fn near_misses(item: &Item) -> Vec<Item> {
    let mut out = Vec::new();
    match item {
        Item::Uint(n, _) => {
            out.push(Item::nint(*n));
            out.push(Item::uint(n.wrapping_add(1)));
        }
        Item::Nint(n, _) => out.push(Item::uint(*n)),
        Item::Bytes(d, StrForm::Def(_)) => {
            let mut l = d.clone();
            l.push(0);
            out.push(Item::bytes(&l));
            if !d.is_empty() {
                out.push(Item::bytes(&d[..d.len() - 1]));
            }
            out.push(Item::Text(d.clone(), StrForm::Def(W::min_for(d.len() as u64))));
        }
        Item::Text(d, StrForm::Def(_)) => {
            let mut l = d.clone();
            l.push(b'z');
            out.push(Item::Text(l, StrForm::Def(W::min_for(d.len() as u64 + 1))));
            if !d.is_empty() && core::str::from_utf8(&d[..d.len() - 1]).is_ok() {
                out.push(Item::Text(d[..d.len() - 1].to_vec(), StrForm::Def(W::min_for(d.len() as u64 - 1))));
            }
            out.push(Item::bytes(d));
        }
        Item::Array(v, _) => {
            let mut more = v.clone();
            more.push(v.last().cloned().unwrap_or(Item::uint(0)));
            out.push(Item::array(more));
            let mut more0 = v.clone();
            more0.push(NULL);
            out.push(Item::array(more0));
            if !v.is_empty() {
                out.push(Item::array(v[..v.len() - 1].to_vec()));
                out.push(Item::array(v[1..].to_vec()));
            }
            out.push(Item::map(v.chunks(2).filter(|c| c.len() == 2).map(|c| (c[0].clone(), c[1].clone())).collect()));
            for i in 0..v.len() {
                for c in near_misses(&v[i]) {
                    let mut v2 = v.clone();
                    v2[i] = c;
                    out.push(Item::array(v2));
                }
            }
        }
        Item::Map(v, _) => {
            let mut more = v.clone();
            more.push(v.last().cloned().unwrap_or((Item::uint(0), Item::uint(0))));
            out.push(Item::map(more));
            if !v.is_empty() {
                out.push(Item::map(v[..v.len() - 1].to_vec()));
            }
            out.push(Item::array(v.iter().flat_map(|(k, x)| [k.clone(), x.clone()]).collect()));
            for i in 0..v.len() {
                for c in near_misses(&v[i].0) {
                    let mut v2 = v.clone();
                    v2[i].0 = c;
                    out.push(Item::map(v2));
                }
                for c in near_misses(&v[i].1) {
                    let mut v2 = v.clone();
                    v2[i].1 = c;
                    out.push(Item::map(v2));
                }
            }
        }
        Item::Tag(t, _, inner) => {
            out.push(Item::tag(t.wrapping_add(1), (**inner).clone()));
            out.push((**inner).clone());
            for c in near_misses(inner) {
                out.push(Item::tag(*t, c));
            }
        }
        Item::Simple(s) => {
            if *s == 22 {
                out.push(UNDEFINED);
            }
            if *s == 20 || *s == 21 {
                out.push(Item::uint((*s - 20) as u64));
            }
        }
        Item::Float(b, FW::F32) => out.push(Item::f64(crate::float::f32_to_f64(*b as u32))),
        Item::Float(b, FW::F64) => out.push(Item::uint(*b & 0xff)),
        _ => {}
    }
    out
}
