//! RFC 8949 data items annotated with their encoding detail, an encoder that
//! honours the annotations and a parser transcribed from RFC 8949 Appendix C.
//!
//! Nothing in this crate depends on minicbor.

/// Width of the argument in a head.
#[derive(Debug, Clone, Copy, PartialEq, Eq, Hash, PartialOrd, Ord)]
pub enum W {
    /// argument 0..=23 in the initial byte
    Imm,
    W1,
    W2,
    W4,
    W8,
}

pub const ALL_W: [W; 5] = [W::Imm, W::W1, W::W2, W::W4, W::W8];

impl W {
    /// The shortest width that can hold `n`.
    pub fn min_for(n: u64) -> W {
        if n < 24 {
            W::Imm
        } else if n <= 0xff {
            W::W1
        } else if n <= 0xffff {
            W::W2
        } else if n <= 0xffff_ffff {
            W::W4
        } else {
            W::W8
        }
    }

    /// Can this width hold `n`?
    pub fn holds(self, n: u64) -> bool {
        self >= W::min_for(n)
    }

    /// All widths which can hold `n`, shortest first.
    pub fn admissible(n: u64) -> &'static [W] {
        match W::min_for(n) {
            W::Imm => &ALL_W[0..],
            W::W1 => &ALL_W[1..],
            W::W2 => &ALL_W[2..],
            W::W4 => &ALL_W[3..],
            W::W8 => &ALL_W[4..],
        }
    }

    /// Number of bytes following the initial byte.
    pub fn extra(self) -> usize {
        match self {
            W::Imm => 0,
            W::W1 => 1,
            W::W2 => 2,
            W::W4 => 4,
            W::W8 => 8,
        }
    }
}

/// Width of a floating point item.
#[derive(Debug, Clone, Copy, PartialEq, Eq, Hash, PartialOrd, Ord)]
pub enum FW {
    F16,
    F32,
    F64,
}

/// Framing of a byte or text string.
#[derive(Debug, Clone, PartialEq, Eq, Hash)]
pub enum StrForm {
    Def(W),
    /// Indefinite: the chunk lengths (summing to the data length) and each chunk's head width.
    Indef(Vec<(usize, W)>),
}

/// Framing of an array or map.
#[derive(Debug, Clone, Copy, PartialEq, Eq, Hash)]
pub enum Len {
    Def(W),
    Indef,
}

#[derive(Debug, Clone, PartialEq, Eq, Hash)]
pub enum Item {
    /// major type 0
    Uint(u64, W),
    /// major type 1; denotes -1 - n
    Nint(u64, W),
    Bytes(Vec<u8>, StrForm),
    /// data must be valid UTF-8 in every chunk for the item to be well-formed *and valid*;
    /// the parser accepts any bytes (well-formedness does not include UTF-8 validity).
    Text(Vec<u8>, StrForm),
    Array(Vec<Item>, Len),
    Map(Vec<(Item, Item)>, Len),
    Tag(u64, W, Box<Item>),
    /// simple value 0..=23 (one byte) or 32..=255 (two bytes). 20..=23 are false/true/null/undefined.
    Simple(u8),
    /// raw bits at the given width (low 16 / 32 / 64 bits are significant)
    Float(u64, FW),
}

pub const FALSE: Item = Item::Simple(20);
pub const TRUE: Item = Item::Simple(21);
pub const NULL: Item = Item::Simple(22);
pub const UNDEFINED: Item = Item::Simple(23);

impl Item {
    pub fn uint(n: u64) -> Item {
        Item::Uint(n, W::min_for(n))
    }
    pub fn nint(n: u64) -> Item {
        Item::Nint(n, W::min_for(n))
    }
    /// The integer item denoting `v` (must be within [-2^64, 2^64-1]).
    pub fn int(v: i128) -> Item {
        if v >= 0 {
            Item::uint(v as u64)
        } else {
            Item::nint((-1 - v) as u64)
        }
    }
    pub fn bytes(b: &[u8]) -> Item {
        Item::Bytes(b.to_vec(), StrForm::Def(W::min_for(b.len() as u64)))
    }
    pub fn text(s: &str) -> Item {
        Item::Text(s.as_bytes().to_vec(), StrForm::Def(W::min_for(s.len() as u64)))
    }
    pub fn array(v: Vec<Item>) -> Item {
        let w = W::min_for(v.len() as u64);
        Item::Array(v, Len::Def(w))
    }
    pub fn map(v: Vec<(Item, Item)>) -> Item {
        let w = W::min_for(v.len() as u64);
        Item::Map(v, Len::Def(w))
    }
    pub fn tag(t: u64, inner: Item) -> Item {
        Item::Tag(t, W::min_for(t), Box::new(inner))
    }
    pub fn bool(b: bool) -> Item {
        if b { TRUE } else { FALSE }
    }
    pub fn f16(bits: u16) -> Item {
        Item::Float(bits as u64, FW::F16)
    }
    pub fn f32(bits: u32) -> Item {
        Item::Float(bits as u64, FW::F32)
    }
    pub fn f64(bits: u64) -> Item {
        Item::Float(bits, FW::F64)
    }

    /// Number of nodes (heads) in this item; chunks of indefinite strings count as nodes.
    pub fn nodes(&self) -> usize {
        match self {
            Item::Bytes(_, StrForm::Indef(c)) | Item::Text(_, StrForm::Indef(c)) => 1 + c.len(),
            Item::Array(v, _) => 1 + v.iter().map(Item::nodes).sum::<usize>(),
            Item::Map(v, _) => 1 + v.iter().map(|(k, x)| k.nodes() + x.nodes()).sum::<usize>(),
            Item::Tag(_, _, i) => 1 + i.nodes(),
            _ => 1,
        }
    }

    /// The same data-model value in preferred serialisation: shortest heads, definite lengths.
    /// Floats keep their width.
    pub fn preferred(&self) -> Item {
        match self {
            Item::Uint(n, _) => Item::uint(*n),
            Item::Nint(n, _) => Item::nint(*n),
            Item::Bytes(b, _) => Item::bytes(b),
            Item::Text(b, _) => Item::Text(b.clone(), StrForm::Def(W::min_for(b.len() as u64))),
            Item::Array(v, _) => Item::array(v.iter().map(Item::preferred).collect()),
            Item::Map(v, _) => Item::map(v.iter().map(|(k, x)| (k.preferred(), x.preferred())).collect()),
            Item::Tag(t, _, i) => Item::tag(*t, i.preferred()),
            Item::Simple(s) => Item::Simple(*s),
            Item::Float(b, w) => Item::Float(*b, *w),
        }
    }

    /// The same item with every head at its shortest width; framing (definite / indefinite, chunking) is kept.
    pub fn shortest_heads(&self) -> Item {
        let sf = |d: &Vec<u8>, f: &StrForm| match f {
            StrForm::Def(_) => StrForm::Def(W::min_for(d.len() as u64)),
            StrForm::Indef(c) => StrForm::Indef(c.iter().map(|(n, _)| (*n, W::min_for(*n as u64))).collect()),
        };
        match self {
            Item::Uint(n, _) => Item::uint(*n),
            Item::Nint(n, _) => Item::nint(*n),
            Item::Bytes(d, f) => Item::Bytes(d.clone(), sf(d, f)),
            Item::Text(d, f) => Item::Text(d.clone(), sf(d, f)),
            Item::Array(v, l) => Item::Array(
                v.iter().map(Item::shortest_heads).collect(),
                match l {
                    Len::Def(_) => Len::Def(W::min_for(v.len() as u64)),
                    Len::Indef => Len::Indef,
                },
            ),
            Item::Map(v, l) => Item::Map(
                v.iter().map(|(k, x)| (k.shortest_heads(), x.shortest_heads())).collect(),
                match l {
                    Len::Def(_) => Len::Def(W::min_for(v.len() as u64)),
                    Len::Indef => Len::Indef,
                },
            ),
            Item::Tag(t, _, i) => Item::tag(*t, i.shortest_heads()),
            o => o.clone(),
        }
    }

    /// Is every head the shortest one and every container definite?
    pub fn is_preferred(&self) -> bool {
        *self == self.preferred()
    }

    /// Equality of the data-model value, ignoring head widths and framing (floats by width+bits).
    pub fn same_value(&self, other: &Item) -> bool {
        self.preferred() == other.preferred()
    }

    /// Are all text chunks valid UTF-8 (recursively)?
    pub fn utf8_ok(&self) -> bool {
        match self {
            Item::Text(b, StrForm::Def(_)) => core::str::from_utf8(b).is_ok(),
            Item::Text(b, StrForm::Indef(c)) => {
                let mut o = 0;
                for (n, _) in c {
                    if core::str::from_utf8(&b[o..o + n]).is_err() {
                        return false;
                    }
                    o += n;
                }
                true
            }
            Item::Array(v, _) => v.iter().all(Item::utf8_ok),
            Item::Map(v, _) => v.iter().all(|(k, x)| k.utf8_ok() && x.utf8_ok()),
            Item::Tag(_, _, i) => i.utf8_ok(),
            _ => true,
        }
    }

    /// Does the item contain an indefinite array/map nested (at any depth) inside a definite array/map?
    pub fn has_indef_in_def(&self) -> bool {
        fn go(i: &Item, inside_def: bool) -> bool {
            match i {
                Item::Array(v, l) => {
                    let indef = matches!(l, Len::Indef);
                    if indef && inside_def {
                        return true;
                    }
                    let d = inside_def || !indef;
                    v.iter().any(|x| go(x, d))
                }
                Item::Map(v, l) => {
                    let indef = matches!(l, Len::Indef);
                    if indef && inside_def {
                        return true;
                    }
                    let d = inside_def || !indef;
                    v.iter().any(|(k, x)| go(k, d) || go(x, d))
                }
                Item::Tag(_, _, i) => go(i, inside_def),
                _ => false,
            }
        }
        go(self, false)
    }

    pub fn to_bytes(&self) -> Vec<u8> {
        let mut v = Vec::new();
        encode(self, &mut v);
        v
    }
}

/// The preferred (shortest) head for `major` with argument `n`.
pub fn preferred_head(major: u8, n: u64) -> Vec<u8> {
    let mut v = Vec::new();
    head(major, n, W::min_for(n), &mut v);
    v
}

fn head(major: u8, n: u64, w: W, out: &mut Vec<u8>) {
    assert!(w.holds(n), "width {:?} cannot hold {}", w, n);
    let m = major << 5;
    match w {
        W::Imm => out.push(m | n as u8),
        W::W1 => {
            out.push(m | 24);
            out.push(n as u8)
        }
        W::W2 => {
            out.push(m | 25);
            out.extend_from_slice(&(n as u16).to_be_bytes())
        }
        W::W4 => {
            out.push(m | 26);
            out.extend_from_slice(&(n as u32).to_be_bytes())
        }
        W::W8 => {
            out.push(m | 27);
            out.extend_from_slice(&n.to_be_bytes())
        }
    }
}

fn enc_str(major: u8, data: &[u8], form: &StrForm, out: &mut Vec<u8>) {
    match form {
        StrForm::Def(w) => {
            head(major, data.len() as u64, *w, out);
            out.extend_from_slice(data)
        }
        StrForm::Indef(chunks) => {
            out.push((major << 5) | 31);
            let mut o = 0;
            for (n, w) in chunks {
                head(major, *n as u64, *w, out);
                out.extend_from_slice(&data[o..o + n]);
                o += n;
            }
            assert_eq!(o, data.len(), "chunk lengths must cover the data");
            out.push(0xff)
        }
    }
}

/// Encode honouring all annotations.
pub fn encode(item: &Item, out: &mut Vec<u8>) {
    match item {
        Item::Uint(n, w) => head(0, *n, *w, out),
        Item::Nint(n, w) => head(1, *n, *w, out),
        Item::Bytes(b, f) => enc_str(2, b, f, out),
        Item::Text(b, f) => enc_str(3, b, f, out),
        Item::Array(v, l) => {
            match l {
                Len::Def(w) => head(4, v.len() as u64, *w, out),
                Len::Indef => out.push(0x9f),
            }
            for x in v {
                encode(x, out)
            }
            if let Len::Indef = l {
                out.push(0xff)
            }
        }
        Item::Map(v, l) => {
            match l {
                Len::Def(w) => head(5, v.len() as u64, *w, out),
                Len::Indef => out.push(0xbf),
            }
            for (k, x) in v {
                encode(k, out);
                encode(x, out)
            }
            if let Len::Indef = l {
                out.push(0xff)
            }
        }
        Item::Tag(t, w, i) => {
            head(6, *t, *w, out);
            encode(i, out)
        }
        Item::Simple(s) => {
            assert!(*s < 24 || *s >= 32, "simple({}) has no well-formed encoding", s);
            if *s < 24 {
                out.push(0xe0 | *s)
            } else {
                out.push(0xf8);
                out.push(*s)
            }
        }
        Item::Float(b, FW::F16) => {
            out.push(0xf9);
            out.extend_from_slice(&(*b as u16).to_be_bytes())
        }
        Item::Float(b, FW::F32) => {
            out.push(0xfa);
            out.extend_from_slice(&(*b as u32).to_be_bytes())
        }
        Item::Float(b, FW::F64) => {
            out.push(0xfb);
            out.extend_from_slice(&b.to_be_bytes())
        }
    }
}

#[derive(Debug, Clone, Copy, PartialEq, Eq)]
pub enum ParseErr {
    /// the input ended inside an item that was well-formed so far
    EndOfInput,
    /// not well-formed CBOR (reserved additional information, break at a wrong place,
    /// two-byte simple value < 32, chunk of the wrong type or indefinite chunk)
    IllFormed,
}

struct P<'a> {
    b: &'a [u8],
    pos: usize,
    depth: usize,
}

const MAX_DEPTH: usize = 1000;

impl<'a> P<'a> {
    fn byte(&mut self) -> Result<u8, ParseErr> {
        let x = *self.b.get(self.pos).ok_or(ParseErr::EndOfInput)?;
        self.pos += 1;
        Ok(x)
    }
    fn take(&mut self, n: u64) -> Result<&'a [u8], ParseErr> {
        let rem = (self.b.len() - self.pos) as u64;
        if n > rem {
            return Err(ParseErr::EndOfInput);
        }
        let s = &self.b[self.pos..self.pos + n as usize];
        self.pos += n as usize;
        Ok(s)
    }
    /// argument for additional info 0..=27
    fn arg(&mut self, ai: u8) -> Result<(u64, W), ParseErr> {
        Ok(match ai {
            0..=23 => (ai as u64, W::Imm),
            24 => (self.byte()? as u64, W::W1),
            25 => {
                let s = self.take(2)?;
                (u16::from_be_bytes([s[0], s[1]]) as u64, W::W2)
            }
            26 => {
                let s = self.take(4)?;
                (u32::from_be_bytes([s[0], s[1], s[2], s[3]]) as u64, W::W4)
            }
            27 => {
                let s = self.take(8)?;
                let mut a = [0u8; 8];
                a.copy_from_slice(s);
                (u64::from_be_bytes(a), W::W8)
            }
            _ => return Err(ParseErr::IllFormed),
        })
    }

    fn string(&mut self, major: u8, ai: u8) -> Result<(Vec<u8>, StrForm), ParseErr> {
        if ai == 31 {
            let mut data = Vec::new();
            let mut chunks = Vec::new();
            loop {
                let ib = self.byte()?;
                if ib == 0xff {
                    break;
                }
                if ib >> 5 != major || ib & 31 >= 28 {
                    // wrong major type, reserved ai, or nested indefinite chunk
                    return Err(ParseErr::IllFormed);
                }
                let (n, w) = self.arg(ib & 31)?;
                let s = self.take(n)?;
                data.extend_from_slice(s);
                chunks.push((n as usize, w));
            }
            Ok((data, StrForm::Indef(chunks)))
        } else {
            let (n, w) = self.arg(ai)?;
            let s = self.take(n)?;
            Ok((s.to_vec(), StrForm::Def(w)))
        }
    }

    /// Parse one item; `Ok(None)` is a break (only returned when `breakable`).
    fn item(&mut self, breakable: bool) -> Result<Option<Item>, ParseErr> {
        if self.depth > MAX_DEPTH {
            // The reference parser is recursive; inputs this deep are outside its domain.
            panic!("refmodel::parse: nesting deeper than {}", MAX_DEPTH);
        }
        let ib = self.byte()?;
        let major = ib >> 5;
        let ai = ib & 31;
        if ai >= 28 && ai <= 30 {
            return Err(ParseErr::IllFormed);
        }
        self.depth += 1;
        let r = (|| -> Result<Option<Item>, ParseErr> {
            Ok(Some(match major {
                0 => {
                    if ai == 31 {
                        return Err(ParseErr::IllFormed);
                    }
                    let (n, w) = self.arg(ai)?;
                    Item::Uint(n, w)
                }
                1 => {
                    if ai == 31 {
                        return Err(ParseErr::IllFormed);
                    }
                    let (n, w) = self.arg(ai)?;
                    Item::Nint(n, w)
                }
                2 => {
                    let (d, f) = self.string(2, ai)?;
                    Item::Bytes(d, f)
                }
                3 => {
                    let (d, f) = self.string(3, ai)?;
                    Item::Text(d, f)
                }
                4 => {
                    if ai == 31 {
                        let mut v = Vec::new();
                        while let Some(x) = self.item(true)? {
                            v.push(x)
                        }
                        Item::Array(v, Len::Indef)
                    } else {
                        let (n, w) = self.arg(ai)?;
                        let mut v = Vec::new();
                        for _ in 0..n {
                            v.push(self.item(false)?.unwrap())
                        }
                        Item::Array(v, Len::Def(w))
                    }
                }
                5 => {
                    if ai == 31 {
                        let mut v = Vec::new();
                        while let Some(k) = self.item(true)? {
                            let x = self.item(false)?.unwrap();
                            v.push((k, x))
                        }
                        Item::Map(v, Len::Indef)
                    } else {
                        let (n, w) = self.arg(ai)?;
                        let mut v = Vec::new();
                        for _ in 0..n {
                            let k = self.item(false)?.unwrap();
                            let x = self.item(false)?.unwrap();
                            v.push((k, x))
                        }
                        Item::Map(v, Len::Def(w))
                    }
                }
                6 => {
                    if ai == 31 {
                        return Err(ParseErr::IllFormed);
                    }
                    let (t, w) = self.arg(ai)?;
                    let inner = self.item(false)?.unwrap();
                    Item::Tag(t, w, Box::new(inner))
                }
                _ => match ai {
                    0..=23 => Item::Simple(ai),
                    24 => {
                        let s = self.byte()?;
                        if s < 32 {
                            return Err(ParseErr::IllFormed);
                        }
                        Item::Simple(s)
                    }
                    25 => {
                        let (n, _) = self.arg(25)?;
                        Item::Float(n, FW::F16)
                    }
                    26 => {
                        let (n, _) = self.arg(26)?;
                        Item::Float(n, FW::F32)
                    }
                    27 => {
                        let (n, _) = self.arg(27)?;
                        Item::Float(n, FW::F64)
                    }
                    _ => {
                        // 31: break
                        if breakable {
                            return Ok(None);
                        }
                        return Err(ParseErr::IllFormed);
                    }
                },
            }))
        })();
        self.depth -= 1;
        r
    }
}

/// Parse exactly one well-formed data item from the front of `b`.
pub fn parse(b: &[u8]) -> Result<(Item, usize), ParseErr> {
    let mut p = P { b, pos: 0, depth: 0 };
    let i = p.item(false)?.unwrap();
    Ok((i, p.pos))
}

/// Parse a sequence of items covering all of `b`.
pub fn parse_seq(b: &[u8]) -> Result<Vec<Item>, ParseErr> {
    let mut p = P { b, pos: 0, depth: 0 };
    let mut v = Vec::new();
    while p.pos < b.len() {
        v.push(p.item(false)?.unwrap())
    }
    Ok(v)
}

pub fn hex(b: &[u8]) -> String {
    let mut s = String::with_capacity(b.len() * 2);
    for x in b {
        s.push_str(&format!("{:02x}", x));
    }
    s
}

pub fn unhex(s: &str) -> Vec<u8> {
    let s: Vec<u8> = s.bytes().filter(|c| !c.is_ascii_whitespace()).collect();
    s.chunks(2)
        .map(|c| u8::from_str_radix(core::str::from_utf8(c).unwrap(), 16).unwrap())
        .collect()
}

impl Item {
    /// Compact RFC 8949 diagnostic-style rendering with encoding indicators, for messages.
    pub fn diag(&self) -> String {
        fn wi(w: &W) -> &'static str {
            match w {
                W::Imm => "",
                W::W1 => "_0",
                W::W2 => "_1",
                W::W4 => "_2",
                W::W8 => "_3",
            }
        }
        fn pw(n: u64, w: &W) -> &'static str {
            if *w == W::min_for(n) { "" } else { wi(w) }
        }
        fn short(b: &[u8]) -> String {
            if b.len() > 12 {
                format!("{}..({}B)", hex(&b[..8]), b.len())
            } else {
                hex(b)
            }
        }
        match self {
            Item::Uint(n, w) => format!("{}{}", n, pw(*n, w)),
            Item::Nint(n, w) => format!("{}{}", -1 - *n as i128, pw(*n, w)),
            Item::Bytes(b, StrForm::Def(w)) => format!("h'{}'{}", short(b), pw(b.len() as u64, w)),
            Item::Text(b, StrForm::Def(w)) => format!("t'{}'{}", short(b), pw(b.len() as u64, w)),
            Item::Bytes(b, StrForm::Indef(c)) => format!("(_ h'{}' in {:?})", short(b), c.iter().map(|x| x.0).collect::<Vec<_>>()),
            Item::Text(b, StrForm::Indef(c)) => format!("(_ t'{}' in {:?})", short(b), c.iter().map(|x| x.0).collect::<Vec<_>>()),
            Item::Array(v, l) => {
                let inner: Vec<String> = v.iter().take(12).map(|x| x.diag()).collect();
                let more = if v.len() > 12 { format!(", ..{} items", v.len()) } else { String::new() };
                match l {
                    Len::Def(w) => format!("[{}{}]{}", inner.join(", "), more, pw(v.len() as u64, w)),
                    Len::Indef => format!("[_ {}{}]", inner.join(", "), more),
                }
            }
            Item::Map(v, l) => {
                let inner: Vec<String> = v.iter().take(12).map(|(k, x)| format!("{}: {}", k.diag(), x.diag())).collect();
                let more = if v.len() > 12 { format!(", ..{} entries", v.len()) } else { String::new() };
                match l {
                    Len::Def(w) => format!("{{{}{}}}{}", inner.join(", "), more, pw(v.len() as u64, w)),
                    Len::Indef => format!("{{_ {}{}}}", inner.join(", "), more),
                }
            }
            Item::Tag(t, w, i) => format!("{}{}({})", t, pw(*t, w), i.diag()),
            Item::Simple(20) => "false".into(),
            Item::Simple(21) => "true".into(),
            Item::Simple(22) => "null".into(),
            Item::Simple(23) => "undefined".into(),
            Item::Simple(s) => format!("simple({})", s),
            Item::Float(b, FW::F16) => format!("f16:{:04x}", b),
            Item::Float(b, FW::F32) => format!("f32:{:08x}", b),
            Item::Float(b, FW::F64) => format!("f64:{:016x}", b),
        }
    }
}
