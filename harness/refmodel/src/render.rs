//! Reference renderer of the diagnostic notation documented for `minicbor::display`
//! (minicbor/src/lib.rs and the `Display` impl of `Token`).

use crate::float::*;
use crate::item::*;

fn hex_spaced(b: &[u8]) -> String {
    let mut s = String::new();
    for (i, x) in b.iter().enumerate() {
        if i > 0 {
            s.push(' ');
        }
        s.push_str(&format!("{:02x}", x));
    }
    s
}

fn text(b: &[u8]) -> String {
    format!("\"{}\"", String::from_utf8_lossy(b))
}

/// Render one well-formed item (text must be valid UTF-8).
pub fn render(i: &Item) -> String {
    match i {
        Item::Uint(n, _) => format!("{}", n),
        Item::Nint(n, _) => format!("{}", -1 - *n as i128),
        Item::Bytes(b, StrForm::Def(_)) => format!("h'{}'", hex_spaced(b)),
        Item::Text(b, StrForm::Def(_)) => text(b),
        Item::Bytes(b, StrForm::Indef(c)) => {
            if c.is_empty() {
                return "''_".into();
            }
            let mut o = 0;
            let mut parts = Vec::new();
            for (n, _) in c {
                parts.push(format!("h'{}'", hex_spaced(&b[o..o + n])));
                o += n;
            }
            format!("(_ {})", parts.join(", "))
        }
        Item::Text(b, StrForm::Indef(c)) => {
            if c.is_empty() {
                return "\"\"_".into();
            }
            let mut o = 0;
            let mut parts = Vec::new();
            for (n, _) in c {
                parts.push(text(&b[o..o + n]));
                o += n;
            }
            format!("(_ {})", parts.join(", "))
        }
        Item::Array(v, Len::Def(_)) => format!("[{}]", v.iter().map(render).collect::<Vec<_>>().join(", ")),
        Item::Array(v, Len::Indef) => format!("[_ {}]", v.iter().map(render).collect::<Vec<_>>().join(", ")),
        Item::Map(v, Len::Def(_)) => format!("{{{}}}", v.iter().map(|(k, x)| format!("{}: {}", render(k), render(x))).collect::<Vec<_>>().join(", ")),
        Item::Map(v, Len::Indef) => format!("{{_ {}}}", v.iter().map(|(k, x)| format!("{}: {}", render(k), render(x))).collect::<Vec<_>>().join(", ")),
        Item::Tag(t, _, inner) => format!("{}({})", t, render(inner)),
        Item::Simple(20) => "false".into(),
        Item::Simple(21) => "true".into(),
        Item::Simple(22) => "null".into(),
        Item::Simple(23) => "undefined".into(),
        Item::Simple(s) => format!("simple({})", s),
        // floats are shown in scientific notation of their value (Rust's `{:e}`)
        Item::Float(b, FW::F16) => format!("{:e}", f32::from_bits(f16_to_f32(*b as u16))),
        Item::Float(b, FW::F32) => format!("{:e}", f32::from_bits(*b as u32)),
        Item::Float(b, FW::F64) => format!("{:e}", f64::from_bits(*b)),
    }
}
