//! Reference renderer of the diagnostic notation documented for `minicbor::display`
//! (minicbor/src/lib.rs and the `Display` impl of `Token`).

use crate::float::*;
use crate::item::*;

fn hex_spaced(b: &[u8]) -> String {
    let mut s = String::new();
    for (i, x) in b.iter().enumerate() {
        if i > 0 {
            s.push(' ');
        }
        s.push_str(&format!("{:02x}", x));
    }
    s
}

fn text(b: &[u8]) -> String {
    format!("\"{}\"", String::from_utf8_lossy(b))
}

/// Render one well-formed item (text must be valid UTF-8).
pub fn render(i: &Item) -> String {
    match i {
        Item::Uint(n, _) => format!("{}", n),
        Item::Nint(n, _) => format!("{}", -1 - *n as i128),
        Item::Bytes(b, StrForm::Def(_)) => format!("h'{}'", hex_spaced(b)),
        Item::Text(b, StrForm::Def(_)) => text(b),
        Item::Bytes(b, StrForm::Indef(c)) => {
            if c.is_empty() {
                return "''_".into();
            }
            let mut o = 0;
            let mut parts = Vec::new();
            for (n, _) in c {
                parts.push(format!("h'{}'", hex_spaced(&b[o..o + n])));
                o += n;
            }
            format!("(_ {})", parts.join(", "))
        }
        Item::Text(b, StrForm::Indef(c)) => {
            if c.is_empty() {
                return "\"\"_".into();
            }
            let mut o = 0;
            let mut parts = Vec::new();
            for (n, _) in c {
                parts.push(text(&b[o..o + n]));
                o += n;
            }
            format!("(_ {})", parts.join(", "))
        }
        Item::Array(v, Len::Def(_)) => format!("[{}]", v.iter().map(render).collect::<Vec<_>>().join(", ")),
        Item::Array(v, Len::Indef) => format!("[_ {}]", v.iter().map(render).collect::<Vec<_>>().join(", ")),
        Item::Map(v, Len::Def(_)) => format!("{{{}}}", v.iter().map(|(k, x)| format!("{}: {}", render(k), render(x))).collect::<Vec<_>>().join(", ")),
        Item::Map(v, Len::Indef) => format!("{{_ {}}}", v.iter().map(|(k, x)| format!("{}: {}", render(k), render(x))).collect::<Vec<_>>().join(", ")),
        Item::Tag(t, _, inner) => format!("{}({})", t, render(inner)),
        Item::Simple(20) => "false".into(),
        Item::Simple(21) => "true".into(),
        Item::Simple(22) => "null".into(),
        Item::Simple(23) => "undefined".into(),
        Item::Simple(s) => format!("simple({})", s),
        // floats are shown in scientific notation of their value (Rust's `{:e}`)
        Item::Float(b, FW::F16) => format!("{:e}", f32::from_bits(f16_to_f32(*b as u16))),
        Item::Float(b, FW::F32) => format!("{:e}", f32::from_bits(*b as u32)),
        Item::Float(b, FW::F64) => format!("{:e}", f64::from_bits(*b)),
    }
}

/// What the documented display says about an arbitrary byte string.
#[derive(Debug, Clone, PartialEq, Eq)]
pub struct Diag {
    /// the notation of everything before the first problem (the complete notation if there is none)
    pub prefix: String,
    /// a decoding problem is reached: "the error message becomes part of the display", introduced by ` !!! `
    pub problem: bool,
    /// the input is malformed in a way the token-level display is not documented to notice (a break or a foreign chunk
    /// where an item is expected, a two-byte simple value below 32): only `prefix` up to that point is judged
    pub unjudged: bool,
}

enum Stop {
    /// a decoding problem the display reports inline
    Problem,
    /// the input ends inside a token: "the Iterator implementation calls Tokenizer::token until end of input has been
    /// reached" - the token stream simply ends (a problem only if a container is still open)
    End,
    Unjudged,
}

struct Head {
    major: u8,
    ai: u8,
    arg: u64,
    next: usize,
}

fn head(b: &[u8], pos: usize) -> Result<Head, Stop> {
    let Some(&x) = b.get(pos) else { return Err(Stop::End) };
    let (major, ai) = (x >> 5, x & 0x1f);
    let extra = match ai {
        0..=23 | 31 => 0,
        24 => 1,
        25 => 2,
        26 => 4,
        27 => 8,
        _ => return Err(Stop::Problem),
    };
    if b.len() - pos - 1 < extra {
        return Err(Stop::End);
    }
    let mut arg = ai as u64;
    if extra > 0 {
        arg = 0;
        for k in 0..extra {
            arg = arg << 8 | b[pos + 1 + k] as u64;
        }
    }
    if ai == 31 && matches!(major, 0 | 1 | 6) {
        return Err(Stop::Problem);
    }
    Ok(Head { major, ai, arg, next: pos + 1 + extra })
}

/// Is the next token (head, plus payload for definite strings) lexically complete?
fn token_ok(b: &[u8], pos: usize) -> bool {
    match head(b, pos) {
        Err(_) => false,
        Ok(h) if (h.major == 2 || h.major == 3) && h.ai != 31 => {
            let rest = (b.len() - h.next) as u64;
            h.arg <= rest && (h.major == 2 || std::str::from_utf8(&b[h.next..h.next + h.arg as usize]).is_ok())
        }
        Ok(_) => true,
    }
}

fn nested(b: &[u8], pos: usize, out: &mut String) -> Result<usize, Stop> {
    match diag_item(b, pos, out) {
        Err(Stop::End) => Err(Stop::Problem),
        r => r,
    }
}

fn diag_item(b: &[u8], pos: usize, out: &mut String) -> Result<usize, Stop> {
    let h = head(b, pos)?;
    let mut p = h.next;
    match h.major {
        0 => out.push_str(&format!("{}", h.arg)),
        1 => out.push_str(&format!("{}", -1 - h.arg as i128)),
        2 | 3 if h.ai != 31 => {
            if h.arg > (b.len() - p) as u64 {
                return Err(Stop::End);
            }
            if !token_ok(b, pos) {
                return Err(Stop::Problem);
            }
            let s = &b[p..p + h.arg as usize];
            out.push_str(&if h.major == 2 { format!("h'{}'", hex_spaced(s)) } else { text(s) });
            p += h.arg as usize;
        }
        2 | 3 => {
            if b.get(p) == Some(&0xff) {
                out.push_str(if h.major == 2 { "''_" } else { "\"\"_" });
                return Ok(p + 1);
            }
            out.push_str("(_ ");
            let mut first = true;
            loop {
                if p == b.len() {
                    return Err(Stop::Problem);
                }
                if b[p] == 0xff {
                    out.push(')');
                    p += 1;
                    break;
                }
                if !token_ok(b, p) {
                    return Err(Stop::Problem);
                }
                let Ok(c) = head(b, p) else { return Err(Stop::Problem) };
                if c.major != h.major || c.ai == 31 {
                    return Err(Stop::Unjudged);
                }
                if !first {
                    out.push_str(", ");
                }
                first = false;
                p = nested(b, p, out)?;
            }
        }
        4 if h.ai != 31 => {
            out.push('[');
            for i in 0..h.arg {
                if i > 0 {
                    out.push_str(", ");
                }
                p = nested(b, p, out)?;
            }
            out.push(']');
        }
        4 => {
            out.push_str("[_ ");
            let mut first = true;
            loop {
                if p == b.len() {
                    return Err(Stop::Problem);
                }
                if b[p] == 0xff {
                    out.push(']');
                    p += 1;
                    break;
                }
                if !first {
                    if !token_ok(b, p) {
                        return Err(Stop::Problem);
                    }
                    out.push_str(", ");
                }
                first = false;
                p = nested(b, p, out)?;
            }
        }
        5 if h.ai != 31 => {
            out.push('{');
            for i in 0..h.arg {
                if i > 0 {
                    out.push_str(", ");
                }
                p = nested(b, p, out)?;
                out.push_str(": ");
                p = nested(b, p, out)?;
            }
            out.push('}');
        }
        5 => {
            out.push_str("{_ ");
            let mut first = true;
            loop {
                if p == b.len() {
                    return Err(Stop::Problem);
                }
                if b[p] == 0xff {
                    out.push('}');
                    p += 1;
                    break;
                }
                if !first {
                    if !token_ok(b, p) {
                        return Err(Stop::Problem);
                    }
                    out.push_str(", ");
                }
                first = false;
                p = nested(b, p, out)?;
                out.push_str(": ");
                p = nested(b, p, out)?;
            }
        }
        6 => {
            out.push_str(&format!("{}(", h.arg));
            p = nested(b, p, out)?;
            out.push(')');
        }
        _ => match h.ai {
            20 => out.push_str("false"),
            21 => out.push_str("true"),
            22 => out.push_str("null"),
            23 => out.push_str("undefined"),
            0..=19 => out.push_str(&format!("simple({})", h.arg)),
            24 if h.arg < 32 => return Err(Stop::Unjudged),
            24 => out.push_str(&format!("simple({})", h.arg)),
            25 => out.push_str(&format!("{:e}", f32::from_bits(f16_to_f32(h.arg as u16)))),
            26 => out.push_str(&format!("{:e}", f32::from_bits(h.arg as u32))),
            27 => out.push_str(&format!("{:e}", f64::from_bits(h.arg))),
            _ => return Err(Stop::Unjudged), // a break where an item is expected
        },
    }
    Ok(p)
}

/// The documented display of an arbitrary byte string: the notation of the items in order (no separator between
/// top-level items) up to the first decoding problem.
pub fn diag_bytes(b: &[u8]) -> Diag {
    let mut out = String::new();
    let mut p = 0;
    while p < b.len() {
        match diag_item(b, p, &mut out) {
            Ok(n) => p = n,
            Err(Stop::Problem) => return Diag { prefix: out, problem: true, unjudged: false },
            Err(Stop::End) => return Diag { prefix: out, problem: false, unjudged: false },
            Err(Stop::Unjudged) => return Diag { prefix: out, problem: false, unjudged: true },
        }
    }
    Diag { prefix: out, problem: false, unjudged: false }
}
